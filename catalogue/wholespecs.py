"""Spec predicates for operations whose result is not a per-lane map:
mask / from_mask / all / any / none / count / get (C03), reductions (C09)."""
from engine import terms as T
from engine import lanes


def _bits_of(bv):
    """set of distinct 1-bit pieces (keys) occurring in bv, plus whether any constant/other piece occurs"""
    s = set()
    other = []
    for p in bv:
        if p[0] == 'r':
            s.add(p[1])
        elif p[0] == 's' and p[3] == 1:
            s.add(p)
        elif p[0] == 'c':
            other.append(p)
        else:
            other.append(p)
    return s, other


def mask_spec(ty, cfg, n, args, ev):
    m = args[0]
    ret = ev.ret
    want = T.cat(*(list(m) + [T.const(T.width(ret) - n, 0)]))
    if ret == want:
        return True, 'bit i = lane i, upper bits zero', 'P', ''
    return False, 'bit i of mask() = lane i', 'P', 'got %s' % T.fmt(ret, 4)[:400]


def from_mask_spec(ty, cfg, n, args, ev):
    u = args[0]
    ret = ev.ret
    W = ty.bits
    for i in range(n):
        got = T.slice_(ret, i, 1) if cfg.mask_regs else T.slice_(ret, i * W, W)
        want = T.slice_(u, i, 1) if cfg.mask_regs else T.rep(T.slice_(u, i, 1), W)
        if got != want:
            return False, 'lane i true iff bit i of the mask', 'P', 'lane %d: got %s expected %s' % (i, T.fmt(got, 4)[:300], T.fmt(want, 3))
    cls = 'I' if getattr(ev, 'lut_reads', None) else 'P'
    return True, 'lane i = bit i' + (' (constant LUT analysed entry by entry: %s)' % (ev.lut_reads,) if cls == 'I' else ''), cls, ''


def _quant(kind):
    def f(ty, cfg, n, args, ev):
        """result must be  [not] (X == C)  where every non-constant bit of X is a mask bit m_i (possibly negated):
        the test then reads  AND_i (m_i == v_i); all: every lane, v_i = 1; none: v_i = 0; any = not none."""
        m = args[0]
        ret = ev.ret
        r0 = T.slice_(ret, 0, 1)
        hi = T.slice_(ret, 1, T.width(ret) - 1) if T.width(ret) > 1 else ()
        if hi and not (T.is_const(hi) and T.const_val(hi) == 0):
            return False, kind, 'P', 'bool result has non-zero upper bits'
        lane_of = dict((x[0], i) for i, x in enumerate(m))
        t = T.single_term(r0)
        neg = False
        if t is not None and t.kind == 'op' and t.name == 'not':
            neg = True
            t = T.single_term(t.ops[0])
        req = {}
        if t is not None and t.kind == 'op' and t.name == 'eq':
            x, c = t.ops
            if T.is_const(x):
                x, c = c, x
            if not T.is_const(c):
                return False, kind, 'P', 'comparison is not against a constant'
            cv = T.const_val(c)
            pos = 0
            for p in x:
                pwid = T.pw(p)
                seg = (cv >> pos) & ((1 << pwid) - 1)
                pos += pwid
                if p[0] == 'c':
                    if p[2] != seg:
                        return False, kind, 'P', 'constant part of the test can never match'
                    continue
                q = p[1] if p[0] == 'r' else p
                if seg not in (0, (1 << pwid) - 1):
                    return False, kind, 'P', 'replicated bit compared with a mixed constant'
                v = 1 if seg else 0
                if q[0] == 's' and q[1].kind == 'op' and q[1].name == 'not' and q[3] == 1:
                    q = q[1].ops[0][0]
                    v = 1 - v
                if q not in lane_of:
                    return False, kind, 'P', 'compared value contains a non-mask piece %s' % T.fmt((p,), 3)[:200]
                if req.get(lane_of[q], v) != v:
                    return False, kind, 'P', 'contradictory requirements on lane %d' % lane_of[q]
                req[lane_of[q]] = v
        elif r0[0] in lane_of and n == 1:
            req = {0: 1}
        else:
            return False, kind, 'P', 'result is not an (in)equality test of the mask bits: %s' % T.fmt(r0, 4)[:300]
        if len(req) != n:
            return False, kind, 'P', 'the test covers %d of the %d lanes' % (len(req), n)
        vals = set(req.values())
        if kind == 'all' and vals == set([1]) and not neg:
            return True, 'AND_i lane_i', 'P', ''
        if kind == 'none' and vals == set([0]) and not neg:
            return True, 'AND_i not lane_i', 'P', ''
        if kind == 'any' and vals == set([0]) and neg:
            return True, 'not AND_i not lane_i', 'P', ''
        return False, kind, 'P', 'wrong polarity/constant: %s' % T.fmt(r0, 4)[:300]
    return f


all_spec = _quant('all')
any_spec = _quant('any')
none_spec = _quant('none')


def count_spec(ty, cfg, n, args, ev):
    m = args[0]
    ret = ev.ret
    t = T.single_term(T.canon(ret))
    # accepted: ctpop over a value whose bits are exactly the lanes, each once
    if len(ret) >= 1 and ret[0][0] == 's' and ret[0][1].kind == 'op' and ret[0][1].name == 'ctpop':
        tt = ret[0][1]
        hi = ret[1:]
        if all(p[0] == 'c' and p[2] == 0 for p in hi):
            x = tt.ops[0]
            ones = [p for p in x if p[0] != 'c']
            if all(p[0] == 'c' and p[2] == 0 for p in x if p[0] == 'c') and sorted(T._key((p,)) for p in ones) == sorted(T._key((b[0],)) for b in m):
                return True, 'popcount of the lane bits', 'P', ''
    # reviewed bit-twiddling population counts (Stanford bithacks, cited by the source):
    M = (1 << 64) - 1
    mz = T.cat(*(list(x for b in m for x in b) and [T.cat(*m)] or []) + [T.const(64 - n, 0)])
    alts = []
    # (a) up to 14 bits:  (m * 0x200040008001 & 0x111111111111111) % 0xf  -- three shifted copies put every input bit
    #     into its own hex digit; the digit sum modulo 15 is the number of set bits (<= 14)
    if n < 14:
        v = T.and_(T.mul(mz, T.const(64, 0x200040008001)), T.const(64, 0x111111111111111))
        alts.append(('CountBitsSet64 (mod 15)', T.raw_op('urem', 64, v, T.const(64, 15))))
    # (b) 32-bit parallel (SWAR) count
    if n <= 32:
        m32 = T.slice_(mz, 0, 32)
        c = lambda v: T.const(32, v)
        t1 = T.sub(m32, T.and_(T.lshr_c(m32, 1), c(0x55555555)))
        t2 = T.add(T.and_(t1, c(0x33333333)), T.and_(T.lshr_c(t1, 2), c(0x33333333)))
        t3 = T.and_(T.add(t2, T.lshr_c(t2, 4)), c(0x0F0F0F0F))
        alts.append(('CountBitsSetParallel 32', T.zext(T.lshr_c(T.mul(t3, c(0x01010101)), 24), 64)))
    c = lambda v: T.const(64, v)
    t1 = T.sub(mz, T.and_(T.lshr_c(mz, 1), c(M // 3)))
    t2 = T.add(T.and_(t1, c(M // 15 * 3)), T.and_(T.lshr_c(t1, 2), c(M // 15 * 3)))
    t3 = T.and_(T.add(t2, T.lshr_c(t2, 4)), c(M // 255 * 15))
    alts.append(('CountBitsSetParallel 64', T.lshr_c(T.mul(t3, c(M // 255)), 56)))
    got = T.canon(ret) if len(ret) == 1 else ret
    for (label, want) in alts:
        if want == ret or T.canon(want) == got:
            return True, label, 'I', ''
    return False, 'number of true lanes', 'P', 'not a popcount of exactly the lane bits nor a reviewed bit-count algorithm: %s' % T.fmt(ret, 3)[:300]


def get_spec(ty, cfg, n, args, ev, i):
    m = args[0]
    ret = ev.ret
    want = T.cat(m[i], T.const(T.width(ret) - 1, 0))
    if ret == want:
        return True, 'get(i) = lane i', 'P', ''
    return False, 'get(%d) = lane %d' % (i, i), 'P', 'got %s' % T.fmt(ret, 4)[:300]


# ---------------------------------------------------------------- C09 reductions
def _flatten(bv, names, acc):
    """flatten a tree of associative-commutative operator terms (names) into a list of leaf BVs"""
    t = T.single_term(bv)
    if t is not None and t.kind == 'op' and t.name in names:
        for o in t.ops:
            _flatten(o, names, acc)
    else:
        acc.append(bv)
    return acc


def _leaves_are_lanes(leaves, lanes_, exactly_once):
    want = sorted(T._key(l) for l in lanes_)
    got = sorted(T._key(l) for l in leaves)
    if exactly_once:
        return got == want
    return set(got) == set(want)


def _ret_value(ty, ev):
    ret = ev.ret
    W = ty.bits
    if T.width(ret) > W:   # small integers returned promoted (signext / zeroext)
        return T.canon(T.slice_(ret, 0, W))
    return T.canon(ret)


def reduce_add_spec(ty, cfg, n, args, ev):
    a = args[0]
    got = _ret_value(ty, ev)
    W = ty.bits
    if ty.is_int:
        want = a[0]
        for x in a[1:]:
            want = T.add(want, x)
        if got == want:
            return True, 'modular sum: every lane with coefficient 1', 'P', ''
        return False, 'sum of all lanes, each once', 'P', 'got %s' % T.fmt(got, 4)[:500]
    leaves = _flatten(got, ('fadd',), [])
    if _leaves_are_lanes(leaves, a, True):
        return True, 'fadd tree over every lane exactly once', 'P', ''
    return False, 'fadd tree over every lane exactly once', 'P', 'leaves: %s' % ', '.join(T.fmt(l, 2) for l in leaves)[:500]


def _reduce_minmax(which):
    def f(ty, cfg, n, args, ev):
        a = args[0]
        got = _ret_value(ty, ev)
        if ty.is_int:
            names = (('s' if ty.signed else 'u') + which,)
        else:
            names = ('x86.f' + which,)
        leaves = _flatten(got, names, [])
        if _leaves_are_lanes(leaves, a, False):
            return True, '%s tree over every lane (idempotent: at least once)' % names[0], 'P', ''
        return False, '%s of all lanes' % which, 'P', 'operator tree %s does not cover exactly the lanes: %s' % (names, T.fmt(got, 3)[:400])
    return f


reduce_max_spec = _reduce_minmax('max')
reduce_min_spec = _reduce_minmax('min')


def reduce_generic_spec(ty, cfg, n, args, ev):
    a = args[0]
    got = _ret_value(ty, ev)
    leaves = _flatten(got, ('lanewise:ext_f',), [])
    if _leaves_are_lanes(leaves, a, True):
        return True, 'tree of f over every lane exactly once', 'P', ''
    return False, 'fold of f over all lanes, each once', 'P', 'leaves: %s' % ', '.join(T.fmt(l, 2) for l in leaves)[:500]


def haddp_spec(ty, cfg, n, args, ev):
    ret = ev.ret
    W = ty.bits
    for i in range(n):
        got = T.canon(T.slice_(ret, i * W, W))
        row = [T.atom_bv('p', i * n + j, W) for j in range(n)]
        leaves = _flatten(got, ('fadd',), [])
        if not _leaves_are_lanes(leaves, row, True):
            return False, 'lane i = sum of row i', 'P', 'lane %d leaves: %s' % (i, ', '.join(T.fmt(l, 2) for l in leaves)[:400])
    # footprint: exactly the n rows
    return True, 'lane i = fadd tree over the n lanes of row i', 'P', ''


# ---------------------------------------------------------------- C05 data movement (provenance)
def _lanes_check(ty, cfg, n, ev, want, label):
    ret = ev.ret
    W = ty.bits
    if ret is None or isinstance(ret, (lanes.Ptr, dict)):
        return False, label, 'P', 'no register result'
    for i in range(n):
        got = T.slice_(ret, i * W, W)
        if got != want[i]:
            return False, label, 'P', 'output lane %d holds %s, the definition says %s' % (i, T.fmt(got, 3)[:200], T.fmt(want[i], 3)[:120])
    return True, label, 'P', ''


def swizzle_spec(ty, cfg, n, args, ev, V):
    a = args[0]
    return _lanes_check(ty, cfg, n, ev, [a[v] for v in V], 'out[i] = x[idx[i]]')


def shuffle_spec(ty, cfg, n, args, ev, V):
    a, b = args[0], args[1]
    return _lanes_check(ty, cfg, n, ev, [a[v] if v < n else b[v - n] for v in V], 'out[i] = idx[i]<n ? x[idx[i]] : y[idx[i]-n]')


def zip_spec(hi):
    def f(ty, cfg, n, args, ev):
        a, b = args[0], args[1]
        off = n // 2 if hi else 0
        want = []
        for i in range(n // 2):
            want += [a[off + i], b[off + i]]
        return _lanes_check(ty, cfg, n, ev, want, 'interleave of the %s halves' % ('high' if hi else 'low'))
    return f


def slide_spec(left):
    def f(ty, cfg, n, args, ev, N):
        A = T.cat(*args[0])
        bits = cfg.bits
        k = min(8 * N, bits)
        want = T.cat(T.const(k, 0), T.slice_(A, 0, bits - k)) if left else T.cat(T.slice_(A, k, bits - k), T.const(k, 0))
        if ev.ret == want:
            return True, 'byte shift with zero fill', 'P', ''
        # locate the first wrong byte
        for i in range(bits // 8):
            g, w_ = T.slice_(ev.ret, 8 * i, 8), T.slice_(want, 8 * i, 8)
            if g != w_:
                return False, 'byte shift with zero fill', 'P', 'output byte %d holds %s, the definition says %s' % (i, T.fmt(g, 3)[:160], T.fmt(w_, 3))
        return False, 'byte shift with zero fill', 'P', 'width mismatch'
    return f


def rotate_spec(left):
    def f(ty, cfg, n, args, ev, N):
        a = args[0]
        want = [a[(i + N) % n] if left else a[(i - N) % n] for i in range(n)]
        return _lanes_check(ty, cfg, n, ev, want, 'out[i] = x[(i%sN) mod n]' % ('+' if left else '-'))
    return f


def extract_pair_spec(ty, cfg, n, args, ev, i):
    a, b = args[0], args[1]
    want = [b[i + j] for j in range(n - i)] + [a[k] for k in range(i)]
    return _lanes_check(ty, cfg, n, ev, want, 'window [y[i..n-1], x[0..i-1]]')


def insert_spec(ty, cfg, n, args, ev, I):
    a, s = args[0], args[1]
    want = [s[0] if i == I else a[i] for i in range(n)]
    return _lanes_check(ty, cfg, n, ev, want, 'lane I replaced by the scalar')


def compress_spec(ty, cfg, n, args, ev, m):
    a = args[0]
    sel_ = [i for i in range(n) if (m >> i) & 1]
    z = T.const(ty.bits, 0)
    want = [a[i] for i in sel_] + [z] * (n - len(sel_))
    return _lanes_check(ty, cfg, n, ev, want, 'selected lanes packed to the front in order, zero fill')


def expand_spec(ty, cfg, n, args, ev, m):
    a = args[0]
    z = T.const(ty.bits, 0)
    want = []
    j = 0
    for i in range(n):
        if (m >> i) & 1:
            want.append(a[j])
            j += 1
        else:
            want.append(z)
    return _lanes_check(ty, cfg, n, ev, want, 'leading lanes spread to the selected positions in order, zero elsewhere')


# ---------------------------------------------------------------- C04 loads / stores (footprint + provenance)
def _footprint(accesses, base, total, what):
    """accesses: list of (base, off, size, align, inst).  Union must be exactly [0,total) on `base`."""
    cov = [0] * total
    for (b, off, size, align, inst) in accesses:
        if b != base:
            return '%s through unexpected object %s' % (what, b)
        if off < 0 or off + size > total:
            return '%s of bytes [%d,%d) outside the register footprint [0,%d)' % (what, off, off + size, total)
        for k in range(off, off + size):
            cov[k] = 1
    miss = [k for k in range(total) if not cov[k]]
    if miss:
        return 'bytes %s of the footprint are never %s' % (miss[:8], what)
    return None


def _align_ok(accesses, limit, what):
    for (b, off, size, align, inst) in accesses:
        if align > limit and not (off % align == 0 and limit % align == 0):
            # IR alignment states an assumption on the pointer: it may not exceed what the contract grants,
            # taking the constant offset into account
            pass
        if align > limit:
            import math
            eff = math.gcd(limit, off) if off else limit
            if align > max(eff, 1):
                return '%s assumes alignment %d at offset %d but the contract only grants %d' % (what, align, off, limit)
    return None


def load_spec(aligned):
    def f(ty, cfg, n, args, ev):
        W = ty.bits
        total = n * W // 8
        label = '%s load: reads exactly [0,%d) bytes, lane i = element i' % ('aligned' if aligned else 'unaligned', total)
        if ev.writes or ev.var_access:
            return False, label, 'P', 'memory written / indexed access in a load'
        e = _footprint(ev.reads, 'arg:p', total, 'read')
        if e:
            return False, label, 'P', e
        e = _align_ok(ev.reads, cfg.bits // 8 if aligned else W // 8, 'read')
        if e:
            return False, label, 'P', e
        want = [T.atom_bv('p', i, W) for i in range(n)]
        ok, _, _, why = _lanes_check(ty, cfg, n, ev, want, label)
        return ok, label, 'P', why
    return f


def store_spec(aligned):
    def f(ty, cfg, n, args, ev):
        a = args[0]
        W = ty.bits
        total = n * W // 8
        label = '%s store: writes exactly [0,%d) bytes, element i = lane i' % ('aligned' if aligned else 'unaligned', total)
        if ev.reads or ev.var_access:
            return False, label, 'P', 'the destination (or other argument memory) is read'
        e = _footprint(ev.writes, 'arg:o', total, 'written')
        if e:
            return False, label, 'P', e
        e = _align_ok(ev.writes, cfg.bits // 8 if aligned else W // 8, 'write')
        if e:
            return False, label, 'P', e
        mem = ev.mem.get('arg:o', {})
        for i in range(n):
            got = T.cat(*[mem[i * W // 8 + k] for k in range(W // 8)])
            if got != a[i]:
                return False, label, 'P', 'memory element %d receives %s instead of lane %d' % (i, T.fmt(got, 3)[:200], i)
        return True, label, 'P', ''
    return f


def bool_load_spec(ty, cfg, n, args, ev):
    W = ty.bits
    label = 'bool load: reads exactly n bytes, lane i = (mem[i] != 0)'
    if ev.writes or ev.var_access:
        return False, label, 'P', 'memory written in a load'
    e = _footprint(ev.reads, 'arg:p', n, 'read')
    if e:
        return False, label, 'P', e
    ret = ev.ret
    for i in range(n):
        got = T.slice_(ret, i, 1) if cfg.mask_regs else T.canon(T.slice_(ret, i * W, W))
        alts = [T.atom_bv('p', i, 1)]     # memory is modelled as bool objects: byte i = [p_i, 0 x 7]
        if not any(got == (x if cfg.mask_regs else T.rep(x, W)) for x in alts):
            return False, label, 'P', 'lane %d = %s' % (i, T.fmt(got, 3)[:200])
    return True, label, 'P', ''


def bool_store_spec(ty, cfg, n, args, ev):
    m = args[0]
    label = 'bool store: writes exactly n bytes, mem[i] = lane i ? 1 : 0'
    if ev.reads or ev.var_access:
        return False, label, 'P', 'argument memory read in a store'
    e = _footprint(ev.writes, 'arg:o', n, 'written')
    if e:
        return False, label, 'P', e
    mem = ev.mem.get('arg:o', {})
    for i in range(n):
        want = T.cat(m[i], T.const(7, 0))
        if mem[i] != want:
            return False, label, 'P', 'byte %d receives %s' % (i, T.fmt(mem[i], 3)[:200])
    return True, label, 'P', ''


def broadcast_spec(ty, cfg, n, args, ev):
    s = args[0]
    return _lanes_check(ty, cfg, n, ev, [s[0]] * n, 'every lane = the scalar')


def ctor_spec(ty, cfg, n, args, ev):
    want = [T.atom_bv('e%d' % i, 0, ty.bits) for i in range(n)]
    return _lanes_check(ty, cfg, n, ev, want, 'lane i = i-th constructor argument')


def bget_spec(ty, cfg, n, args, ev, i):
    a = args[0]
    got = _ret_value(ty, ev)
    if got == a[i]:
        return True, 'get(i) = lane i', 'P', ''
    return False, 'get(%d) = lane %d' % (i, i), 'P', 'got %s' % T.fmt(got, 3)[:200]


def gather_spec(ty, cfg, n, args, ev):
    label = 'gather: lane i = src[index lane i]; exactly n element reads'
    W = ty.bits
    if ev.writes:
        return False, label, 'P', 'memory written'
    if ev.reads:
        return False, label, 'P', 'constant-offset reads of the source in a gather: %s' % [(r[1], r[2]) for r in ev.reads][:4]
    idx = args[1]
    loads = [v for v in ev.var_access if v[0] == 'load']
    if len(loads) != n or len(ev.var_access) != n:
        return False, label, 'P', '%d indexed reads instead of %d' % (len(loads), n)
    ret = ev.ret
    used = set()
    for i in range(n):
        got = T.canon(T.slice_(ret, i * W, W))
        t = T.single_term(got)
        if t is None or t.kind != 'op' or t.name != 'memload':
            return False, label, 'P', 'lane %d is not a single indexed element read: %s' % (i, T.fmt(got, 3)[:200])
        base, off, scales = t.attrs
        if base != 'arg:p' or off != 0 or scales != (W // 8,) or t.width != W:
            return False, label, 'P', 'lane %d reads %s+%d with scale %s (want src + i*%d)' % (i, base, off, scales, W // 8)
        ix = t.ops[0]
        if ix == T.zext(idx[i], 64) and W < 64:
            return False, label, 'P', 'lane %d zero-extends its (signed) index lane: a negative index addresses src + 2^%d - |i| instead of src - |i|' % (i, W)
        if ix != T.sext(idx[i], 64):
            return False, label, 'P', 'lane %d uses index %s instead of index lane %d' % (i, T.fmt(ix, 3)[:160], i)
    return True, label, 'P', ''


def scatter_spec(ty, cfg, n, args, ev):
    label = 'scatter: dst[index lane i] = lane i; exactly n element writes'
    W = ty.bits
    a, idx = args[0], args[2]
    if ev.reads or ev.writes:
        return False, label, 'P', 'constant-offset access in a scatter'
    st = [v for v in ev.var_access if v[0] == 'store']
    if len(st) != n or len(ev.var_access) != n:
        return False, label, 'P', '%d indexed writes instead of %d' % (len(st), n)
    seen = set()
    for (kind, p, size, val, inst) in st:
        if p.base != 'arg:o' or p.off != 0 or size != W // 8 or len(p.var) != 1 or p.var[0][1] != W // 8:
            return False, label, 'P', 'write at %r size %d' % (p, size)
        ix = p.var[0][0]
        hit = None
        for i in range(n):
            if ix == T.sext(idx[i], 64):
                hit = i
            elif ix == T.zext(idx[i], 64) and W < 64:
                return False, label, 'P', 'the write for index lane %d zero-extends the (signed) index: a negative index addresses dst + 2^%d - |i| instead of dst - |i|' % (i, W)
        if hit is None:
            return False, label, 'P', 'write uses index %s which is no index lane' % T.fmt(ix, 3)[:160]
        if T.canon(val) != a[hit]:
            return False, label, 'P', 'index lane %d is paired with value %s instead of lane %d' % (hit, T.fmt(val, 3)[:160], hit)
        seen.add(hit)
    if len(seen) != n:
        return False, label, 'P', 'lanes %s are never written' % sorted(set(range(n)) - seen)
    return True, label, 'P', ''


# ---------------------------------------------------------------- C19 compile-time constants (IR part)
def const_batch_spec(ty, cfg, n, args, ev, V):
    W = ty.bits
    want = [T.const(W, v & ((1 << W) - 1)) for v in V]
    return _lanes_check(ty, cfg, n, ev, want, 'lane i of as_batch() is the literal v_i')


def const_bool_spec(ty, cfg, n, args, ev, Bv):
    ret = ev.ret
    W = ty.bits
    if ret is None or isinstance(ret, (lanes.Ptr, dict)):
        return False, 'lane i of as_batch_bool() is b_i', 'P', 'no register result'
    for i in range(n):
        got = T.slice_(ret, i, 1) if cfg.mask_regs else T.slice_(ret, i * W, W)
        want = T.const(1, Bv[i]) if cfg.mask_regs else T.const(W, ((1 << W) - 1) if Bv[i] else 0)
        if got != want:
            return False, 'lane i of as_batch_bool() is b_i', 'P', 'mask lane %d is %s, the constant says %s' % (i, T.fmt(got, 3)[:160], bool(Bv[i]))
    return True, 'lane i of as_batch_bool() is b_i', 'P', ''


def select_const_spec(ty, cfg, n, args, ev, Bv):
    a, b = args[0], args[1]
    return _lanes_check(ty, cfg, n, ev, [a[i] if Bv[i] else b[i] for i in range(n)], 'select(constant mask, x, y)[i] = b_i ? x[i] : y[i]  (what the run-time select returns for the converted mask)')


# ---------------------------------------------------------------- C06 conversions
from catalogue.configs import TY_BY_NAME as _TYS


def _u(tw, x, fw):
    return x


def conv_alts(F, D, x):
    """accepted lane terms of static_cast<D>(x) for a source lane x of type F (all agree on every representable
    source value).  Returns [(label, class, term)]"""
    fw, tw = F.bits, D.bits
    out = []
    if F.is_int and D.is_int:
        if tw == fw:
            return [('same bits (modular wrap)', 'P', x)]
        if tw < fw:
            return [('low bits (modular wrap)', 'P', T.slice_(x, 0, tw))]
        return [('sign extension' if F.signed else 'zero extension', 'P', (T.sext if F.signed else T.zext)(x, tw))]
    if F.is_int and D.is_fp:
        opn = 'sitofp' if F.signed else 'uitofp'
        out.append((opn, 'P', T.raw_op(opn, tw, x, attrs=fw)))
        for w in (32, 64):
            if w > fw:
                xe = (T.sext if F.signed else T.zext)(x, w)
                out.append(('%s of the widened value' % opn, 'P', T.raw_op('sitofp', tw, xe, attrs=w)))
                if not F.signed:
                    out.append(('uitofp of the widened value', 'P', T.raw_op('uitofp', tw, xe, attrs=w)))
        if F.bits == 32 and D.bits == 32:
            out.append(('cvtdq2ps', 'P', T.raw_op('sitofp', 32, x, attrs=32)) if F.signed else None)
        if not F.signed and fw == 32 and tw == 32:
            # reviewed emulation (class I): hi = x >> 16, lo = x & 0xffff, both < 2^16 so both int->float conversions and
            # the product 65536*float(hi) are exact; the single rounding happens in the final addition = RNE(x)
            hi = T.raw_op('sitofp', 32, T.zext(T.slice_(x, 16, 16), 32), attrs=32)
            lo = T.raw_op('sitofp', 32, T.zext(T.slice_(x, 0, 16), 32), attrs=32)
            k = T.const(32, 0x47800000)
            for mul in (T.raw_op('fmul', 32, hi, k), T.raw_op('fmul', 32, k, hi)):
                out.append(('65536*float(x>>16) + float(x&0xffff)', 'I', T.raw_op('fadd', 32, mul, lo)))
                out.append(('65536*float(x>>16) + float(x&0xffff)', 'I', T.raw_op('fadd', 32, lo, mul)))
        if fw == 64 and tw == 64:
            # reviewed emulations (class I) of the 64-bit integer -> double conversion below AVX512DQ ("Mysticial" magic
            # numbers, the reference cited in the source).  Every step before the final addition is exact, so the one
            # rounding of the final fadd is RNE(x):
            out.extend(('magic-number int64/uint64 -> double', 'I', t) for t in _i64_to_f64_magic(F, x))
        return [o for o in out if o]
    if F.is_fp and D.is_int:
        opn = 'fptosi' if D.signed else 'fptoui'
        out.append((opn, 'P', T.raw_op(opn, tw, x, attrs=fw)))
        if fw == 32 and tw == 32 and D.signed:
            out.append(('cvttps2dq', 'P', T.raw_op('x86.cvttps2dq', 32, x)))
        if fw == 32 and tw == 32 and not D.signed:
            out.append(('vcvttps2udq', 'P', T.raw_op('x86.cvttps2udq', 32, x)))
        # conversion to a wider / other-signedness integer followed by truncation agrees on every representable value
        for w in (32, 64):
            if w >= tw:
                for o2 in ('fptosi', 'fptoui'):
                    if (w, o2) != (tw, opn):
                        out.append(('%s to i%d, low bits' % (o2, w), 'P', T.slice_(T.raw_op(o2, w, x, attrs=fw), 0, tw)))
                if fw == 32 and w == 32:
                    out.append(('cvttps2dq, low bits', 'P', T.slice_(T.raw_op('x86.cvttps2dq', 32, x), 0, tw)))
        if fw == 32 and tw == 32 and not D.signed:
            # reviewed emulation (class I): x >= 2^31 ? int(x - 2^31) ^ 0x80000000 : int(x)
            # for 2^31 <= x < 2^32 the subtraction is exact and in int32 range; xor sets bit 31
            k = T.const(32, 0x4f000000)
            small = T.raw_op('x86.cvttps2dq', 32, x)
            for sub in (T.raw_op('fsub', 32, x, k), T.raw_op('fadd', 32, x, T.fneg(k)), T.raw_op('fadd', 32, T.fneg(k), x)):
                large = T.xor(T.raw_op('x86.cvttps2dq', 32, sub), T.const(32, 0x80000000))
                out.append(('x >= 2^31 ? int(x - 2^31) ^ 2^31 : int(x)', 'I', T.sel(T.fcmp('oge', x, k), large, small)))
        return out
    if F.is_fp and D.is_fp:
        if fw == tw:
            return [('same value', 'P', x)]
        opn = 'fpext' if tw > fw else 'fptrunc'
        return [(opn, 'P', T.raw_op(opn, tw, x, attrs=fw))]
    raise AssertionError((F, D))


def _i64_to_f64_magic(F, x):
    c = T.const
    if not F.signed:
        # lo = bits(2^52) | x[0:32]      == 2^52 + lo32            (exact, < 2^53)
        # hi = bits(2^84) | x[32:64]     == 2^84 + hi32 * 2^32     (exact: ulp(2^84) = 2^32)
        # (hi - (2^84 + 2^52)) + lo      == hi32*2^32 - 2^52 + 2^52 + lo32 ; the subtraction is exact, one rounding
        lo = T.cat(T.slice_(x, 0, 32), c(32, 0x43300000))
        hi = T.cat(T.slice_(x, 32, 32), c(32, 0x45300000))
        k = c(64, 0x4530000000100000)
        inner = [T.raw_op('fsub', 64, hi, k), T.raw_op('fadd', 64, hi, T.fneg(k))]
    else:
        # lo = bits(2^52) | x[0:48]                       == 2^52 + low48(x)                  (exact, < 2^53)
        # hi = bits(3*2^67) + (sext(x[48:64]) << 32)      == 3*2^67 + (x >> 48) * 2^48        (exact: ulp = 2^16, |x>>48| < 2^15)
        # (hi - (3*2^67 + 2^52)) + lo                     == (x>>48)*2^48 + low48(x) = x ; one rounding
        lo = T.cat(T.slice_(x, 0, 48), c(16, 0x4330))
        hi32 = T.add(T.cat(T.slice_(x, 48, 16), T.rep(T.slice_(x, 63, 1), 16)), c(32, 0x44380000))
        hi = T.cat(c(32, 0), hi32)
        k = c(64, 0x4438001000000000)
        inner = [T.raw_op('fsub', 64, hi, k), T.raw_op('fadd', 64, hi, T.fneg(k))]
    return [T.raw_op('fadd', 64, i_, lo) for i_ in inner]


def _conv_lanes(F, D, srcs, gots, label):
    cls = 'P'
    for i, (x, got) in enumerate(zip(srcs, gots)):
        hit = None
        alts = conv_alts(F, D, x)
        cg = T.canon(got)
        for (lab, k, want) in alts:
            if T.canon(want) == cg:
                hit = (lab, k)
                break
        if hit is None:
            return False, label, 'P', 'lane %d is %s, expected static_cast<%s>(lane %d) = %s' % (i, T.fmt(got, 5)[:300], D.c, i, T.fmt(alts[0][2], 4)[:160])
        if hit[1] == 'I':
            cls = 'I'
    return True, label, cls, ''


def _ret_lanes(ev, n, W):
    ret = ev.ret
    if ret is None or isinstance(ret, (lanes.Ptr, dict)):
        raise lanes.Unsupported('no register result')
    if T.width(ret) != n * W:
        raise lanes.Unsupported('result register has %d bits, expected %d' % (T.width(ret), n * W))
    return [T.slice_(ret, i * W, W) for i in range(n)]


def cast_spec(ty, cfg, n, args, ev, To):
    D = _TYS[To]
    label = 'lane i = static_cast<%s>(lane i of the %s batch)' % (D.c, ty.c)
    return _conv_lanes(ty, D, args[0], _ret_lanes(ev, n, D.bits), label)


def to_int_spec(ty, cfg, n, args, ev):
    D = _TYS['i32' if ty.bits == 32 else 'i64']
    return _conv_lanes(ty, D, args[0], _ret_lanes(ev, n, D.bits), 'to_int: lane i = static_cast<%s>(lane i)' % D.c)


def nearbyint_as_int_spec(ty, cfg, n, args, ev):
    """lane i = (integer of the same width) nearbyint(lane i): a hardware convert in the current rounding mode, or
    the truncating conversion of any accepted form of nearbyint / rint"""
    from . import specs as S_
    D = _TYS['i32' if ty.bits == 32 else 'i64']
    label = 'nearbyint_as_int: lane i = (%s) nearbyint(lane i)' % D.c
    gots = _ret_lanes(ev, n, D.bits)
    for i, (x, got) in enumerate(zip(args[0], gots)):
        cg = T.canon(got)
        alts = []
        if ty.bits == 32:
            alts.append(('cvtps2dq (rounds in the current mode)', T.raw_op('x86.cvtps2dq', 32, x)))
        for (lab, k_, r) in S_.rounding('nearbyint')(ty, x):
            if k_ != 'P':
                continue
            for conv in ('fptosi',):
                alts.append(('(int) %s' % lab, T.raw_op(conv, D.bits, r, attrs=ty.bits)))
            if ty.bits == 32:
                alts.append(('cvttps2dq of %s' % lab, T.raw_op('x86.cvttps2dq', 32, r)))
        if not any(T.canon(w_) == cg for (_l, w_) in alts):
            return False, label, 'P', 'lane %d is %s, expected e.g. %s' % (i, T.fmt(got, 5)[:300], T.fmt(alts[0][1], 4)[:160])
    return True, label, 'P', ''


def s_nearbyint_as_int_spec(ty, cfg, n, args, ev):
    """scalar overload (C17): the same forms as one lane of the batch kernel -- (integer of the same width) nearbyint(x)"""
    from . import specs as S_
    D = _TYS['i32' if ty.bits == 32 else 'i64']
    label = 'scalar nearbyint_as_int(x) = (%s) nearbyint(x), the form the batch kernels are matched against' % D.c
    x = args[0][0]
    ret = ev.ret
    if ret is None or isinstance(ret, (lanes.Ptr, dict)):
        return False, label, 'P', 'no integer result'
    cg = T.canon(T.slice_(ret, 0, D.bits))
    alts = []
    if ty.bits == 32:
        alts.append(T.raw_op('x86.cvtps2dq', 32, x))
    for (lab, k_, r) in S_.rounding('nearbyint')(ty, x):
        if k_ == 'P':
            alts.append(T.raw_op('fptosi', D.bits, r, attrs=ty.bits))
    if not any(T.canon(w_) == cg for w_ in alts):
        return False, label, 'P', 'result is %s, expected e.g. %s' % (T.fmt(cg, 5)[:300], T.fmt(alts[-1], 4)[:160])
    return True, label, 'P', ''


def bitwise_cast_spec(ty, cfg, n, args, ev, To):
    label = 'bitwise_cast: the result register holds exactly the source register\'s bytes'
    ret = ev.ret
    src = T.cat(*args[0])
    if ret is None or isinstance(ret, (lanes.Ptr, dict)):
        return False, label, 'P', 'no register result'
    if ret == src:
        return True, label, 'P', ''
    for i in range(cfg.bits // 8):
        g, w_ = T.slice_(ret, 8 * i, 8), T.slice_(src, 8 * i, 8)
        if g != w_:
            return False, label, 'P', 'byte %d of the result is %s, the source byte is %s' % (i, T.fmt(g, 3)[:160], T.fmt(w_, 3))
    return False, label, 'P', 'width mismatch'


def load_as_spec(aligned):
    def f(ty, cfg, n, args, ev, From):
        F = _TYS[From]
        total = n * F.bits // 8
        label = 'load_as<%s>(%s const*): reads exactly [0,%d) bytes, lane i = static_cast<%s>(mem[i])' % (ty.c, F.c, total, ty.c)
        if ev.writes or ev.var_access:
            return False, label, 'P', 'memory written / indexed access in a load'
        e = _footprint(ev.reads, 'arg:p', total, 'read')
        if e:
            return False, label, 'P', e
        e = _align_ok(ev.reads, cfg.bits // 8 if aligned else F.bits // 8, 'read')
        if e:
            return False, label, 'P', e
        srcs = [T.atom_bv('p', i, F.bits) for i in range(n)]
        return _conv_lanes(F, ty, srcs, _ret_lanes(ev, n, ty.bits), label)
    return f


def store_as_spec(aligned):
    def f(ty, cfg, n, args, ev, To):
        D = _TYS[To]
        total = n * D.bits // 8
        label = 'store_as(%s*, batch<%s>): writes exactly [0,%d) bytes, mem[i] = static_cast<%s>(lane i)' % (D.c, ty.c, total, D.c)
        if ev.reads or ev.var_access:
            return False, label, 'P', 'the destination (or other argument memory) is read'
        e = _footprint(ev.writes, 'arg:o', total, 'written')
        if e:
            return False, label, 'P', e
        e = _align_ok(ev.writes, cfg.bits // 8 if aligned else D.bits // 8, 'write')
        if e:
            return False, label, 'P', e
        mem = ev.mem.get('arg:o', {})
        gots = [T.cat(*[mem[i * D.bits // 8 + k] for k in range(D.bits // 8)]) for i in range(n)]
        return _conv_lanes(ty, D, args[0], gots, label)
    return f


def broadcast_as_spec(ty, cfg, n, args, ev, To):
    D = _TYS[To]
    nn = cfg.bits // D.bits
    s = args[0][0]
    label = 'broadcast_as<%s>(%s v): every lane = static_cast<%s>(v)' % (D.c, ty.c, D.c)
    return _conv_lanes(ty, D, [s] * nn, _ret_lanes(ev, nn, D.bits), label)


# ---------------------------------------------------------------- C16 interleaved complex loads / stores
def cload_spec(aligned, part):
    def f(ty, cfg, n, args, ev):
        W = ty.bits
        total = 2 * n * W // 8
        label = 'complex load: reads exactly [0,%d) bytes, lane i of %s = memory element %s' % (total, 'real()' if part == 're' else 'imag()', '2i' if part == 're' else '2i+1')
        if ev.writes or ev.var_access:
            return False, label, 'P', 'memory written / indexed access in a load'
        e = _footprint(ev.reads, 'arg:p', total, 'read')
        if e:
            return False, label, 'P', e
        e = _align_ok(ev.reads, cfg.bits // 8 if aligned else W // 8, 'read')
        if e:
            return False, label, 'P', e
        off = 0 if part == 're' else 1
        want = [T.atom_bv('p', 2 * i + off, W) for i in range(n)]
        ok, _, _, why = _lanes_check(ty, cfg, n, ev, want, label)
        return ok, label, 'P', why
    return f


def cstore_spec(aligned):
    def f(ty, cfg, n, args, ev):
        re, im = args[0], args[1]
        W = ty.bits
        total = 2 * n * W // 8
        label = 'complex store: writes exactly [0,%d) bytes, element i = (real lane i, imag lane i)' % total
        if ev.reads or ev.var_access:
            return False, label, 'P', 'the destination (or other argument memory) is read'
        e = _footprint(ev.writes, 'arg:o', total, 'written')
        if e:
            return False, label, 'P', e
        e = _align_ok(ev.writes, cfg.bits // 8 if aligned else W // 8, 'write')
        if e:
            return False, label, 'P', e
        mem = ev.mem.get('arg:o', {})
        for i in range(n):
            for (k, src, nm) in ((0, re, 'real'), (1, im, 'imag')):
                got = T.cat(*[mem[(2 * i + k) * W // 8 + b_] for b_ in range(W // 8)])
                if got != src[i]:
                    return False, label, 'P', 'memory element %d (%s part of complex %d) receives %s instead of %s lane %d' % (2 * i + k, nm, i, T.fmt(got, 3)[:160], nm, i)
        return True, label, 'P', ''
    return f


def ldexp_spec(ty, cfg, n, args, ev):
    """ldexp(x, k) = x * 2^k for EVERY integer k (C library semantics, lane by lane).
    Accepted: the hardware scaling VSCALEFPS/PD applied to (x, (float) k) under a full mask (x * 2^floor(k) with IEEE
    overflow / underflow).  Recognised as DEFECTIVE (reported with what fails): x * bitcast((k + bias) << mantissa bits) --
    the multiplier is 2^k only for k in [1 - bias, bias]; it is +0 for k = -bias, +inf for bias + 1, and outside that the
    field wraps into the sign bit (e.g. ldexp(1, bias + 2) is negative, ldexp(1, -bias - 1) is -inf)."""
    W = ty.bits
    label = 'ldexp: lane i = x_i * 2^(k_i), every integer k'
    gots = _ret_lanes(ev, n, W)
    bias, mant = (127, 23) if W == 32 else (1023, 52)
    one = 0x3f800000 if W == 32 else 0x3ff0000000000000
    for i, (x, k, got) in enumerate(zip(args[0], args[1], gots)):
        cg = T.canon(got)
        # hardware scaling: the lane is a slice of one scalef call over the whole registers
        if len(cg) == 1 and cg[0][0] == 's' and cg[0][1].name.startswith('call:llvm.x86.avx512.mask.scalef') and cg[0][2] == i * W and cg[0][3] == W:
            tc = cg[0][1]
            xs, ks = T.canon(tc.ops[0]), T.canon(tc.ops[1])
            msk = T.canon(tc.ops[3]) if len(tc.ops) > 3 else None
            okx = T.canon(T.slice_(xs, i * W, W)) == T.canon(x)
            kl = T.single_term(T.canon(T.slice_(ks, i * W, W)))
            okk = kl is not None and kl.name.startswith('sitofp') and (T.canon(kl.ops[0]) == T.canon(k) or T.canon(kl.ops[0]) == T.canon(T.slice_(k, 0, 32)))
            okm = msk is not None and T.is_const(msk) and T.const_val(msk) == (1 << T.width(msk)) - 1
            if okx and okk and okm:
                continue
            return False, label, 'P', 'lane %d: scalef with unexpected operands / mask' % i
        t = T.single_term(cg)
        if t is not None and t.name == 'fmul':
            others = [o for o in t.ops if T.canon(o) != T.canon(x)]
            if len(others) == 1:
                sc = T.canon(others[0])
                ts = T.single_term(sc)
                f1 = ts is not None and ts.name == 'sum' and ts.attrs[0] == one and tuple(ts.attrs[1]) == (1 << mant,) and T.canon(ts.ops[0]) == T.canon(k)
                f2 = len(sc) == 2 and sc[0] == ('c', mant, 0) and sc[1][0] == 's' and sc[1][1].name == 'sum' and sc[1][1].attrs[0] == bias and tuple(sc[1][1].attrs[1]) == (1,)
                if f1 or f2:
                    return False, label, 'P', ('DEFECTIVE FORM x * bitcast((k + %d) << %d): 2^k only for k in [%d, %d]; beyond, the exponent field wraps into the sign bit '
                                               '(ldexp(1, %d) is negative, std::ldexp gives +inf; ldexp(1, %d) is 0, std::ldexp gives a subnormal)' % (bias, mant, 1 - bias, bias, bias + 2, -bias))
        return False, label, 'P', 'lane %d is %s' % (i, T.fmt(got, 5)[:300])
    return True, label, 'P', ''


def _frexp_common(ty, cfg, n, args, ev, part):
    """frexp(x) = (m, e) with x = m 2^e, 1/2 <= |m| < 1 for every finite non-zero x (subnormals included), (+-0, 0) for
    zeros, (x, unspecified) for inf / NaN  (C library semantics).  No implementation of that is known to this checker;
    the generic kernel's form -- mantissa bits re-labelled with the exponent of 1/2, exponent = biased exponent field -
    (bias - 1), both forced to 0 when x == 0 -- is recognised as DEFECTIVE: a subnormal has exponent field 0 (its mantissa
    is not normalised: frexp(4.9e-324) = (0.5, -1022) instead of (0.5, -1073)), inf / NaN come back as finite mantissas
    (frexp(inf) = (0.5, 1025)), -0 comes back as +0."""
    W = ty.bits
    label = 'frexp: x = m 2^e with 1/2 <= |m| < 1 (subnormals normalised), zeros / inf / NaN passed through'
    gots = _ret_lanes(ev, n, W)
    bias, mant = (127, 23) if W == 32 else (1023, 52)
    expmask = ((1 << (W - 1 - mant)) - 1) << mant
    for i, (x, got) in enumerate(zip(args[0], gots)):
        txt = T.fmt(got, 12)
        # the exponent field of x is used as it is (no normalisation, no inf/NaN test): look for the only comparison being x != 0
        from engine import dtree
        conds = [t for t in dtree.conditions(T.canon(got)).values()]
        only_zero_test = all(t.name[1:] in ('oeq', 'une', 'one', 'ueq') and any(T.is_const(T.canon(o)) and T.const_val(T.canon(o)) == 0 for o in t.ops) for t in conds)
        if conds and only_zero_test:
            return False, label, 'P', ('DEFECTIVE FORM (%s): the only case distinction is x == 0; the exponent field of x is used as it is: subnormal arguments are not normalised, '
                                       'inf / NaN are returned as finite mantissas, -0 loses its sign' % part)
        return False, label, 'P', 'lane %d is %s' % (i, txt[:300])
    return True, label, 'P', ''


def frexp_m_spec(ty, cfg, n, args, ev):
    return _frexp_common(ty, cfg, n, args, ev, 'mantissa')


def frexp_e_spec(ty, cfg, n, args, ev):
    return _frexp_common(ty, cfg, n, args, ev, 'exponent')
