"""Catalogue of public operations analysed at lane level.

params: one letter per argument -- b: batch<T,A> (register by value), m: batch_bool<T,A>,
        s: scalar T, p: const T* / T* pointer.
ret:    b | m | s (scalar T) | bool | u64 | int
expr:   C++ expression over a,b,c (batches), m,n (masks), s (scalar); {n} etc. are literal variants.
"""
from . import specs as S
from . import wholespecs as WS
from .configs import INTS, FPS, ALL, REPRESENTATIVE


class Op(object):
    def __init__(self, name, group, props, types, params, ret, expr, spec, variants=None, note=None):
        self.name, self.group, self.props, self.types = name, group, props, types
        self.params, self.ret, self.expr, self.spec = params, ret, expr, spec
        self.variants = variants
        self.note = note
        self.whole = False
        self.ptr_type = None
        self.mem_bits = None
        self.lit = None
        self.tree = False
        self.elementwise = False


def _counts(ty):
    return [{'n': n} for n in range(ty.bits)]


OPS = []


def op(*a, **k):
    extra = dict((x, k.pop(x)) for x in ('whole', 'ptr_type', 'mem_bits', 'lit', 'tree', 'elementwise') if x in k)
    o = Op(*a, **k)
    for x, v in extra.items():
        setattr(o, x, v)
    OPS.append(o)
    return o


# ---- C01 ---------------------------------------------------------------------
C01 = ['C01', 'C13']
op('add', 'arith', C01, INTS, 'bb', 'b', 'xsimd::add(a, b)', S.add)
op('sub', 'arith', C01, INTS, 'bb', 'b', 'xsimd::sub(a, b)', S.sub)
op('mul', 'arith', C01, INTS, 'bb', 'b', 'xsimd::mul(a, b)', S.mul)
op('neg', 'arith', C01, INTS, 'b', 'b', 'xsimd::neg(a)', S.neg)
op('abs', 'arith', C01, INTS, 'b', 'b', 'xsimd::abs(a)', S.abs_int)
op('min', 'arith', C01, INTS, 'bb', 'b', 'xsimd::min(a, b)', S.minmax('min'))
op('max', 'arith', C01, INTS, 'bb', 'b', 'xsimd::max(a, b)', S.minmax('max'))
op('incr', 'arith', C01, INTS, 'b', 'b', 'xsimd::incr(a)', S.incr)
op('decr', 'arith', C01, INTS, 'b', 'b', 'xsimd::decr(a)', S.decr)
op('incr_if', 'arith', C01, INTS, 'bm', 'b', 'xsimd::incr_if(a, m)', S.incr_if)
op('decr_if', 'arith', C01, INTS, 'bm', 'b', 'xsimd::decr_if(a, m)', S.decr_if)
op('fma', 'arith', C01, INTS, 'bbb', 'b', 'xsimd::fma(a, b, c)', S.fma_int)
op('fms', 'arith', C01, INTS, 'bbb', 'b', 'xsimd::fms(a, b, c)', S.fms_int)
op('fnma', 'arith', C01, INTS, 'bbb', 'b', 'xsimd::fnma(a, b, c)', S.fnma_int)
op('fnms', 'arith', C01, INTS, 'bbb', 'b', 'xsimd::fnms(a, b, c)', S.fnms_int)
op('div', 'arith', C01, INTS, 'bb', 'b', 'xsimd::div(a, b)', S.div_int)
op('mod', 'arith', C01, INTS, 'bb', 'b', 'xsimd::mod(a, b)', S.mod_int)
op('sign', 'arith', C01, INTS, 'b', 'b', 'xsimd::sign(a)', S.sign_int)
op('sadd', 'arith', C01, INTS, 'bb', 'b', 'xsimd::sadd(a, b)', S.sadd)
op('ssub', 'arith', C01, INTS, 'bb', 'b', 'xsimd::ssub(a, b)', S.ssub)
op('avg', 'arith', C01, INTS, 'bb', 'b', 'xsimd::avg(a, b)', S.avg_int)
op('avgr', 'arith', C01, INTS, 'bb', 'b', 'xsimd::avgr(a, b)', S.avgr_int)

# ---- C07 ---------------------------------------------------------------------
C07 = ['C07', 'C13']
op('bitwise_and', 'bitwise', C07, INTS, 'bb', 'b', 'xsimd::bitwise_and(a, b)', S.band)
op('bitwise_or', 'bitwise', C07, INTS, 'bb', 'b', 'xsimd::bitwise_or(a, b)', S.bor)
op('bitwise_xor', 'bitwise', C07, INTS, 'bb', 'b', 'xsimd::bitwise_xor(a, b)', S.bxor)
op('bitwise_not', 'bitwise', C07, INTS, 'b', 'b', 'xsimd::bitwise_not(a)', S.bnot)
op('bitwise_andnot', 'bitwise', C07, INTS, 'bb', 'b', 'xsimd::bitwise_andnot(a, b)', S.bandnot)
op('shl', 'shift', C07, INTS, 'b', 'b', 'xsimd::bitwise_lshift(a, {n})', lambda ty, a, n: S.shl_n(ty, a, n), variants=_counts)
op('shr', 'shift', C07, INTS, 'b', 'b', 'xsimd::bitwise_rshift(a, {n})', lambda ty, a, n: S.shr_n(ty, a, n), variants=_counts)
op('shl_op', 'shift', C07, INTS, 'b', 'b', '(a << {n})', lambda ty, a, n: S.shl_n(ty, a, n), variants=_counts)
op('shr_op', 'shift', C07, INTS, 'b', 'b', '(a >> {n})', lambda ty, a, n: S.shr_n(ty, a, n), variants=_counts)
op('rotl', 'shift', C07, INTS, 'b', 'b', 'xsimd::rotl(a, {n})', lambda ty, a, n: S.rotl_n(ty, a, n), variants=_counts)
op('rotr', 'shift', C07, INTS, 'b', 'b', 'xsimd::rotr(a, {n})', lambda ty, a, n: S.rotr_n(ty, a, n), variants=_counts)
op('shl_v', 'bitwise', C07, INTS, 'bb', 'b', 'xsimd::bitwise_lshift(a, b)', S.shl_v)
op('shr_v', 'bitwise', C07, INTS, 'bb', 'b', 'xsimd::bitwise_rshift(a, b)', S.shr_v)

# ---- C03 ---------------------------------------------------------------------
C03 = ['C03', 'C13']
for _n, _e in (('eq', 'a == b'), ('neq', 'a != b'), ('lt', 'a < b'), ('le', 'a <= b'), ('gt', 'a > b'), ('ge', 'a >= b')):
    op(_n, 'cmp', C03, ALL, 'bb', 'm', '(%s)' % _e, S.cmp(_n))

# ---- C02 ---------------------------------------------------------------------
C02 = ['C02', 'C13']
op('fadd', 'fp', C02, FPS, 'bb', 'b', 'xsimd::add(a, b)', S.fop('fadd'))
op('fsub', 'fp', C02, FPS, 'bb', 'b', 'xsimd::sub(a, b)', S.fop('fsub'))
op('fmul', 'fp', C02, FPS, 'bb', 'b', 'xsimd::mul(a, b)', S.fop('fmul'))
op('fdiv', 'fp', C02, FPS, 'bb', 'b', 'xsimd::div(a, b)', S.fop('fdiv'))
op('fsqrt', 'fp', C02, FPS, 'b', 'b', 'xsimd::sqrt(a)', S.fsqrt)
op('fneg', 'fp', C02, FPS, 'b', 'b', 'xsimd::neg(a)', S.fneg)
op('fabs', 'fp', C02, FPS, 'b', 'b', 'xsimd::abs(a)', S.fabs)
op('ffabs', 'fp', C02 + ['C12'], FPS, 'b', 'b', 'xsimd::fabs(a)', S.fabs)
op('fcopysign', 'fp', C02, FPS, 'bb', 'b', 'xsimd::copysign(a, b)', S.fcopysign)
op('ffma', 'fp', C02, FPS, 'bbb', 'b', 'xsimd::fma(a, b, c)', S.ffma)
op('ffms', 'fp', C02, FPS, 'bbb', 'b', 'xsimd::fms(a, b, c)', S.ffms)
op('ffnma', 'fp', C02, FPS, 'bbb', 'b', 'xsimd::fnma(a, b, c)', S.ffnma)
op('ffnms', 'fp', C02, FPS, 'bbb', 'b', 'xsimd::fnms(a, b, c)', S.ffnms)
op('fmin', 'fp', C02, FPS, 'bb', 'b', 'xsimd::min(a, b)', S.fminmax('min'))
op('fmax', 'fp', C02, FPS, 'bb', 'b', 'xsimd::max(a, b)', S.fminmax('max'))
op('fisnan', 'fp', C02, FPS, 'b', 'm', 'xsimd::isnan(a)', S.fisnan)
op('fisinf', 'fp', C02, FPS, 'b', 'm', 'xsimd::isinf(a)', S.fisinf)
op('fisfinite', 'fp', C02, FPS, 'b', 'm', 'xsimd::isfinite(a)', S.fisfinite)
op('fsign', 'fp', C02, FPS, 'b', 'b', 'xsimd::sign(a)', S.fsign)
op('fsignnz', 'fp', C02, FPS, 'b', 'b', 'xsimd::signnz(a)', S.fsignnz)
op('fbitofsign', 'fp', C02, FPS, 'b', 'b', 'xsimd::bitofsign(a)', S.fbitofsign)
op('fband', 'fp', C02, FPS, 'bb', 'b', 'xsimd::bitwise_and(a, b)', S.band)
op('fbor', 'fp', C02, FPS, 'bb', 'b', 'xsimd::bitwise_or(a, b)', S.bor)
op('fbxor', 'fp', C02, FPS, 'bb', 'b', 'xsimd::bitwise_xor(a, b)', S.bxor)
op('fbnot', 'fp', C02, FPS, 'b', 'b', 'xsimd::bitwise_not(a)', S.bnot)
op('fbandnot', 'fp', C02, FPS, 'bb', 'b', 'xsimd::bitwise_andnot(a, b)', S.bandnot)

# ---- C08 ---------------------------------------------------------------------
C08 = ['C08', 'C13']
for _n in ('ceil', 'floor', 'trunc', 'nearbyint', 'rint'):
    op(_n, 'round', C08, FPS, 'b', 'b', 'xsimd::%s(a)' % _n, S.rounding(_n))

op('round', 'round', C08, FPS, 'b', 'b', 'xsimd::round(a)', S.round_spec)
op('nearbyint_as_int', 'round', ['C08', 'C17'], FPS, 'b', 'R_<{IT}>', 'xsimd::nearbyint_as_int(a)', WS.nearbyint_as_int_spec, whole=True)
op('is_flint', 'fp', C02, FPS, 'b', 'm', 'xsimd::is_flint(a)', S.is_flint_spec)
op('is_even', 'fp', C02, FPS, 'b', 'm', 'xsimd::is_even(a)', S.is_even_spec)
op('is_odd', 'fp', C02, FPS, 'b', 'm', 'xsimd::is_odd(a)', S.is_odd_spec)
op('nextafter', 'fp', C02, FPS, 'bb', 'b', 'xsimd::nextafter(a, b)', S.nextafter_spec, tree=True)
op('ldexp', 'fp', ['C02'], FPS, 'bx', 'b', 'xsimd::ldexp(a, x)', WS.ldexp_spec, whole=True)
op('frexp_m', 'fp', ['C02'], FPS, 'b', 'b', '[&] {{ B_<{IT}> e_; return xsimd::frexp(a, e_); }}()', WS.frexp_m_spec, whole=True)
op('frexp_e', 'fp', ['C02'], FPS, 'b', 'R_<{IT}>', '[&] {{ B_<{IT}> e_; xsimd::frexp(a, e_); return e_; }}()', WS.frexp_e_spec, whole=True)

# ---- C03 (masks) ---------------------------------------------------------------
from engine import terms as _T
op('mb_and', 'mask', C03, ALL, 'mm', 'm', '(m & n)', lambda ty, m, n: [S.P('and', _T.and_(m, n))])
op('mb_or', 'mask', C03, ALL, 'mm', 'm', '(m | n)', lambda ty, m, n: [S.P('or', _T.or_(m, n))])
op('mb_xor', 'mask', C03, ALL, 'mm', 'm', '(m ^ n)', lambda ty, m, n: [S.P('xor', _T.xor(m, n))])
op('mb_not', 'mask', C03, ALL, 'm', 'm', '(~m)', lambda ty, m: [S.P('not', _T.not_(m))])
op('mb_lnot', 'mask', C03, ALL, 'm', 'm', '(!m)', lambda ty, m: [S.P('not', _T.not_(m))])
op('mb_eq', 'mask', C03, ALL, 'mm', 'm', '(m == n)', lambda ty, m, n: [S.P('xnor', _T.not_(_T.xor(m, n)))])
op('mb_neq', 'mask', C03, ALL, 'mm', 'm', '(m != n)', lambda ty, m, n: [S.P('xor', _T.xor(m, n))])
op('mb_andnot', 'mask', C03, ALL, 'mm', 'm', 'xsimd::bitwise_andnot(m, n)', lambda ty, m, n: [S.P('m & ~n', _T.and_(m, _T.not_(n)))])
op('mb_land', 'mask', C03, ALL, 'mm', 'm', '(m && n)', lambda ty, m, n: [S.P('and', _T.and_(m, n))])
op('mb_lor', 'mask', C03, ALL, 'mm', 'm', '(m || n)', lambda ty, m, n: [S.P('or', _T.or_(m, n))])
op('select', 'mask', C03, ALL, 'mbb', 'b', 'xsimd::select(m, a, b)', lambda ty, m, a, b: [S.P('c ? x : y', _T.sel(m, a, b))])
op('mask', 'mask', C03, ALL, 'm', 'u64', 'm.mask()', WS.mask_spec, whole=True)
op('from_mask', 'mask', C03, ALL, 'u', 'm', 'M_<{T}>::from_mask(u)', WS.from_mask_spec, whole=True)
op('all', 'mask', C03, ALL, 'm', 'bool', 'xsimd::all(m)', WS.all_spec, whole=True)
op('any', 'mask', C03, ALL, 'm', 'bool', 'xsimd::any(m)', WS.any_spec, whole=True)
op('none', 'mask', C03, ALL, 'm', 'bool', 'xsimd::none(m)', WS.none_spec, whole=True)
op('count', 'mask', C03, ALL, 'm', 'size', 'xsimd::count(m)', WS.count_spec, whole=True)
op('mget', 'mask', C03, ALL, 'm', 'bool', 'm.get({i})', WS.get_spec, whole=True,
   variants=lambda ty: [{'i': 0}, {'i': 1}, {'i': (128 // ty.bits) - 1}])
op('bool_to_batch', 'mask', C03, ALL, 'm', 'b', 'B_<{T}>(m)', lambda ty, m: [S.P('c ? 1 : 0', _T.sel(m, (S.fone(ty) if ty.is_fp else S.K(ty, 1)), S.K(ty, 0)))])

# ---- C09 ---------------------------------------------------------------------
C09 = ['C09']
op('reduce_add', 'reduce', C09, ALL, 'b', 's', 'xsimd::reduce_add(a)', WS.reduce_add_spec, whole=True)
op('reduce_max', 'reduce', C09, ALL, 'b', 's', 'xsimd::reduce_max(a)', WS.reduce_max_spec, whole=True)
op('reduce_min', 'reduce', C09, ALL, 'b', 's', 'xsimd::reduce_min(a)', WS.reduce_min_spec, whole=True)
op('reduce', 'reduce', C09, ALL, 'b', 's', 'xsimd::reduce([](B_<{T}> x, B_<{T}> y) {{ return B_<{T}>(ext_f_{TN}(x, y)); }}, a)', WS.reduce_generic_spec, whole=True)
op('haddp', 'reduce', C09, FPS, 'p', 'b', 'xsimd::haddp(reinterpret_cast<const B_<{T}>*>(p))', WS.haddp_spec, whole=True)

# ---- C05 ---------------------------------------------------------------------
from . import masks as MK
C05 = ['C05']


def _nl(ty, cfg):
    return cfg.bits // ty.bits


op('swizzle', 'move_swz', C05 + ['C19'], ALL, 'b', 'b', 'xsimd::swizzle(a, xsimd::batch_constant<{U}, A, {V}>{{}})', WS.swizzle_spec, whole=True,
   variants=lambda ty, cfg, tier: [{'V': tuple(v)} for v in MK.swizzle_masks(_nl(ty, cfg), tier, 'swz', False, tier == 'quick' and cfg.name not in REPRESENTATIVE)])
op('shuffle', 'move_shf', C05 + ['C19'], ALL, 'bb', 'b', 'xsimd::shuffle(a, b, xsimd::batch_constant<{U}, A, {V}>{{}})', WS.shuffle_spec, whole=True,
   variants=lambda ty, cfg, tier: [{'V': tuple(v)} for v in MK.swizzle_masks(_nl(ty, cfg), tier, 'shf', True, tier == 'quick' and cfg.name not in REPRESENTATIVE)])
op('zip_lo', 'move', C05, ALL, 'bb', 'b', 'xsimd::zip_lo(a, b)', WS.zip_spec(False), whole=True)
op('zip_hi', 'move', C05, ALL, 'bb', 'b', 'xsimd::zip_hi(a, b)', WS.zip_spec(True), whole=True)
op('slide_left', 'move', C05 + ['C19'], INTS, 'b', 'b', 'xsimd::slide_left<{N}>(a)', WS.slide_spec(True), whole=True,
   variants=lambda ty, cfg: [{'N': k} for k in range(0, cfg.bits // 8 + 1)])
op('slide_right', 'move', C05 + ['C19'], INTS, 'b', 'b', 'xsimd::slide_right<{N}>(a)', WS.slide_spec(False), whole=True,
   variants=lambda ty, cfg: [{'N': k} for k in range(0, cfg.bits // 8 + 1)])
op('rotate_left', 'move', C05 + ['C19'], ALL, 'b', 'b', 'xsimd::rotate_left<{N}>(a)', WS.rotate_spec(True), whole=True,
   variants=lambda ty, cfg: [{'N': k} for k in range(0, _nl(ty, cfg))])
op('rotate_right', 'move', C05 + ['C19'], ALL, 'b', 'b', 'xsimd::rotate_right<{N}>(a)', WS.rotate_spec(False), whole=True,
   variants=lambda ty, cfg: [{'N': k} for k in range(0, _nl(ty, cfg))])
op('extract_pair', 'move', C05, ALL, 'bb', 'b', 'xsimd::extract_pair(a, b, {i})', WS.extract_pair_spec, whole=True,
   variants=lambda ty, cfg: [{'i': k} for k in range(0, _nl(ty, cfg))])
op('insert', 'move', C05 + ['C04', 'C19'], ALL, 'bs', 'b', 'xsimd::insert(a, s, xsimd::index<{I}>())', WS.insert_spec, whole=True,
   variants=lambda ty, cfg: [{'I': k} for k in range(0, _nl(ty, cfg))])
op('compress', 'move_cx', C05, ALL, 'b', 'b', 'xsimd::compress(a, M_<{T}>::from_mask({m}ull))', WS.compress_spec, whole=True,
   variants=lambda ty, cfg, tier: [{'m': m} for m in MK.bitmasks(_nl(ty, cfg), tier, 'cmp')])
op('expand', 'move_cx', C05, ALL, 'b', 'b', 'xsimd::expand(a, M_<{T}>::from_mask({m}ull))', WS.expand_spec, whole=True,
   variants=lambda ty, cfg, tier: [{'m': m} for m in MK.bitmasks(_nl(ty, cfg), tier, 'exp')])

# ---- C04 ---------------------------------------------------------------------
C04 = ['C04']
op('load_aligned', 'mem', C04, ALL, 'p', 'b', 'B_<{T}>::load_aligned(p)', WS.load_spec(True), whole=True)
op('load_unaligned', 'mem', C04, ALL, 'p', 'b', 'B_<{T}>::load_unaligned(p)', WS.load_spec(False), whole=True)
op('load_tag_a', 'mem', C04, ALL, 'p', 'b', 'B_<{T}>::load(p, xsimd::aligned_mode())', WS.load_spec(True), whole=True)
op('load_tag_u', 'mem', C04, ALL, 'p', 'b', 'B_<{T}>::load(p, xsimd::unaligned_mode())', WS.load_spec(False), whole=True)
op('load_free_a', 'mem', C04, ALL, 'p', 'b', 'xsimd::load_aligned<A>(p)', WS.load_spec(True), whole=True)
op('load_free_u', 'mem', C04, ALL, 'p', 'b', 'xsimd::load_unaligned<A>(p)', WS.load_spec(False), whole=True)
op('store_aligned', 'mem', C04, ALL, 'bP', 'void', 'a.store_aligned(o)', WS.store_spec(True), whole=True)
op('store_unaligned', 'mem', C04, ALL, 'bP', 'void', 'a.store_unaligned(o)', WS.store_spec(False), whole=True)
op('store_tag_a', 'mem', C04, ALL, 'bP', 'void', 'a.store(o, xsimd::aligned_mode())', WS.store_spec(True), whole=True)
op('store_tag_u', 'mem', C04, ALL, 'bP', 'void', 'a.store(o, xsimd::unaligned_mode())', WS.store_spec(False), whole=True)
op('store_free_a', 'mem', C04, ALL, 'bP', 'void', 'xsimd::store_aligned(o, a)', WS.store_spec(True), whole=True)
op('store_free_u', 'mem', C04, ALL, 'bP', 'void', 'xsimd::store_unaligned(o, a)', WS.store_spec(False), whole=True)
op('bool_load_a', 'mem', C04 + ['C03'], ALL, 'p', 'm', 'M_<{T}>::load_aligned(p)', WS.bool_load_spec, whole=True, ptr_type=lambda ty: 'bool', mem_bits=lambda ty: 1)
op('bool_load_u', 'mem', C04 + ['C03'], ALL, 'p', 'm', 'M_<{T}>::load_unaligned(p)', WS.bool_load_spec, whole=True, ptr_type=lambda ty: 'bool', mem_bits=lambda ty: 1)
op('bool_store_a', 'mem', C04 + ['C03'], ALL, 'mP', 'void', 'm.store_aligned(o)', WS.bool_store_spec, whole=True, ptr_type=lambda ty: 'bool', mem_bits=lambda ty: 1)
op('bool_store_u', 'mem', C04 + ['C03'], ALL, 'mP', 'void', 'm.store_unaligned(o)', WS.bool_store_spec, whole=True, ptr_type=lambda ty: 'bool', mem_bits=lambda ty: 1)
op('broadcast', 'mem', C04, ALL, 's', 'b', 'B_<{T}>(s)', WS.broadcast_spec, whole=True)
op('broadcast_fn', 'mem', C04, ALL, 's', 'b', 'xsimd::broadcast<{T}, A>(s)', WS.broadcast_spec, whole=True)
op('ctor_list', 'mem', C04, ALL, 'E', 'b', 'B_<{T}>({ELIST})', WS.ctor_spec, whole=True)
op('bget', 'mem', C04, ALL, 'b', 's', 'a.get({i})', WS.bget_spec, whole=True,
   variants=lambda ty, cfg: [{'i': k} for k in sorted(set([0, 1, _nl(ty, cfg) // 2, _nl(ty, cfg) - 1]))])
op('gather', 'mem', C04, ALL, 'px', 'b', 'B_<{T}>::gather(p, x)', WS.gather_spec, whole=True)
op('scatter', 'mem', C04, ALL, 'bPx', 'void', 'a.scatter(o, x)', WS.scatter_spec, whole=True)

# ---- C19 (IR part: constant -> run-time conversion, constant-taking APIs vs their run-time forms) ---------------
C19 = ['C19']


def _lit(ty, k, e):
    if not isinstance(e, int) or isinstance(e, bool):
        return str(e)
    if k == 'Bv':
        return 'true' if e else 'false'
    if k == 'V' and isinstance(e, int):
        if ty.bits == 64:
            return ('%dull' % e) if e >= 0 else ('(-%dll)' % (-e))
        return ('%du' % e) if (e >= 0 and not ty.signed) else str(e)
    return str(e)


op('bc_as_batch', 'const', C19, INTS, '', 'b', 'B_<{T}>(xsimd::batch_constant<{T}, A, {V}>{{}})', WS.const_batch_spec, whole=True, lit=_lit,
   variants=lambda ty, cfg, tier: [{'V': tuple(v)} for v in MK.value_packs(ty, _nl(ty, cfg), tier, 'bc')])
op('bc_as_batch_m', 'const', C19, INTS, '', 'b', 'xsimd::batch_constant<{T}, A, {V}>{{}}.as_batch()', WS.const_batch_spec, whole=True, lit=_lit,
   variants=lambda ty, cfg, tier: [{'V': tuple(v)} for v in MK.value_packs(ty, _nl(ty, cfg), 'quick', 'bcm')[:6]])
op('bbc_as_batch_bool', 'const', C19, ALL, '', 'm', 'M_<{T}>(xsimd::batch_bool_constant<{T}, A, {Bv}>{{}})', WS.const_bool_spec, whole=True, lit=_lit,
   variants=lambda ty, cfg, tier: [{'Bv': tuple(v)} for v in MK.bool_packs(_nl(ty, cfg), tier, 'bbc')])
op('select_const', 'const', C19 + ['C03'], ALL, 'bb', 'b', 'xsimd::select(xsimd::batch_bool_constant<{T}, A, {Bv}>{{}}, a, b)', WS.select_const_spec, whole=True, lit=_lit,
   variants=lambda ty, cfg, tier: [{'Bv': tuple(v)} for v in MK.bool_packs(_nl(ty, cfg), tier, 'selc')])
op('swizzle_dyn', 'const', C19, ALL, 'b', 'b', 'xsimd::swizzle(a, xsimd::batch_constant<{U}, A, {V}>{{}}.as_batch())', WS.swizzle_spec, whole=True,
   variants=lambda ty, cfg, tier: [{'V': tuple(v)} for v in MK.swizzle_masks(_nl(ty, cfg), 'quick', 'swd')[:40 if tier == 'quick' else 400]])

# ---- C06 conversions -------------------------------------------------------------
from .configs import TY_BY_NAME as _TY
C06 = ['C06']


def _clit(ty, k, e):
    if k in ('To', 'From'):
        return _TY[e].c
    return str(e)


def _same_width(ty):
    return [{'To': t.name} for t in ALL if t.bits == ty.bits]


def _all_types(key):
    return lambda ty: [{key: t.name} for t in ALL]


op('batch_cast', 'conv', C06, ALL, 'b', 'R_<{To}>', 'xsimd::batch_cast<{To}>(a)', WS.cast_spec, whole=True, lit=_clit, variants=_same_width)
op('to_int', 'conv', C06, FPS, 'b', 'R_<{IT}>', 'xsimd::to_int(a)', WS.to_int_spec, whole=True)
op('to_float', 'conv', C06, [t for t in INTS if t.signed and t.bits >= 32], 'b', 'R_<{To}>', 'xsimd::to_float(a)', WS.cast_spec, whole=True, lit=_clit,
   variants=lambda ty: [{'To': 'f32' if ty.bits == 32 else 'f64'}])
op('bitwise_cast', 'conv', C06, ALL, 'b', 'R_<{To}>', 'xsimd::bitwise_cast<{To}>(a)', WS.bitwise_cast_spec, whole=True, lit=_clit, variants=_all_types('To'))
op('load_as_a', 'conv', C06, ALL, 'p', 'b', 'xsimd::load_as<{T}, A>(p, xsimd::aligned_mode())', WS.load_as_spec(True), whole=True, lit=_clit, variants=_all_types('From'),
   ptr_type=lambda ty, var: _TY[var['From']].c, mem_bits=lambda ty, var: _TY[var['From']].bits)
op('load_as_u', 'conv', C06, ALL, 'p', 'b', 'xsimd::load_as<{T}, A>(p, xsimd::unaligned_mode())', WS.load_as_spec(False), whole=True, lit=_clit, variants=_all_types('From'),
   ptr_type=lambda ty, var: _TY[var['From']].c, mem_bits=lambda ty, var: _TY[var['From']].bits)
op('store_as_a', 'conv', C06, ALL, 'bP', 'void', 'xsimd::store_as(o, a, xsimd::aligned_mode())', WS.store_as_spec(True), whole=True, lit=_clit, variants=_all_types('To'),
   ptr_type=lambda ty, var: _TY[var['To']].c, mem_bits=lambda ty, var: _TY[var['To']].bits)
op('store_as_u', 'conv', C06, ALL, 'bP', 'void', 'xsimd::store_as(o, a, xsimd::unaligned_mode())', WS.store_as_spec(False), whole=True, lit=_clit, variants=_all_types('To'),
   ptr_type=lambda ty, var: _TY[var['To']].c, mem_bits=lambda ty, var: _TY[var['To']].bits)
op('broadcast_as', 'conv', C06, ALL, 's', 'R_<{To}>', 'xsimd::broadcast_as<{To}, A>(s)', WS.broadcast_as_spec, whole=True, lit=_clit, variants=_all_types('To'))

# ---- C17 scalar overloads: the SAME spec forms as the batch kernels, applied to the scalar overload ----------------
import re as _re
C17 = ['C17']
_SC_SKIP = ('sign', 'fsign', 'fsignnz', 'fbitofsign', 'shl_op', 'shr_op', 'bool_to_batch', 'shl_v', 'shr_v')


def _scalarise(expr):
    e = _re.sub(r'\ba\b', 's', expr)
    e = _re.sub(r'\bb\b', 't', e)
    e = _re.sub(r'\bc\b', 'w', e)
    e = _re.sub(r'\bm\b', 'k', e)
    return e


for _o in list(OPS):
    if not (set(_o.props) & set(['C01', 'C02', 'C03', 'C07', 'C08'])) or getattr(_o, 'whole', False) or _o.name in _SC_SKIP or _o.name.startswith('mb_'):
        continue
    if any(ch not in 'bm' for ch in _o.params) or _o.ret not in ('b', 'm'):
        continue
    _so = op('s_' + _o.name, 'scalar', C17, _o.types, _o.params.replace('b', 's').replace('m', 'k'), 's' if _o.ret == 'b' else 'bool',
             _scalarise(_o.expr), _o.spec, variants=_o.variants)
# per-lane shift counts on scalars are the (value, count) overloads
op('s_nearbyint_as_int', 'scalar', C17, FPS, 's', '{IT}', 'xsimd::nearbyint_as_int(s)', WS.s_nearbyint_as_int_spec, whole=True)
op('s_clip', 'scalar', C17, ALL, 'sss', 's', 'xsimd::clip(s, t, w)', S.clip_scalar)
op('clip', 'scalar', C17, ALL, 'bbb', 'b', 'xsimd::clip(a, b, c)', S.clip_batch)

# ---- C16 complex batches ------------------------------------------------------------------------------------------
C16 = ['C16']
_Z1, _Z2, _Z3 = 'C_<{T}>(a, b)', 'C_<{T}>(c, d)', 'C_<{T}>(e, f)'
for _w, _e, _np in (('add', '(%s + %s)' % (_Z1, _Z2), 4), ('sub', '(%s - %s)' % (_Z1, _Z2), 4), ('mul', '(%s * %s)' % (_Z1, _Z2), 4),
                    ('div', '(%s / %s)' % (_Z1, _Z2), 4), ('neg', '(-%s)' % _Z1, 2),
                    ('fma', 'xsimd::fma(%s, %s, %s)' % (_Z1, _Z2, _Z3), 6), ('fms', 'xsimd::fms(%s, %s, %s)' % (_Z1, _Z2, _Z3), 6),
                    ('fnma', 'xsimd::fnma(%s, %s, %s)' % (_Z1, _Z2, _Z3), 6), ('fnms', 'xsimd::fnms(%s, %s, %s)' % (_Z1, _Z2, _Z3), 6)):
    for _pt in ('re', 'im'):
        op('c%s_%s' % (_w, _pt), 'complex', C16, FPS, 'b' * _np, 'b', '%s.%s()' % (_e, 'real' if _pt == 're' else 'imag'), S.complex_spec(_w, _pt))
# compound assignment, with a distinct and with an ALIASED right operand (z op= z must be the textbook z op z as well)
for _w, _sym in (('add', '+='), ('sub', '-='), ('mul', '*='), ('div', '/=')):
    for _pt in ('re', 'im'):
        _get = 'real' if _pt == 're' else 'imag'
        op('c%s_assign_%s' % (_w, _pt), 'complex', C16, FPS, 'bbbb', 'b', '[&]{{ C_<{T}> z(a, b); z %s C_<{T}>(c, d); return z; }}().%s()' % (_sym, _get), S.complex_spec(_w, _pt))
        op('c%s_self_%s' % (_w, _pt), 'complex', C16, FPS, 'bb', 'b', '[&]{{ C_<{T}> z(a, b); z %s z; return z; }}().%s()' % (_sym, _get),
           (lambda w_, p_: (lambda ty, a, b: S.complex_spec(w_, p_)(ty, a, b, a, b)))(_w, _pt))
op('cnorm', 'complex', C16, FPS, 'bb', 'b', 'xsimd::norm(%s)' % _Z1, S.complex_spec('norm', 're'))
op('ceq', 'complex', C16, FPS, 'bbbb', 'm', '(%s == %s)' % (_Z1, _Z2), lambda ty, a, b, c, d: [S.P('re == re && im == im', _T.and_(_T.fcmp('oeq', a, c), _T.fcmp('oeq', b, d)))])
op('cneq', 'complex', C16, FPS, 'bbbb', 'm', '(%s != %s)' % (_Z1, _Z2), lambda ty, a, b, c, d: [S.P('re != re || im != im', _T.or_(_T.fcmp('une', a, c), _T.fcmp('une', b, d)))])
op('creal', 'complex', C16, FPS, 'bb', 'b', 'xsimd::real(%s)' % _Z1, lambda ty, a, b: [S.P('real part', a)])
op('cimag', 'complex', C16, FPS, 'bb', 'b', 'xsimd::imag(%s)' % _Z1, lambda ty, a, b: [S.P('imaginary part', b)])
op('cconj_re', 'complex', C16, FPS, 'bb', 'b', 'xsimd::conj(%s).real()' % _Z1, lambda ty, a, b: [S.P('real part', a)])
op('cconj_im', 'complex', C16, FPS, 'bb', 'b', 'xsimd::conj(%s).imag()' % _Z1, lambda ty, a, b: [S.P('negated imaginary part', _T.fneg(b))])
op('cproj_re', 'complex', C16, FPS, 'bb', 'b', 'xsimd::proj(%s).real()' % _Z1, S.cproj('re'))
op('cproj_im', 'complex', C16, FPS, 'bb', 'b', 'xsimd::proj(%s).imag()' % _Z1, S.cproj('im'))
_cplx = lambda ty: 'std::complex<%s>' % ty.c
for _al, _mode in (('a', 'aligned'), ('u', 'unaligned')):
    for _pt in ('re', 'im'):
        op('cload_%s_%s' % (_al, _pt), 'complex', C16, FPS, 'p', 'b', 'C_<{T}>::load_%s(p).%s()' % (_mode, 'real' if _pt == 're' else 'imag'),
           WS.cload_spec(_al == 'a', _pt), whole=True, ptr_type=_cplx)
    op('cstore_%s' % _al, 'complex', C16, FPS, 'bbP', 'void', 'C_<{T}>(a, b).store_%s(o)' % _mode, WS.cstore_spec(_al == 'a'), whole=True, ptr_type=_cplx)

BY_NAME = dict((o.name, o) for o in OPS)


# element-wise operations whose spec is a whole-register one: they take part in C13 (lane dependence + position uniformity)
for _o in OPS:
    if _o.name in ('batch_cast', 'to_int', 'to_float', 'nearbyint_as_int', 'ldexp', 'frexp_m', 'frexp_e'):
        _o.elementwise = True
        if 'C13' not in _o.props:
            _o.props = list(_o.props) + ['C13']
