// Positive example for the C13(iii) lost-update rule (must be reported on every run; it is NOT xsimd code).
// Under `if (any(m2))` the value r, which already carries the masked update of m1 on top of base x, is rebuilt from the
// base x: lanes of m1 that are not in m2 revert to x only when some neighbour satisfies m2.
#include <xsimd/xsimd.hpp>
using B = xsimd::batch<float, ARCH>;
extern "C" B positive_lost_update(B x)
{
    auto m1 = x >= B(1.5f);
    B r = xsimd::select(m1, x * x + B(3.f), x);
    auto m2 = (x >= B(0.75f)) && !(x >= B(1.25f));
    if (xsimd::any(m2))
    {
        r = xsimd::select(m2, x - B(1.f), x); // should be: select(m2, x - 1, r)
    }
    return r;
}
extern "C" B negative_chained_update(B x)
{
    auto m1 = x >= B(1.5f);
    B r = xsimd::select(m1, x * x + B(3.f), x);
    auto m2 = (x >= B(0.75f)) && !(x >= B(1.25f));
    if (xsimd::any(m2))
    {
        r = xsimd::select(m2, x - B(1.f), r);
    }
    return r;
}
// Positive example for the mask-implication rule: the update mask (nz) does not imply the guard mask (m2).
extern "C" B positive_wrong_mask(B x)
{
    auto nz = x != B(0.f);
    auto m2 = (x < B(1e-30f)) && nz;
    B k = B(0.f);
    B r = x;
    if (xsimd::any(m2))
    {
        k = xsimd::select(nz, k - B(25.f), k); // should be: select(m2, ...)
        r = xsimd::select(m2, x * B(33554432.f), r);
    }
    return r + k;
}
