"""Index-pattern families for the data-movement instantiation sweeps (C05, C19).

Exploration over *programs*: every generated instantiation is decided exactly (for all lane values);
the families decide WHICH instantiations exist.  Structured families are deterministic; the random
ones are driven by VERIF_SEED."""
import os
import random
import itertools


def seed():
    try:
        return int(os.environ.get('VERIF_SEED', '0') or 0)
    except ValueError:
        return 0


def structured(n, rng_range=None):
    """swizzle index vectors of length n with entries in range(rng_range or n)"""
    R = rng_range or n
    out = []
    ident = list(range(n))
    out.append(ident)
    out.append(ident[::-1])
    for k in range(1, n):
        out.append([(i + k) % n for i in range(n)])          # rotations
    for k in range(min(n, 8)):
        out.append([k] * n)                                   # broadcasts (first 8 lanes)
    out.append([n - 1] * n)
    h = n // 2
    out.append([(i + h) % n for i in range(n)])               # half swap
    out.append([i ^ 1 for i in range(n)])                     # pair swap
    if n >= 4:
        out.append([i ^ 2 for i in range(n)])
        out.append([(i // 2) * 2 for i in range(n)])          # dup even
        out.append([(i // 2) * 2 + 1 for i in range(n)])      # dup odd
        out.append([i // 2 for i in range(n)])                # zip-lo-with-self
        out.append([h + i // 2 for i in range(n)])            # zip-hi-with-self
        out.append([(i % 2) * h + i // 2 for i in range(n)])  # interleave halves
        out.append([(i % h) * 2 + i // h for i in range(n)])  # de-interleave
    # in-128-bit-lane patterns and their cross-lane neighbours (lane = group of g elements)
    for g in (2, 4, 8, 16):
        if g < n:
            out.append([(i // g) * g + (g - 1 - i % g) for i in range(n)])      # reverse inside groups
            out.append([((i // g + 1) * g + i % g) % n for i in range(n)])       # rotate groups
            out.append([(i % g) for i in range(n)])                               # broadcast group 0
            out.append([(n - g + i % g) for i in range(n)])                       # broadcast last group
    # identity with ONE lane taken from the other half / other group: the family that exposes
    # kernels which permute inside halves and blend
    for i in range(n):
        j = (i + h) % n
        v = list(ident)
        v[i] = j
        out.append(v)
    for i in (0, n - 1, h, h - 1):
        v = [0] * n
        v[i] = n - 1
        out.append(v)
        v = [n - 1] * n
        v[i] = 0
        out.append(v)
    if R != n:
        # two-source (shuffle) patterns: indices >= n select the second operand
        out = [list(v) for v in out]
        out.append([n + i for i in range(n)])                  # all from y
        out.append([i if i % 2 == 0 else n + i for i in range(n)])   # blend even/odd
        out.append([i if i < h else n + i for i in range(n)])        # low x, high y
        out.append([n + i if i < h else i for i in range(n)])
        out.append([(i // 2) + (n if i % 2 else 0) for i in range(n)])            # zip_lo
        out.append([h + (i // 2) + (n if i % 2 else 0) for i in range(n)])        # zip_hi
        out.append([(2 * i) % (2 * n) for i in range(n)])                          # even elements of x:y
        out.append([(2 * i + 1) % (2 * n) for i in range(n)])
        for k in range(1, n):
            out.append([(i + k) for i in range(n)])            # extract_pair-like windows over x:y
        for g in (2, 4):
            if g <= n:
                # per-group "shufps" shape: first half of each group from x, second from y
                out.append([(i // g) * g + (i % g) + (n if (i % g) >= g // 2 else 0) for i in range(n)])
                out.append([(i // g) * g + (i % g) + (0 if (i % g) >= g // 2 else n) for i in range(n)])
        for i in range(0, n, max(1, n // 4)):
            v = list(range(n))
            v[i] = n + ((i + h) % n)
            out.append(v)
    return out


def swizzle_masks(n, tier, tag, two_source=False, light=False):
    """light: structured families only (used at quick tier for the configurations that share their kernels with a
    representative one)"""
    R = 2 * n if two_source else n
    if not two_source and n <= 4:
        return [list(t) for t in itertools.product(range(n), repeat=n)]
    if two_source and n <= 2:
        return [list(t) for t in itertools.product(range(R), repeat=n)]
    out = structured(n, R)
    rnd = random.Random('%d:%s:%d:%d' % (seed(), tag, n, R))
    count = {'quick': 48, 'thorough': 1500}[tier] if n <= 8 else {'quick': 24, 'thorough': 600}[tier]
    if light:
        count = 0
    for _ in range(count):
        kind = rnd.random()
        if kind < 0.4:
            v = [rnd.randrange(R) for _ in range(n)]
        elif kind < 0.7:
            v = list(range(n))
            rnd.shuffle(v)                                    # a permutation
            if two_source:
                v = [x + (n if rnd.random() < 0.5 else 0) for x in v]
        else:
            v = list(range(n))                                # identity with a few lanes perturbed
            for _ in range(rnd.randrange(1, 4)):
                v[rnd.randrange(n)] = rnd.randrange(R)
        out.append(v)
    # lane-replicated family: x86 kernels special-case index patterns that repeat per 128-bit lane (shufps/pshufd/
    # unpack/blend immediates): a g-element pattern P is replicated over the lanes with the lane offset added,
    # I[l*g+k] = P[k] + l*g.  Drawing P over the WHOLE index range (not only in-lane values) yields both the
    # patterns a fast path must accept and their near-misses (an element from the other lane / other operand),
    # which is where a wrongly widened fast-path condition shows.
    for g in (2, 4, 8, 16):
        if g >= n or light:
            continue
        cnt = {'quick': 220, 'thorough': 4000}[tier] if g <= 4 else {'quick': 40, 'thorough': 1200}[tier]
        space = R ** g
        if space <= cnt:
            pats = [list(t) for t in itertools.product(range(R), repeat=g)]
        else:
            # each position is drawn from a mixture that favours the values fast paths test for: the same lane of x,
            # the same lane of y, then the other lanes of either operand -- so that patterns satisfying all but one
            # clause of a fast-path guard (the ones a wrongly widened guard lets through) are frequent
            def draw():
                u = rnd.random()
                if not two_source:
                    return rnd.randrange(g) if u < 0.6 else rnd.randrange(n)
                if u < 0.4:
                    return rnd.randrange(g)
                if u < 0.7:
                    return n + rnd.randrange(g)
                return rnd.randrange(R)
            pats = [[draw() for _ in range(g)] for _ in range(cnt)]
        for P in pats:
            v = []
            for l in range(n // g):
                for k in range(g):
                    x = P[k]
                    src_y = x >= n
                    x = (x % n + l * g) % n
                    v.append(x + (n if src_y else 0))
            out.append(v)
    ded = []
    seen = set()
    for v in out:
        t = tuple(v)
        if t not in seen and all(0 <= x < R for x in t):
            seen.add(t)
            ded.append(list(t))
    return ded


def bitmasks(n, tier, tag):
    if n <= 4 or (n <= 8 and tier == 'thorough'):
        return list(range(1 << n))
    out = set([0, (1 << n) - 1, 1, 1 << (n - 1), (1 << (n // 2)) - 1, ((1 << (n // 2)) - 1) << (n // 2)])
    out.add(int('01' * (n // 2), 2))
    out.add(int('10' * (n // 2), 2))
    for i in range(n):
        out.add(1 << i)
        out.add(((1 << n) - 1) ^ (1 << i))
    rnd = random.Random('%d:%s:%d' % (seed(), tag, n))
    for _ in range({'quick': 24, 'thorough': 600}[tier]):
        out.add(rnd.getrandbits(n))
    return sorted(out)


def bool_packs(n, tier, tag):
    """boolean packs covering each lane independently: one-hot, all-but-one, alternating, halves, random"""
    out = [[0] * n, [1] * n, [i % 2 for i in range(n)], [(i + 1) % 2 for i in range(n)],
           [1 if i < n // 2 else 0 for i in range(n)], [0 if i < n // 2 else 1 for i in range(n)]]
    for k in range(n):
        out.append([1 if i == k else 0 for i in range(n)])
        out.append([0 if i == k else 1 for i in range(n)])
    rnd = random.Random('%d:%s:%d' % (seed(), tag, n))
    for _ in range({'quick': 6, 'thorough': 120}[tier]):
        out.append([rnd.randrange(2) for _ in range(n)])
    seen = set()
    ded = []
    for v in out:
        if tuple(v) not in seen:
            seen.add(tuple(v))
            ded.append(v)
    return ded


def value_packs(ty, n, tier, tag):
    """integer value packs covering each lane independently (one-hot with a distinctive value, all-but-one,
    extremes, random)"""
    W = ty.bits
    lo, hi = (-(1 << (W - 1)) + 1, (1 << (W - 1)) - 1) if ty.signed else (0, (1 << W) - 1)
    mark = hi
    out = [list(range(n)), [hi - i for i in range(n)], [lo + i for i in range(n)]]
    for k in range(n):
        out.append([mark if i == k else 0 for i in range(n)])
        out.append([1 if i == k else (lo if ty.signed else hi) for i in range(n)])
    rnd = random.Random('%d:%s:%d:%d' % (seed(), tag, n, W))
    for _ in range({'quick': 6, 'thorough': 120}[tier]):
        out.append([rnd.randint(lo, hi) for _ in range(n)])
    seen = set()
    ded = []
    for v in out:
        if tuple(v) not in seen:
            seen.add(tuple(v))
            ded.append(v)
    return ded
