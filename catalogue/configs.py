"""Architecture configurations analysed (DESIGN 2.1).

Each configuration = one xsimd architecture tag, compiled with the minimal -m
flags that make it `supported()`.  `bits` and `parents` are cross-checked
against the headers by the C20 witnesses, so this table is not a second source
of truth.
"""

SSE2 = ['-msse2']
SSE3 = SSE2 + ['-msse3']
SSSE3 = SSE3 + ['-mssse3']
SSE41 = SSSE3 + ['-msse4.1']
SSE42 = SSE41 + ['-msse4.2']
AVX = SSE42 + ['-mavx']
AVX2 = AVX + ['-mavx2']
AVX512F = AVX2 + ['-mfma', '-mavx512f']
AVX512CD = AVX512F + ['-mavx512cd']
AVX512DQ = AVX512CD + ['-mavx512dq']
AVX512BW = AVX512DQ + ['-mavx512bw']
AVX512IFMA = AVX512BW + ['-mavx512ifma']
AVX512VBMI = AVX512IFMA + ['-mavx512vbmi']
AVX512VBMI2 = AVX512VBMI + ['-mavx512vbmi2']


class Config(object):
    def __init__(self, name, arch, flags, bits, mask_regs=False, family=None, parents=()):
        self.name = name          # identifier used in wrapper names
        self.arch = arch          # C++ type
        self.flags = flags
        self.bits = bits          # register width
        self.mask_regs = mask_regs  # batch_bool is a k-register bit mask
        self.family = family or name
        self.parents = parents


CONFIGS = [
    Config('sse2', 'xsimd::sse2', SSE2, 128, family='sse'),
    Config('sse3', 'xsimd::sse3', SSE3, 128, family='sse'),
    Config('ssse3', 'xsimd::ssse3', SSSE3, 128, family='sse'),
    Config('sse4_1', 'xsimd::sse4_1', SSE41, 128, family='sse'),
    Config('sse4_2', 'xsimd::sse4_2', SSE42, 128, family='sse'),
    Config('fma3_sse', 'xsimd::fma3<xsimd::sse4_2>', SSE42 + ['-mfma'], 128, family='sse'),
    Config('fma4', 'xsimd::fma4', SSE42 + ['-mfma4'], 128, family='sse'),
    Config('avx', 'xsimd::avx', AVX, 256, family='avx'),
    Config('fma3_avx', 'xsimd::fma3<xsimd::avx>', AVX + ['-mfma'], 256, family='avx'),
    Config('avx2', 'xsimd::avx2', AVX2, 256, family='avx'),
    Config('fma3_avx2', 'xsimd::fma3<xsimd::avx2>', AVX2 + ['-mfma'], 256, family='avx'),
    Config('avxvnni', 'xsimd::avxvnni', AVX2 + ['-mavxvnni'], 256, family='avx'),
    Config('avx512f', 'xsimd::avx512f', AVX512F, 512, True, family='avx512'),
    Config('avx512cd', 'xsimd::avx512cd', AVX512CD, 512, True, family='avx512'),
    Config('avx512dq', 'xsimd::avx512dq', AVX512DQ, 512, True, family='avx512'),
    Config('avx512bw', 'xsimd::avx512bw', AVX512BW, 512, True, family='avx512'),
    Config('avx512ifma', 'xsimd::avx512ifma', AVX512IFMA, 512, True, family='avx512'),
    Config('avx512vbmi', 'xsimd::avx512vbmi', AVX512VBMI, 512, True, family='avx512'),
    Config('avx512vbmi2', 'xsimd::avx512vbmi2', AVX512VBMI2, 512, True, family='avx512'),
    Config('avx512vnni_bw', 'xsimd::avx512vnni<xsimd::avx512bw>', AVX512BW + ['-mavx512vnni'], 512, True, family='avx512'),
    Config('avx512vnni_vbmi2', 'xsimd::avx512vnni<xsimd::avx512vbmi2>', AVX512VBMI2 + ['-mavx512vnni'], 512, True, family='avx512'),
]
# the emulated architectures (arrays of scalars; -DXSIMD_WITH_EMULATED=1): analysed where the engines can follow them
EMULATED = [
    Config('emu128', 'xsimd::emulated<128>', SSE2 + ['-DXSIMD_WITH_EMULATED=1'], 128, family='emu'),
    Config('emu256', 'xsimd::emulated<256>', AVX + ['-DXSIMD_WITH_EMULATED=1'], 256, family='emu'),       # -mavx only so that the 256-bit exchange vector is one register
]
BY_NAME = dict((c.name, c) for c in CONFIGS + EMULATED)

# quick tier analyses every configuration as well (compilation is cached); this
# subset is only used by the slowest instantiation sweeps (C05/C19 random masks)
REPRESENTATIVE = ['sse2', 'ssse3', 'sse4_1', 'avx', 'avx2', 'avx512f', 'avx512bw', 'avx512vbmi']


class Ty(object):
    def __init__(self, name, c, bits, kind, signed):
        self.name, self.c, self.bits, self.kind, self.signed = name, c, bits, kind, signed

    @property
    def is_int(self):
        return self.kind == 'int'

    @property
    def is_fp(self):
        return self.kind == 'fp'

    def __repr__(self):
        return self.name


I8 = Ty('i8', 'int8_t', 8, 'int', True)
U8 = Ty('u8', 'uint8_t', 8, 'int', False)
I16 = Ty('i16', 'int16_t', 16, 'int', True)
U16 = Ty('u16', 'uint16_t', 16, 'int', False)
I32 = Ty('i32', 'int32_t', 32, 'int', True)
U32 = Ty('u32', 'uint32_t', 32, 'int', False)
I64 = Ty('i64', 'int64_t', 64, 'int', True)
U64 = Ty('u64', 'uint64_t', 64, 'int', False)
F32 = Ty('f32', 'float', 32, 'fp', True)
F64 = Ty('f64', 'double', 64, 'fp', True)
INTS = [I8, U8, I16, U16, I32, U32, I64, U64]
FPS = [F32, F64]
ALL = INTS + FPS
TY_BY_NAME = dict((t.name, t) for t in ALL)
