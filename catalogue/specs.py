"""Spec forms (class P) and reviewed algorithm templates (class I).

A spec form is the property statement written as a term over one lane's
operands, built with the same canonicalising constructors the IR normaliser
uses (engine/terms.py).  A template is a *named algorithm* (with the reason it
meets the property) for emulations no rewrite system recognises as the spec
operation.  Every function returns a list of (label, class, bv) alternatives.
"""
from engine import terms as T


def P(label, bv):
    return (label, 'P', bv)


def I(label, bv):
    return (label, 'I', bv)


def D(label, decide):
    """alternative decided by a procedure: decide(got) -> (True|False|None, detail).  True counts as class P (the
    procedure proves equality with the spec function for all operand values)."""
    return (label, 'D', decide)


def _octa(got, a, b, w, sign, unsigned=False):
    from engine import octa
    return octa.saturating(got, a, b, w, sign, unsigned)


def K(ty, v):
    return T.const(ty.bits, v)


def smin_c(ty):
    return 1 << (ty.bits - 1)


def smax_c(ty):
    return (1 << (ty.bits - 1)) - 1


# ---------------------------------------------------------------- C01 integer
def add(ty, a, b):
    return [P('add', T.add(a, b))]


def sub(ty, a, b):
    return [P('sub', T.sub(a, b))]


def mul(ty, a, b):
    alts = [P('mul', T.mul(a, b))]
    if ty.bits == 64:
        # schoolbook product modulo 2^64 from 32-bit halves:
        #   lo(a)*lo(b)  +  ((hi(a)*lo(b) + lo(a)*hi(b)) << 32)         (hi*hi falls out of range)
        alo, ahi, blo, bhi = T.slice_(a, 0, 32), T.slice_(a, 32, 32), T.slice_(b, 0, 32), T.slice_(b, 32, 32)
        z = lambda x: T.zext(x, 64)
        cross = T.add(T.shl_c(T.mul(z(ahi), z(blo)), 32), T.shl_c(T.mul(z(alo), z(bhi)), 32))
        alts.append(I('schoolbook 32x32 product', T.add(T.mul(z(alo), z(blo)), cross)))
    return alts


def neg(ty, a):
    return [P('neg', T.neg(a))]


def abs_int(ty, a):
    if not ty.signed:
        return [P('identity', a)]
    return [P('abs', T.abs_(a))]


def minmax(which):
    def f(ty, a, b):
        pre = 's' if ty.signed else 'u'
        return [P(pre + which, T.minmax(pre + which, a, b))]
    return f


def incr(ty, a):
    return [P('x+1', T.add(a, K(ty, 1)))]


def decr(ty, a):
    return [P('x-1', T.add(a, K(ty, -1)))]


def incr_if(ty, a, m):
    # m is the 1-bit lane condition
    return [P('c?x+1:x', T.sel(m, T.add(a, K(ty, 1)), a)), P('x+(c?1:0)', T.add(a, T.zext(m, ty.bits)))]


def decr_if(ty, a, m):
    return [P('c?x-1:x', T.sel(m, T.add(a, K(ty, -1)), a)), P('x-(c?1:0)', T.sub(a, T.zext(m, ty.bits)))]


def _with_mul(ty, a, b, label, f):
    return [(label if k == 'P' else label + ' [' + l + ']', k, f(m)) for (l, k, m) in mul(ty, a, b)]


def fma_int(ty, a, b, c):
    return _with_mul(ty, a, b, 'x*y+z', lambda m: T.add(m, c))


def fms_int(ty, a, b, c):
    return _with_mul(ty, a, b, 'x*y-z', lambda m: T.sub(m, c))


def fnma_int(ty, a, b, c):
    return _with_mul(ty, a, b, 'z-x*y', lambda m: T.sub(c, m)) + _with_mul(ty, T.neg(a), b, '(-x)*y+z', lambda m: T.add(m, c))[1:]


def fnms_int(ty, a, b, c):
    return _with_mul(ty, a, b, '-(x*y)-z', lambda m: T.sub(T.neg(m), c)) + _with_mul(ty, T.neg(a), b, '(-x)*y-z', lambda m: T.sub(m, c))[1:]


def _promoted(o, ty, a, b):
    # C++ evaluates x / y on (u)int8/16 after integral promotion; the result converted back to T is the
    # same value as the W-bit operation for every operand pair the property admits (no MIN / -1)
    ext = T.sext if ty.signed else T.zext
    alts = [P(o, T.raw_op(o, ty.bits, a, b))]
    for k in (16, 32):
        if k > ty.bits:
            alts.append(P('%s in promoted i%d' % (o, k), T.trunc(T.raw_op(o, k, ext(a, k), ext(b, k)), ty.bits)))
    return alts


def div_int(ty, a, b):
    return _promoted('sdiv' if ty.signed else 'udiv', ty, a, b)


def mod_int(ty, a, b):
    return _promoted('srem' if ty.signed else 'urem', ty, a, b)


def sign_int(ty, a):
    z = K(ty, 0)
    one = K(ty, 1)
    if ty.signed:
        gt = T.icmp('sgt', a, z)
        lt = T.icmp('slt', a, z)
        return [P('(x>0)-(x<0)', T.sub(T.sel(gt, one, z), T.sel(lt, one, z)))]
    gt = T.icmp('ne', a, z)
    return [P('x!=0', T.sel(gt, one, z)), P('x!=0', T.zext(gt, ty.bits))]


def sadd(ty, a, b):
    if ty.signed:
        alts = [P('sadd.sat', T.raw_op('sadd.sat', ty.bits, a, b))]
        # reviewed algorithm (xsimd_generic_arithmetic.hpp sadd): clamp a into [MIN-b, MAX-b]
        # (side chosen by the sign of b, so MIN-b / MAX-b cannot overflow), then add b.
        lo = T.sub(K(ty, smin_c(ty)), b)
        hi = T.sub(K(ty, smax_c(ty)), b)
        t = T.add(b, T.sel(T.topbit(b), T.minmax('smax', a, lo), T.minmax('smin', a, hi)))
        alts.append(I('clamp-then-add', t))
        # branchy overflow tests (scalar overload): decided by octagon case analysis over the exact operands
        alts.append(D('clamp(x + y) by octagon case analysis', lambda got: _octa(got, a, b, ty.bits, +1)))
        return alts
    alts = [P('uadd.sat', T.raw_op('uadd.sat', ty.bits, a, b))]
    # a + min(b, ~a): ~a = MAX - a is the head-room
    alts.append(I('x+min(y,~x)', T.add(a, T.minmax('umin', b, T.not_(a)))))
    alts.append(I('y+min(x,~y)', T.add(b, T.minmax('umin', a, T.not_(b)))))
    alts.append(D('clamp(x + y) to [0, UMAX] by octagon case analysis', lambda got: _octa(got, a, b, ty.bits, +1, True)))
    return alts


def ssub(ty, a, b):
    if ty.signed:
        alts = [P('ssub.sat', T.raw_op('ssub.sat', ty.bits, a, b))]
        # reviewed algorithm: clamp a into [MIN+b, MAX+b] (side chosen by the sign of b so that the bound
        # cannot overflow), then subtract b.   NB: "sadd(a, -b)" is NOT accepted: -MIN = MIN.
        lo = T.add(K(ty, smin_c(ty)), b)
        hi = T.add(K(ty, smax_c(ty)), b)
        alts.append(I('clamp-then-sub', T.sub(T.sel(T.topbit(b), T.minmax('smin', a, hi), T.minmax('smax', a, lo)), b)))
        alts.append(D('clamp(x - y) by octagon case analysis', lambda got: _octa(got, a, b, ty.bits, -1)))
        return alts
    alts = [P('usub.sat', T.raw_op('usub.sat', ty.bits, a, b))]
    alts.append(I('x-min(x,y)', T.sub(a, T.minmax('umin', a, b))))
    alts.append(P('x>y ? x-y : 0', T.sel(T.icmp('ugt', a, b), T.sub(a, b), K(ty, 0))))
    alts.append(D('clamp(x - y) to [0, UMAX] by octagon case analysis', lambda got: _octa(got, a, b, ty.bits, -1, True)))
    return alts


def _floor_avg(a, b):
    # Dietz / Hacker's Delight 2-5: (x&y) + ((x^y)>>1) = floor((x+y)/2) without overflow
    return T.and_(a, b), T.xor(a, b)


def avg_int(ty, a, b):
    w = ty.bits
    if not ty.signed:
        x = T.zext(a, w + 1)
        y = T.zext(b, w + 1)
        exact = T.trunc(T.lshr_c(T.add(x, y), 1), w)
        an, xo = _floor_avg(a, b)
        return [P('floor((x+y)/2) in W+1 bits', exact),
                I('(x&y)+((x^y)>>1)', T.add(an, T.lshr_c(xo, 1))),
                # pavg = (x+y+1)>>1 rounds up exactly when x+y is odd, i.e. when (x^y)&1
                I('pavg - ((x^y)&1)', T.sub(T.raw_op('x86.pavg', w, a, b), T.and_(xo, K(ty, 1))))]
    an, xo = _floor_avg(a, b)
    t = T.add(an, T.ashr_c(xo, 1))
    # t = floor avg; add 1 when t<0 and (x^y) odd  -> rounds toward zero
    corr = T.and_(T.lshr_c(t, w - 1), xo)
    return [I('floor-avg + sign&odd correction', T.add(t, corr))]


def avgr_int(ty, a, b):
    w = ty.bits
    alts = []
    if not ty.signed:
        x = T.zext(a, w + 1)
        y = T.zext(b, w + 1)
        alts.append(P('(x+y+1)>>1 in W+1 bits', T.trunc(T.lshr_c(T.add(T.add(x, y), T.const(w + 1, 1)), 1), w)))
        alts.append(P('pavg', T.raw_op('x86.pavg', w, a, b)))
        an, xo = _floor_avg(a, b)
        alts.append(I('floor-avg + ((x^y)&1)', T.add(T.add(an, T.lshr_c(xo, 1)), T.and_(xo, K(ty, 1)))))
        # Hacker's Delight 2-5, ceiling average without overflow: (x|y) - ((x^y)>>1) = ceil((x+y)/2) for unsigned x, y
        # (x+y = 2(x|y) - (x^y)).  Added after seeded change C17-7, which is behaviour-preserving for unsigned types.
        alts.append(I('(x|y)-((x^y)>>1)', T.sub(T.or_(a, b), T.lshr_c(xo, 1))))
        return alts
    base = avg_int(ty, a, b)[0][2]
    xo = T.xor(a, b)
    alts.append(I('avg + ((x^y)&1)', T.add(base, T.and_(xo, K(ty, 1)))))
    return alts


# ---------------------------------------------------------------- C07 bitwise / shifts / rotates
def band(ty, a, b):
    return [P('and', T.and_(a, b))]


def bor(ty, a, b):
    return [P('or', T.or_(a, b))]


def bxor(ty, a, b):
    return [P('xor', T.xor(a, b))]


def bnot(ty, a):
    return [P('not', T.not_(a))]


def bandnot(ty, a, b):
    # xsimd::bitwise_andnot(x, y) = x & ~y
    return [P('x&~y', T.and_(a, T.not_(b)))]


def shl_n(ty, a, n):
    return [P('shl', T.shl_c(a, n))]


def shr_n(ty, a, n):
    return [P('ashr' if ty.signed else 'lshr', (T.ashr_c if ty.signed else T.lshr_c)(a, n))]


def rotl_n(ty, a, n):
    return [P('rotl', T.fshl_c(a, a, n))]


def rotr_n(ty, a, n):
    return [P('rotr', T.fshr_c(a, a, n))]


def shl_v(ty, a, b):
    return [P('shl', T.raw_op('shl', ty.bits, a, b)), P('psllv', T.raw_op('x86.psllv', ty.bits, a, b))]


def shr_v(ty, a, b):
    if ty.signed:
        return [P('ashr', T.raw_op('ashr', ty.bits, a, b)), P('psrav', T.raw_op('x86.psrav', ty.bits, a, b))]
    return [P('lshr', T.raw_op('lshr', ty.bits, a, b)), P('psrlv', T.raw_op('x86.psrlv', ty.bits, a, b))]


# ---------------------------------------------------------------- C03 comparisons
_IP = {'eq': ('eq', 'eq'), 'neq': ('ne', 'ne'), 'lt': ('slt', 'ult'), 'le': ('sle', 'ule'), 'gt': ('sgt', 'ugt'), 'ge': ('sge', 'uge')}
_FP = {'eq': 'oeq', 'neq': 'une', 'lt': 'olt', 'le': 'ole', 'gt': 'ogt', 'ge': 'oge'}


def hd_slt64(a, b):
    # Hacker's Delight 2-12: x <s y  ==  sign of (x & ~y) | (~(x ^ y) & (x - y))
    return T.topbit(T.or_(T.and_(a, T.not_(b)), T.and_(T.not_(T.xor(a, b)), T.sub(a, b))))


def cmp(which):
    def f(ty, a, b):
        if ty.is_fp:
            return [P('fcmp ' + _FP[which], T.fcmp(_FP[which], a, b))]
        p = _IP[which][0 if ty.signed else 1]
        alts = [P('icmp ' + p, T.icmp(p, a, b))]
        if ty.bits == 64 and ty.signed:
            lt = {'lt': lambda: hd_slt64(a, b), 'gt': lambda: hd_slt64(b, a),
                  'le': lambda: T.not_(hd_slt64(b, a)), 'ge': lambda: T.not_(hd_slt64(a, b))}.get(which)
            if lt:
                alts.append(I('HD 2-12 signed compare via sign of (x&~y)|(~(x^y)&(x-y))', lt()))
        return alts
    return f


# ---------------------------------------------------------------- C02 floating point
def fop(name):
    def f(ty, a, b):
        return [P(name, T.raw_op(name, ty.bits, a, b))]
    return f


def fsqrt(ty, a):
    # the scalar overload calls the C library's sqrt/sqrtf (correctly rounded by IEEE-754 / C Annex F): trusted by name
    lib = 'call:sqrtf' if ty.bits == 32 else 'call:sqrt'
    return [P('sqrt', T.raw_op('sqrt', ty.bits, a)), P('libm sqrt', T.raw_op(lib, ty.bits, a))]


def fneg(ty, a):
    return [P('flip sign bit', T.fneg(a))]


def fabs(ty, a):
    return [P('clear sign bit', T.fabs(a))]


def fcopysign(ty, a, b):
    return [P('magnitude of x, sign bit of y', T.copysign(a, b))]


def _fmul(ty, a, b):
    return T.raw_op('fmul', ty.bits, a, b)


def _fadd(ty, a, b):
    return T.raw_op('fadd', ty.bits, a, b)


def _fsub(ty, a, b):
    return T.raw_op('fsub', ty.bits, a, b)


def _fma(ty, a, b, c):
    return T.raw_op('fma', ty.bits, a, b, c)


def ffma(ty, a, b, c):
    return [P('fused', _fma(ty, a, b, c)), P('mul then add', _fadd(ty, _fmul(ty, a, b), c))]


def ffms(ty, a, b, c):
    return [P('fused', _fma(ty, a, b, T.fneg(c))), P('mul then sub', _fsub(ty, _fmul(ty, a, b), c))]


def ffnma(ty, a, b, c):
    # -(x*y) + z
    return [P('fused', _fma(ty, T.fneg(a), b, c)), P('fused', _fma(ty, a, T.fneg(b), c)),
            P('z - x*y', _fsub(ty, c, _fmul(ty, a, b))),
            P('-(x*y) + z', _fadd(ty, T.fneg(_fmul(ty, a, b)), c)),
            P('(-x)*y + z', _fadd(ty, _fmul(ty, T.fneg(a), b), c))]


def ffnms(ty, a, b, c):
    # -(x*y) - z
    return [P('fused', _fma(ty, T.fneg(a), b, T.fneg(c))), P('fused', _fma(ty, a, T.fneg(b), T.fneg(c))),
            P('-(x*y) - z', _fsub(ty, T.fneg(_fmul(ty, a, b)), c)),
            P('(-x)*y - z', _fsub(ty, _fmul(ty, T.fneg(a), b), c))]
    # NOT accepted: -(x*y + z) -- it differs from the forms above in the sign of an exactly cancelling result (-0 for +0)


def fminmax(which):
    def f(ty, a, b):
        n = 'x86.f' + which
        lt = T.fcmp('olt', a, b) if which == 'min' else T.fcmp('olt', b, a)
        return [P(n + '(x,y)', T.raw_op(n, ty.bits, a, b)), P(n + '(y,x)', T.raw_op(n, ty.bits, b, a)),
                P('select(x<y)', T.sel(lt, a, b)), P('select(y<x)', T.sel(T.fcmp('olt', b, a) if which == 'min' else T.fcmp('olt', a, b), b, a))]
    return f


def finf(ty):
    return K(ty, 0x7f800000 if ty.bits == 32 else 0x7ff0000000000000)


def fisnan(ty, a):
    return [P('x unordered with itself', T.fcmp('uno', a, a))]


def fisinf(ty, a):
    return [P('|x| == inf', T.fcmp('oeq', T.fabs(a), finf(ty))),
            P('|x| > MAX', T.fcmp('ogt', T.fabs(a), K(ty, 0x7f7fffff if ty.bits == 32 else 0x7fefffffffffffff)))]


def fisfinite(ty, a):
    return [P('x - x == 0', T.fcmp('oeq', _fsub(ty, a, a), K(ty, 0))),
            P('|x| != inf and ordered', T.fcmp('one', T.fabs(a), finf(ty))),
            P('|x| <= MAX', T.fcmp('ole', T.fabs(a), K(ty, 0x7f7fffff if ty.bits == 32 else 0x7fefffffffffffff))),
            P('|x| < inf', T.fcmp('olt', T.fabs(a), finf(ty)))]


def fone(ty):
    return K(ty, 0x3f800000 if ty.bits == 32 else 0x3ff0000000000000)


def fnan(ty):
    return K(ty, 0x7fc00000 if ty.bits == 32 else 0x7ff8000000000000)


def nan_consts(ty):
    # any NaN bit pattern is "NaN": the library's own constant is all-ones
    return [K(ty, -1), fnan(ty)]


def fsign(ty, a):
    z = K(ty, 0)
    one = fone(ty)
    res = _fsub(ty, T.sel(T.fcmp('ogt', a, z), one, z), T.sel(T.fcmp('olt', a, z), one, z))
    return [P('nan ? nan : (x>0)-(x<0)', T.sel(T.fcmp('uno', a, a), n, res)) for n in nan_consts(ty)]


def fsignnz(ty, a):
    # +-1 with the sign bit of x
    return [P('1.0 | signbit(x)', T.copysign(fone(ty), a))] + \
        [P('nan ? nan : 1.0 | signbit(x)', T.sel(T.fcmp('uno', a, a), n, T.copysign(fone(ty), a))) for n in nan_consts(ty)]


def fbitofsign(ty, a):
    return [P('x & signmask', T.cat(T.const(ty.bits - 1, 0), T.topbit(a)))]


# ---------------------------------------------------------------- C08 rounding
_ROUND_IMM = {'nearbyint': (0, 4, 8, 12), 'rint': (0, 4, 8, 12), 'floor': (9, 1), 'ceil': (10, 2), 'trunc': (11, 3)}


def rounding(which):
    def f(ty, a):
        alts = [P('llvm.' + which, T.raw_op(which, ty.bits, a))]
        if which == 'rint':
            alts.append(P('llvm.nearbyint', T.raw_op('nearbyint', ty.bits, a)))
        if which == 'nearbyint':
            alts.append(P('llvm.rint', T.raw_op('rint', ty.bits, a)))
        for imm in _ROUND_IMM[which]:
            alts.append(P('roundp%s imm %d' % ('s' if ty.bits == 32 else 'd', imm), T.raw_op('x86.round', ty.bits, a, attrs=(imm,))))
        emul = {'trunc': trunc_emul, 'ceil': ceil_emul, 'floor': floor_emul, 'nearbyint': nearbyint_emul, 'rint': nearbyint_emul}[which]
        alts.extend(emul(ty, a))
        return alts
    return f


# reviewed emulations of the rounding functions (SSE2..SSSE3 have no ROUNDPS/PD)
def _f2k(ty, k):
    """bit pattern of 2.0**k"""
    if ty.bits == 32:
        return K(ty, (127 + k) << 23)
    return K(ty, (1023 + k) << 52)


def _neg_const(ty, c):
    return T.fneg(c)


def _trunc_emul(ty, a):
    """x if |x| >= 2^k else float(int(x))  --  correct for every guard 2^k with mant <= k <= intbits-1:
    below 2^k the truncating conversion is exact and in range, from 2^mant on every value is an integer.
    (sign of a zero result is +0: left unspecified by the property)"""
    mant, top = (23, 31) if ty.bits == 32 else (52, 63)
    cvt = 'x86.cvttps2dq' if ty.bits == 32 else None
    outs = []
    for k in range(mant, top + 1):
        guard = T.fcmp('olt', T.fabs(a), _f2k(ty, k))
        convs = []
        if ty.bits == 32:
            convs.append(T.raw_op('sitofp', 32, T.raw_op('x86.cvttps2dq', 32, a), attrs=32))
            convs.append(T.raw_op('sitofp', 32, T.raw_op('fptosi', 32, a, attrs=32), attrs=32))
        else:
            convs.append(T.raw_op('sitofp', 64, T.raw_op('fptosi', 64, a, attrs=64), attrs=64))
        for c in convs:
            outs.append((k, T.sel(guard, c, a)))
    return outs


def trunc_emul(ty, a):
    return [I('|x|<2^%d ? float(int(x)) : x' % k, t) for (k, t) in _trunc_emul(ty, a)]


def ceil_emul(ty, a):
    one = fone(ty)
    return [I('t=trunc(x); t<x ? t+1 : t  (guard 2^%d)' % k, T.sel(T.fcmp('olt', t, a), _fadd(ty, t, one), t)) for (k, t) in _trunc_emul(ty, a)]


def floor_emul(ty, a):
    one = fone(ty)
    mone = T.fneg(one)
    out = []
    for (k, t) in _trunc_emul(ty, a):
        c = T.fcmp('ogt', t, a)
        out.append(I('t=trunc(x); t>x ? t-1 : t  (guard 2^%d)' % k, T.sel(c, _fadd(ty, t, mone), t)))
        out.append(I('t=trunc(x); t>x ? t-1 : t  (guard 2^%d)' % k, T.sel(c, _fsub(ty, t, one), t)))
    return out


def nearbyint_emul(ty, a):
    """s=sign(x); v=|x|; v<2^mant ? (v+2^mant)-2^mant : v; xor s  -- in round-to-nearest-even the sum has
    ulp 1, so it is v rounded to an integer with ties to even; the constant must be exactly 2^mant."""
    mant = 23 if ty.bits == 32 else 52
    t2n = _f2k(ty, mant)
    v = T.fabs(a)
    out = []
    for d in (_fadd(ty, _fadd(ty, v, t2n), T.fneg(t2n)), _fsub(ty, _fadd(ty, v, t2n), t2n)):
        r = T.sel(T.fcmp('olt', v, t2n), d, v)
        out.append(I('(|x|+2^%d)-2^%d with sign restored' % (mant, mant), T.xor(T.cat(T.const(ty.bits - 1, 0), T.topbit(a)), r)))
    return out


# ---------------------------------------------------------------- round (C08), is_flint / is_even / is_odd (C02)
def _fk(ty, f32bits, f64bits):
    return K(ty, f32bits if ty.bits == 32 else f64bits)


def round_spec(ty, a):
    """reviewed algorithm (class I), composed over every accepted form of ceil:
         v = |x|; c = ceil(v); r = (c - 0.5 > v) ? c - 1 : c;  result = v > 2^(mant+1) ? x : copysign(r, x)
       For v below 2^mant, c - 0.5 and c - 1 are exact, so r = floor(v) when frac(v) < 0.5 and ceil(v) otherwise: halves
       go away from zero.  From 2^mant on v is an integer, c == v, and c - 0.5 (rounded) is <= v, so r == v.  The guard
       constant may be any 2^k, k >= mant (values beyond are integers and returned unchanged)."""
    mant = 23 if ty.bits == 32 else 52
    v = T.fabs(a)
    mhalf = _fk(ty, 0xbf000000, 0xbfe0000000000000)
    half = _fk(ty, 0x3f000000, 0x3fe0000000000000)
    one = fone(ty)
    mone = T.fneg(one)
    out = [P('llvm.round (halves away from zero)', T.raw_op('round', ty.bits, a))]
    seen = set()
    for (lab, k_, c) in rounding('ceil')(ty, v):
        for cm_half in (_fadd(ty, c, mhalf), _fsub(ty, c, half)):
            for cm_one in (_fadd(ty, c, mone), _fsub(ty, c, one)):
                r = T.sel(T.fcmp('ogt', cm_half, v), cm_one, c)
                for k in range(mant, mant + 3):
                    t = T.sel(T.fcmp('ogt', v, _f2k(ty, k)), a, T.copysign(r, a))
                    key = T.canon(t)
                    if key in seen:
                        continue
                    seen.add(key)
                    out.append(I('copysign((ceil|x| - 0.5 > |x|) ? ceil|x| - 1 : ceil|x|, x), identity beyond 2^%d; ceil = %s' % (k, lab), t))
    return out


def _is_flint_forms(ty, x, tag):
    """is_flint(x): frac = isnan(x - x) ? NaN : x - trunc(x);  frac == 0   (class I, composed over every accepted
    form of trunc).  x - x is NaN exactly for x = NaN or +-inf, so those are rejected; for finite x, x - trunc(x) is
    exact and is zero iff x is integer-valued."""
    out = []
    zero = K(ty, 0)
    d = _fsub(ty, x, x)
    for nan in nan_consts(ty):
        for (lab, k_, t) in rounding('trunc')(ty, x):
            frac = T.sel(T.fcmp('uno', d, d), nan, _fsub(ty, x, t))
            out.append(I('%s: (isnan(x-x) ? NaN : x - trunc(x)) == 0; trunc = %s' % (tag, lab), T.fcmp('oeq', frac, zero)))
    return out


def is_flint_spec(ty, a):
    return _is_flint_forms(ty, a, 'is_flint(x)')


def is_even_spec(ty, a):
    """is_even(x) = is_flint(x) && is_flint(x * 0.5)   (class I): x * 0.5 is exact unless x is an odd multiple of the
    smallest denormal, which is_flint(x) excludes; so the result is 'x is an integer and x/2 is an integer'."""
    half = _fk(ty, 0x3f000000, 0x3fe0000000000000)
    out = []
    for (l1, k1, f1) in _is_flint_forms(ty, a, 'is_flint(x)'):
        for (l2, k2, f2) in _is_flint_forms(ty, _fmul(ty, a, half), 'is_flint(x * 0.5)'):
            out.append(I('is_flint(x) && is_flint(x * 0.5)', T.and_(f1, f2)))
    return out


def is_odd_spec(ty, a):
    """is_odd(x) = is_flint(x) && !is_flint(x * 0.5)   (class I, same exactness argument)"""
    half = _fk(ty, 0x3f000000, 0x3fe0000000000000)
    out = []
    for (l1, k1, f1) in _is_flint_forms(ty, a, 'is_flint(x)'):
        for (l2, k2, f2) in _is_flint_forms(ty, _fmul(ty, a, half), 'is_flint(x * 0.5)'):
            out.append(I('is_flint(x) && !is_flint(x * 0.5)', T.and_(f1, T.not_(f2))))
    return out


# ---------------------------------------------------------------- clip (C17)
def _lt(ty, x, y):
    if ty.is_fp:
        return T.fcmp('olt', x, y)
    return T.icmp('slt' if ty.signed else 'ult', x, y)


def clip_scalar(ty, x, lo, hi):
    """scalar clip: (x < lo) ? lo : (hi < x) ? hi : x.  For lo <= hi (the documented precondition) and non-NaN operands
    this equals min(hi, max(x, lo)) -- case analysis: x < lo gives lo (= min(hi, lo)); hi < x gives hi; otherwise x."""
    return [I('(x < lo) ? lo : (hi < x) ? hi : x', T.sel(_lt(ty, x, lo), lo, T.sel(_lt(ty, hi, x), hi, x)))]


def clip_batch(ty, x, lo, hi):
    outs = []
    for (l1, k1, mx) in (minmax('max')(ty, x, lo) if ty.is_int else fminmax('max')(ty, x, lo)):
        for (l2, k2, mn) in (minmax('min')(ty, hi, mx) if ty.is_int else fminmax('min')(ty, hi, mx)):
            outs.append(I('min(hi, max(x, lo))', mn))
    return outs


# ---------------------------------------------------------------- C16 complex arithmetic: sum-of-products normal form
from fractions import Fraction as _Fr
import struct as _struct


class NotPoly(Exception):
    pass


def _fconst(bv):
    w = T.width(bv)
    v = T.const_val(bv)
    if w == 32:
        return _Fr(_struct.unpack('<f', _struct.pack('<I', v))[0])
    return _Fr(_struct.unpack('<d', _struct.pack('<Q', v))[0])


def _padd(p, q, k=1):
    r = dict(p)
    for m, c in q.items():
        r[m] = r.get(m, 0) + k * c
        if r[m] == 0:
            del r[m]
    return r


def _pmul(p, q):
    r = {}
    for m1, c1 in p.items():
        for m2, c2 in q.items():
            m = tuple(sorted(m1 + m2))
            r[m] = r.get(m, 0) + c1 * c2
            if r[m] == 0:
                del r[m]
    return r


def fp_poly(bv, depth=0):
    """the real polynomial a floating-point lane term denotes when every rounding is erased: fadd/fsub/fmul/fma/fneg
    over atoms and constants.  (The property allows 'a few ulp, fused or not': which products are fused, in which order
    the sum is associated and where negations sit is deliberately not distinguished.)"""
    if depth > 40:
        raise NotPoly('too deep')
    bv = T.canon(bv)
    if T.is_const(bv):
        try:
            c = _fconst(bv)
        except (OverflowError, ValueError):
            raise NotPoly('non-finite constant')
        return {(): c} if c != 0 else {}
    t = T.single_term(bv)
    if t is None:
        # a negation is  [x[0:W-1] ++ not x[W-1]]
        inner = T.fneg(bv)
        ti = T.single_term(T.canon(inner))
        if ti is not None:
            return _padd({}, fp_poly(inner, depth + 1), -1)
        raise NotPoly('not a single term: %s' % T.fmt(bv, 3)[:120])
    if t.kind == 'arg':
        return {((t.name, t.attrs),): _Fr(1)}
    n = t.name
    if n == 'fadd':
        return _padd(fp_poly(t.ops[0], depth + 1), fp_poly(t.ops[1], depth + 1))
    if n == 'fsub':
        return _padd(fp_poly(t.ops[0], depth + 1), fp_poly(t.ops[1], depth + 1), -1)
    if n == 'fmul':
        return _pmul(fp_poly(t.ops[0], depth + 1), fp_poly(t.ops[1], depth + 1))
    if n in ('fma', 'fmuladd'):
        return _padd(_pmul(fp_poly(t.ops[0], depth + 1), fp_poly(t.ops[1], depth + 1)), fp_poly(t.ops[2], depth + 1))
    raise NotPoly('operator %s' % n)


def _atom_poly(x):
    t = T.single_term(x)
    return {((t.name, t.attrs),): _Fr(1)}


def complex_spec(which, part):
    """which: add sub mul div neg fma fms fnma fnms norm; part: re | im"""
    def f(ty, a, b, c=None, d=None, e=None, g=None):
        A, B = _atom_poly(a), _atom_poly(b)
        C, D = (_atom_poly(c), _atom_poly(d)) if c is not None else (None, None)
        Ee, G = (_atom_poly(e), _atom_poly(g)) if e is not None else (None, None)
        mul_re = lambda: _padd(_pmul(A, C), _pmul(B, D), -1)
        mul_im = lambda: _padd(_pmul(A, D), _pmul(B, C))
        den = None
        if which == 'add':
            want = _padd(A, C) if part == 're' else _padd(B, D)
        elif which == 'sub':
            want = _padd(A, C, -1) if part == 're' else _padd(B, D, -1)
        elif which == 'neg':
            want = _padd({}, A, -1) if part == 're' else _padd({}, B, -1)
        elif which == 'mul':
            want = mul_re() if part == 're' else mul_im()
        elif which == 'div':
            want = _padd(_pmul(A, C), _pmul(B, D)) if part == 're' else _padd(_pmul(B, C), _pmul(A, D), -1)
            den = _padd(_pmul(C, C), _pmul(D, D))
        elif which in ('fma', 'fms', 'fnma', 'fnms'):
            m = mul_re() if part == 're' else mul_im()
            z = Ee if part == 're' else G
            sm = -1 if which in ('fnma', 'fnms') else 1
            sz = -1 if which in ('fms', 'fnms') else 1
            want = _padd(_padd({}, m, sm), z, sz)
        elif which == 'norm':
            want = _padd(_pmul(A, A), _pmul(B, B))
        else:
            raise AssertionError(which)
        return [('__poly__', 'P', (want, den))]
    return f


def cproj(part):
    def f(ty, a, b):
        inf = finf(ty)
        cond = T.or_(T.fcmp('oeq', T.fabs(a), inf), T.fcmp('oeq', T.fabs(b), inf))
        if part == 're':
            return [P('isinf(z) ? +inf : re', T.sel(cond, inf, a))]
        return [P('isinf(z) ? copysign(0, im) : im', T.sel(cond, T.copysign(K(ty, 0), b), b))]
    return f


# ---------------------------------------------------------------- nextafter (C02)
def nextafter_spec(ty, a, b):
    """nextafter(from, to), the C library's function on the lane's values (class I: reviewed algorithm on the bit pattern):
         NaN operand            -> from + to (a NaN)
         from == to             -> to
         moving up   (to > from): from < 0 ? bits - 1 : bits + 1;  from == +-0 -> +denorm_min;  from == +inf stays
         moving down (otherwise): from > 0 ? bits - 1 : bits + 1;  from == +-0 -> -denorm_min;  from == -inf stays
       bits +- 1 on a non-zero finite value is its representable neighbour away from / towards zero (IEEE-754 bit layout:
       the encodings of one sign are ordered like their magnitudes, including across binades and into infinity)."""
    w = ty.bits
    zero = T.const(w, 0)
    one = T.const(w, 1)
    inf = _fk(ty, 0x7f800000, 0x7ff0000000000000)
    ninf = _fk(ty, 0xff800000, 0xfff0000000000000)
    dmin = T.const(w, 1)
    ndmin = T.const(w, (1 << (w - 1)) | 1)
    mone = T.const(w, -1)
    # bits + (cond ? -1 : +1): the form the compiler gives to cond ? bits - 1 : bits + 1
    nxt = T.add(a, T.sel(T.fcmp('olt', a, zero), mone, one))
    nxt = T.sel(T.fcmp('oeq', a, zero), dmin, nxt)
    nxt = T.sel(T.fcmp('oeq', a, inf), a, nxt)
    prv = T.add(a, T.sel(T.fcmp('ogt', a, zero), mone, one))
    prv = T.sel(T.fcmp('oeq', a, zero), ndmin, prv)
    prv = T.sel(T.fcmp('oeq', a, ninf), a, prv)
    r = T.sel(T.fcmp('oeq', a, b), b, T.sel(T.fcmp('ogt', b, a), nxt, prv))
    lab = 'nextafter: the neighbour of from in the direction of to (C library semantics)'
    return [I(lab, T.sel(T.fcmp('uno', a, b), _fadd(ty, a, b), r)),
            I(lab, T.sel(T.or_(T.fcmp('uno', a, a), T.fcmp('uno', b, b)), _fadd(ty, a, b), r))]
