"""Bit-vector / term algebra used by every lane-level analysis.

A *BV* is a tuple of pieces, least-significant first.  A piece is one of
    ('c', w, val)          w constant bits
    ('s', term, lo, w)     bits [lo, lo+w) of an interned Term
    ('r', piece1, w)       one 1-bit piece replicated w times (w >= 2)
    ('u', w)               undefined bits (undef / poison / uninitialised stack)
A *Term* is an interned node: an input atom or an operator applied to BVs.
Equality of terms is identity, equality of BVs is tuple equality.

Everything that is only a re-arrangement of bits (bitcast, shuffles, shifts by a
constant, and/or with constant masks, zext/sext/trunc, fabs/fneg/copysign,
sign smears, funnel shifts by a constant) creates no term: it re-slices.
The rewrite rules are listed where they are implemented, each with its
justification.  They are all value-preserving identities of two's complement /
bit-vector arithmetic or IEEE-754 bit layouts; none depends on operand values.
"""

import itertools

# --------------------------------------------------------------------------
# Terms


class Term(object):
    __slots__ = ('kind', 'name', 'width', 'attrs', 'ops', 'uid', 'src')

    def __repr__(self):
        return fmt_term(self)


_intern = {}
_uid = itertools.count()
CUR_SRC = [None]   # instruction currently being normalised (for diagnostics only)


def reset():
    _intern.clear()


def _mk(kind, name, width, attrs, ops, src=None):
    key = (kind, name, width, attrs, ops)
    t = _intern.get(key)
    if t is None:
        t = Term()
        t.kind, t.name, t.width, t.attrs, t.ops = kind, name, width, attrs, ops
        t.uid = next(_uid)
        t.src = CUR_SRC[0]
        _intern[key] = t
    return t


def atom(name, lane, width):
    """input atom: lane `lane` (of `width` bits) of argument `name`"""
    return _mk('arg', name, width, lane, ())


def atom_bv(name, lane, width):
    return (('s', atom(name, lane, width), 0, width),)


# --------------------------------------------------------------------------
# BV basics


def pw(p):
    k = p[0]
    if k == 'c' or k == 'u':
        return p[1]
    if k == 's':
        return p[3]
    return p[2]


def width(bv):
    return sum(pw(p) for p in bv)


def const(w, val):
    if w == 0:
        return ()
    return (('c', w, val & ((1 << w) - 1)),)


def undef(w):
    return (('u', w),) if w else ()


def is_const(bv):
    return all(p[0] == 'c' for p in bv)


def const_val(bv):
    v = 0
    sh = 0
    for p in bv:
        assert p[0] == 'c'
        v |= p[2] << sh
        sh += p[1]
    return v


def _slice_piece(p, lo, w):
    """bits [lo, lo+w) of one piece, as a BV"""
    k = p[0]
    if lo == 0 and w == pw(p):
        return (p,)
    if k == 'c':
        return (('c', w, (p[2] >> lo) & ((1 << w) - 1)),)
    if k == 'u':
        return (('u', w),)
    if k == 's':
        t = p[1]
        if t.kind == 'op' and t.name in BITWISE_CLOSED:
            # slicing commutes with bitwise operators and selects
            lo2 = p[2] + lo
            if t.name == 'sel':
                return sel(t.ops[0], slice_(t.ops[1], lo2, w), slice_(t.ops[2], lo2, w))
            return op(t.name, w, *[slice_(o, lo2, w) for o in t.ops])
        if t.kind == 'op' and t.name in ('sum', 'mul') and p[2] + lo + w < t.width and not _NARROWING[0]:
            # bits [m, m+w) of a sum/product depend only on the low m+w bits of the operands (carries move upwards):
            # narrow the term to m+w bits first, so that the same value computed at two widths has one normal form
            _NARROWING[0] = True
            try:
                nar = canon((('s', t, 0, p[2] + lo + w),))
            finally:
                _NARROWING[0] = False
            if not (len(nar) == 1 and nar[0][0] == 's' and nar[0][1] is t):
                return slice_(nar, p[2] + lo, w)
        if t.kind == 'op' and t.name == 'sum' and p[2] + lo > 0 and len(t.ops) == 1 and t.attrs[1] == (1,) \
                and t.attrs[0] & ((1 << (p[2] + lo)) - 1) == 0:
            # x + K where the low m bits of K are zero: no carry enters bit m, so bits [m, ..) of the sum are
            # (x >> m) + (K >> m)  (mod 2^(width-m)); the low m bits are those of x
            m = p[2] + lo
            hi = add(slice_(t.ops[0], m, t.width - m), const(t.width - m, t.attrs[0] >> m))
            return slice_(hi, 0, w)
        if t.kind == 'op' and t.name == 'sum':
            # known-zero high bits: if sum_i coef_i * max(op_i) + k cannot wrap, bits above its length are 0
            bl = _sum_bitlen(t)
            if bl is not None:
                lo2 = p[2] + lo
                if lo2 >= bl:
                    return (('c', w, 0),)
                if lo2 + w > bl:
                    return tuple(_slice_piece(('s', t, 0, t.width), lo2, bl - lo2)) + (('c', lo2 + w - bl, 0),)
        return (('s', t, p[2] + lo, w),)
    if k == 'r':
        return (p[1],) if w == 1 else (('r', p[1], w),)
    raise AssertionError(p)


BITWISE_CLOSED = ('not', 'and', 'or', 'xor', 'sel')
_NARROWING = [False]


def _max_unsigned(bv):
    """upper bound of a BV read as an unsigned number: constant pieces exact, everything else all-ones"""
    v = 0
    pos = 0
    for p in bv:
        n = pw(p)
        if p[0] == 'c':
            v |= p[2] << pos
        else:
            v |= ((1 << n) - 1) << pos
        pos += n
    return v


def _sum_bitlen(t):
    k, coefs = t.attrs
    tot = k
    for o, c in zip(t.ops, coefs):
        tot += c * _max_unsigned(o)
    if tot >= (1 << t.width):
        return None
    return tot.bit_length()


def _merge(a, b):
    """merge two adjacent pieces (a low, b high) when they form one piece"""
    ka, kb = a[0], b[0]
    if ka == 'c' and kb == 'c':
        return ('c', a[1] + b[1], a[2] | (b[2] << a[1]))
    if ka == 'u' and kb == 'u':
        return ('u', a[1] + b[1])
    if ka == 's' and kb == 's' and a[1] is b[1] and a[2] + a[3] == b[2]:
        return ('s', a[1], a[2], a[3] + b[3])
    if ka == 'r' and kb == 'r' and a[1] == b[1]:
        return ('r', a[1], a[2] + b[2])
    if ka == 'r' and a[1] == b:
        return ('r', b, a[2] + 1)
    if kb == 'r' and b[1] == a:
        return ('r', a, b[2] + 1)
    if a == b and pw(a) == 1 and ka == 's':
        return ('r', a, 2)
    if ka == 's' and kb == 's' and b[2] > 0 and a[2] == 0 and a[3] == a[1].width == b[2] and b[1].kind == 'op' \
            and a[1].kind == 'op' and b[1].name in NARROWABLE:
        # a is the narrowed form of the low part of b's term: re-join  (inverse of canon())
        if canon((('s', b[1], 0, b[2]),)) == (a,):
            return ('s', b[1], 0, b[2] + b[3])
    return None


def norm(pieces):
    """merge adjacent pieces; fold selects that cover adjacent ranges with the same condition"""
    out = []
    for p in pieces:
        if pw(p) == 0:
            continue
        if out:
            m = _merge(out[-1], p)
            if m is None:
                m = _merge_sel(out[-1], p) or _merge_bitwise(out[-1], p)
            if m is not None:
                out[-1] = m
                # a merge can enable a further merge with the previous piece
                while len(out) >= 2:
                    m2 = _merge(out[-2], out[-1]) or _merge_sel(out[-2], out[-1]) or _merge_bitwise(out[-2], out[-1])
                    if m2 is None:
                        break
                    out[-2:] = [m2]
                continue
        out.append(p)
    # canonical split between a slice and the replication of its next bit:
    # [t[lo:m] ++ rep(t[m])xk]  ->  [t[lo:m+1] ++ rep(t[m])x(k-1)]
    i = 0
    while i + 1 < len(out):
        a, b = out[i], out[i + 1]
        if a[0] == 's' and b[0] == 'r' and b[1][0] == 's' and b[1][1] is a[1] and b[1][2] == a[2] + a[3] and b[1][3] == 1:
            out[i] = ('s', a[1], a[2], a[3] + 1)
            out[i + 1] = b[1] if b[2] == 2 else ('r', b[1], b[2] - 1)
            continue
        i += 1
    return tuple(out)


def cat(*bvs):
    ps = []
    for b in bvs:
        ps.extend(b)
    return norm(ps)


def slice_(bv, lo, w):
    assert lo >= 0 and w >= 0
    out = []
    pos = 0
    end = lo + w
    for p in bv:
        n = pw(p)
        a, b = max(pos, lo), min(pos + n, end)
        if a < b:
            out.extend(_slice_piece(p, a - pos, b - a))
        pos += n
        if pos >= end:
            break
    assert pos >= end, "slice out of range"
    return norm(out)


def rep(bit, w):
    """replicate a 1-bit BV w times"""
    assert width(bit) == 1
    p = bit[0]
    if p[0] == 'c':
        return const(w, -1 if p[2] else 0)
    if p[0] == 'u':
        return undef(w)
    if w == 1:
        return bit
    return (('r', p, w),)


def topbit(bv):
    return slice_(bv, width(bv) - 1, 1)


def boundaries(bv):
    s = set()
    pos = 0
    for p in bv:
        pos += pw(p)
        s.add(pos)
    return s


def co_split(*bvs):
    """cut several equal-width BVs at the union of their piece boundaries until every segment of every BV
    is a single piece (slicing can itself introduce boundaries, hence the fixpoint); returns list of tuples of pieces"""
    cuts = set()
    for b in bvs:
        cuts |= boundaries(b)
    while True:
        cl = sorted(cuts)
        segs = [split_at(b, cl) for b in bvs]
        more = False
        for sg in segs:
            pos = 0
            for i, piece_bv in enumerate(sg):
                if len(piece_bv) > 1:
                    q = cl[i - 1] if i else 0
                    for p in piece_bv:
                        q += pw(p)
                        cuts.add(q)
                    more = True
        if not more:
            return [tuple(sg[i][0] for sg in segs) for i in range(len(cl))]


def split_at(bv, cuts):
    """return list of BVs cut at the sorted positions `cuts` (last = width)"""
    out = []
    prev = 0
    for c in cuts:
        out.append(slice_(bv, prev, c - prev))
        prev = c
    return out


# --------------------------------------------------------------------------
# canonical form of an operand / result


RING_OPS = ('sum', 'mul')
NARROWABLE = ('sum', 'mul', 'shl', 'lshr', 'ashr')


def canon(bv):
    """Narrow a value that is exactly  slice(op_K(x,y), 0, w):
      ring ops : the low w bits of sum/mul depend only on the low w bits of the operands
                 (Z/2^K -> Z/2^w is a ring homomorphism);
      shifts   : (x << n)[0:w] = x[0:w] << n ;  (zext x >> n)[0:w] = x >>u n ;  (sext x >> n)[0:w] = x >>s n
                 for every count n < w (the only counts the properties admit).
    Only single-piece values are narrowed, so that halves of a wide term can still re-merge."""
    if len(bv) != 1:
        return bv
    p = bv[0]
    if not (p[0] == 's' and p[2] == 0 and p[3] < p[1].width and p[1].kind == 'op'):
        return bv
    t = p[1]
    w = p[3]
    K = t.width
    if t.name in RING_OPS:
        ops = [slice_(o, 0, w) for o in t.ops]
        if t.name == 'sum':
            return _lin_comb(w, list(zip(ops, t.attrs[1])) + [(const(w, t.attrs[0]), 1)])
        return mul(*ops)
    if t.name in ('shl', 'lshr', 'ashr') and len(t.ops) == 2:
        x, n = t.ops
        nhi = slice_(n, w, K - w)
        if is_const(nhi) and const_val(nhi) == 0:
            xlo, xhi = slice_(x, 0, w), slice_(x, w, K - w)
            nlo = slice_(n, 0, w)
            if t.name == 'shl':
                return raw_op('shl', w, xlo, nlo)
            if t.name == 'lshr' and is_const(xhi) and const_val(xhi) == 0:
                return raw_op('lshr', w, xlo, nlo)
            if t.name == 'ashr' and xhi == rep(topbit(xlo), K - w):
                return raw_op('ashr', w, xlo, nlo)
    return bv


# --------------------------------------------------------------------------
# generic operator construction

COMMUTATIVE = set(['add', 'mul', 'and', 'or', 'xor', 'fadd', 'fmul', 'smin', 'smax', 'umin', 'umax',
                   'eq', 'ne', 'foeq', 'fune', 'fueq', 'fone', 'ford', 'funo',
                   'sadd.sat', 'uadd.sat', 'x86.pavg', 'x86.pmulh', 'x86.pmulhu', 'x86.pmuludq', 'x86.pmuldq',
                   'x86.pmaddwd'])


def _key(bv):
    def pk(p):
        if p[0] == 'c':
            return (0, p[1], p[2])
        if p[0] == 's':
            return (1, p[1].uid, p[2], p[3])
        if p[0] == 'r':
            return (2, pk(p[1]), p[2])
        return (3, p[1])
    return tuple(pk(p) for p in bv)


def raw_op(name, w, *ops, **kw):
    attrs = kw.get('attrs', None)
    ops = tuple(canon(o) for o in ops)
    if name in COMMUTATIVE and len(ops) == 2:
        ops = tuple(sorted(ops, key=_key))
    t = _mk('op', name, w, attrs, ops)
    return (('s', t, 0, w),)


def single_term(bv):
    """if bv is exactly one whole term return it else None"""
    if len(bv) == 1 and bv[0][0] == 's' and bv[0][2] == 0 and bv[0][3] == bv[0][1].width:
        return bv[0][1]
    return None


def is_op(bv, name):
    t = single_term(bv)
    return t if (t is not None and t.kind == 'op' and t.name == name) else None


# integer / fp comparison canonicalisation ---------------------------------
# canonical integer predicates: eq, slt, sle, ult, ule   (ne = not eq)
# canonical fp predicates: all 14 kept, but gt/ge are rewritten to lt/le with swapped operands
_ISWAP = {'sgt': 'slt', 'sge': 'sle', 'ugt': 'ult', 'uge': 'ule'}
_INEG = {'eq': 'ne', 'ne': 'eq', 'slt': ('sle', True), 'sle': ('slt', True), 'ult': ('ule', True), 'ule': ('ult', True)}
_FSWAP = {'ogt': 'olt', 'oge': 'ole', 'ugt': 'ult', 'uge': 'ule'}
# logical negation of fp predicate (exact: the 16 predicates form a Boolean algebra over {lt,eq,gt,uno})
_FNEG = {'oeq': 'une', 'une': 'oeq', 'olt': 'uge', 'uge': 'olt', 'ole': 'ugt', 'ugt': 'ole',
         'ogt': 'ule', 'ule': 'ogt', 'oge': 'ult', 'ult': 'oge', 'one': 'ueq', 'ueq': 'one',
         'ord': 'uno', 'uno': 'ord'}


def icmp(pred, a, b):
    a, b = canon(a), canon(b)
    if pred in _ISWAP:
        pred, a, b = _ISWAP[pred], b, a
    w = width(a)
    if is_const(a) and is_const(b):
        return const(1, _eval_icmp(pred, const_val(a), const_val(b), w))
    if a == b:
        return const(1, 1 if pred in ('eq', 'sle', 'ule') else 0)
    if pred == 'ult' and is_const(a):
        v = const_val(a) + 1
        if v > 1 and v & (v - 1) == 0 and v < (1 << w):
            k = v.bit_length() - 1                 # 2^k - 1 <u x  <=>  x[k:] != 0
            return icmp('ne', slice_(b, k, w - k), const(w - k, 0))
    if is_const(a) and len(b) > 1:
        a = tuple(split_at(a, sorted(boundaries(b))))
        a = tuple(x[0] for x in a)
    elif is_const(b) and len(a) > 1:
        b = tuple(x[0] for x in split_at(b, sorted(boundaries(a))))
    if pred in ('eq', 'ne', 'slt', 'sle', 'ult', 'ule') and len(a) > 1 and len(b) > 1:
        # identical low-order pieces do not influence any of these predicates
        k = 0
        while k < min(len(a), len(b)) - 1 and a[k] == b[k]:
            k += 1
        if k:
            return icmp(pred, norm(a[k:]), norm(b[k:]))
        a, b = norm(a), norm(b)
        # common zero / sign extension:  zext preserves unsigned order and turns signed into unsigned order,
        # sext preserves both orders
        wa = pw(a[0])
        if pw(b[0]) == wa and len(a) == 2 and len(b) == 2:
            la, lb = (a[0],), (b[0],)
            if _zero(a[1]) and _zero(b[1]):
                return icmp({'slt': 'ult', 'sle': 'ule'}.get(pred, pred), la, lb)
            if a[1:] == rep(topbit(la), w - wa) and b[1:] == rep(topbit(lb), w - wa):
                return icmp(pred, la, lb)
    if pred in ('eq', 'ne'):
        for (x, z) in ((a, b), (b, a)):
            if len(x) == 1 and x[0][0] == 'r' and is_const(z) and const_val(z) in (0, (1 << w) - 1):
                r = (x[0][1],) if const_val(z) else not_((x[0][1],))     # rep(c) == 1..1 <=> c
                return r if pred == 'eq' else not_(r)
    if pred in ('eq', 'ne') and len(a) == 1 and len(b) == 1 and a[0][0] == 'r' and b[0][0] == 'r':
        return icmp(pred, (a[0][1],), (b[0][1],))      # rep(x) == rep(y)  <=>  x == y
    if pred in ('eq', 'ne'):
        for (x, z) in ((a, b), (b, a)):
            if is_const(z) and const_val(z) == 0 and len(x) >= 1 and not is_const(x):
                # X == 0  with constant pieces inside X: zero pieces drop out, a non-zero constant piece decides
                if any(p[0] == 'c' and p[2] != 0 for p in x):
                    return const(1, 0 if pred == 'eq' else 1)
                rest = norm([p for p in x if p[0] != 'c'])
                if len(rest) != len(x) or (len(rest) == 1 and single_term(rest) is not None and single_term(rest).name == 'xor'):
                    t = single_term(rest)
                    if t is not None and t.kind == 'op' and t.name == 'xor':
                        return icmp(pred, t.ops[0], t.ops[1])     # (p ^ q) == 0  <=>  p == q
                    return icmp(pred, rest, const(width(rest), 0))
    if pred == 'ult' and is_const(b):
        v = const_val(b)
        if v and v & (v - 1) == 0:
            k = v.bit_length() - 1                 # x <u 2^k  <=>  x[k:] == 0
            return icmp('eq', slice_(a, k, w - k), const(w - k, 0))
    # sign tests: x <s 0  ==  sign bit ; -1 <s x == not sign bit  (two's complement)
    if pred == 'slt' and is_const(b) and const_val(b) == 0:
        return topbit(a)
    if pred == 'slt' and is_const(a) and const_val(a) == (1 << w) - 1:
        return not_(topbit(b))
    if pred == 'sle' and is_const(b) and const_val(b) == (1 << w) - 1:   # x <=s -1  == x <s 0
        return topbit(a)
    if pred == 'sle' and is_const(a) and const_val(a) == 0:              # 0 <=s x == not sign
        return not_(topbit(b))
    if pred == 'ne':
        return not_(icmp('eq', a, b))
    if pred == 'eq' and w == 1:
        # 1-bit equality is xnor
        return not_(xor(a, b))
    return raw_op(pred, 1, a, b)


def _sx(v, w):
    return v - (1 << w) if v >> (w - 1) else v


def _eval_icmp(pred, a, b, w):
    if pred == 'eq':
        return int(a == b)
    if pred == 'ne':
        return int(a != b)
    if pred == 'ult':
        return int(a < b)
    if pred == 'ule':
        return int(a <= b)
    if pred == 'slt':
        return int(_sx(a, w) < _sx(b, w))
    if pred == 'sle':
        return int(_sx(a, w) <= _sx(b, w))
    raise AssertionError(pred)


def fcmp(pred, a, b):
    if pred == 'true':
        return const(1, 1)
    if pred == 'false':
        return const(1, 0)
    if pred in _FSWAP:
        pred, a, b = _FSWAP[pred], b, a
    if is_const(canon(a)) and is_const(canon(b)) and width(a) in (32, 64) and width(a) == width(b):
        # both operands constant (arises when a caller fixes a branch and constants flow through a merge): fold
        import struct as _st
        dec = (lambda v: _st.unpack('<f', _st.pack('<I', v))[0]) if width(a) == 32 else (lambda v: _st.unpack('<d', _st.pack('<Q', v))[0])
        x, y = dec(const_val(canon(a))), dec(const_val(canon(b)))
        un = (x != x) or (y != y)
        base = {'eq': x == y, 'lt': x < y, 'le': x <= y, 'ne': x != y, 'gt': x > y, 'ge': x >= y, 'rd': True, 'no': False}[pred[1:]] if pred not in ('ord', 'uno') else None
        if pred == 'ord':
            r_ = not un
        elif pred == 'uno':
            r_ = un
        elif pred[0] == 'o':
            r_ = (not un) and base
        else:
            r_ = un or base
        return const(1, 1 if r_ else 0)
    if pred in ('ueq', 'ult', 'ule', 'une', 'uno'):
        # an unordered predicate is true whenever an operand is NaN:  cmp(sel(c, NaN, y), k) = c | cmp(y, k)
        for side in (0, 1):
            x = (a, b)[side]
            t = is_op(canon(x), 'sel')
            if t is not None:
                c_, p_, q_ = t.ops
                for (nanarm, other, cond) in ((p_, q_, c_), (q_, p_, not_(c_))):
                    if is_const(nanarm) and width(nanarm) in (32, 64) and _is_nan_const(nanarm):
                        inner = fcmp(pred, other, b) if side == 0 else fcmp(pred, a, other)
                        return or_(cond, inner)
    if pred in ('oeq', 'olt', 'ole', 'one', 'ord'):
        # an ordered predicate is false whenever an operand is NaN:  cmp(sel(c, NaN, y), k) = !c & cmp(y, k)
        for side in (0, 1):
            x = (a, b)[side]
            t = is_op(canon(x), 'sel')
            if t is not None:
                c_, p_, q_ = t.ops
                for (nanarm, other, cond) in ((p_, q_, not_(c_)), (q_, p_, c_)):
                    if is_const(nanarm) and width(nanarm) in (32, 64) and _is_nan_const(nanarm):
                        inner = fcmp(pred, other, b) if side == 0 else fcmp(pred, a, other)
                        return and_(cond, inner)
    if pred in ('une', 'oeq', 'one', 'ueq'):
        # X compared with +-0.0 where every bit of X is 0 or one and the same bit b, and some non-sign bit is b:
        # X is (+-)0 iff b = 0, and for b = 1 X is non-zero or NaN.  une/one(NaN excluded only if exponent not all ones)
        for (x, z) in ((a, b), (b, a)):
            if is_const(z) and const_val(z) & ~(1 << (width(z) - 1)) == 0 and not is_const(x):
                bit = None
                okp = True
                nonsign = False
                pos = 0
                w_ = width(x)
                for p in x:
                    if p[0] == 'c':
                        okp = okp and p[2] == 0
                    else:
                        q = p[1] if p[0] == 'r' else (p if (p[0] == 's' and p[3] == 1) else None)
                        if q is None or (bit is not None and q != bit):
                            okp = False
                        else:
                            bit = q
                            if pos < w_ - 1:
                                nonsign = True
                    pos += pw(p)
                if okp and bit is not None and nonsign and pred in ('une', 'oeq'):
                    return (bit,) if pred == 'une' else not_((bit,))
    if pred in ('uno', 'ord'):
        # x uno c  ==  x uno x   for any non-NaN constant c  (LLVM's canonical isnan is "fcmp uno x, 0.0")
        for (x, c) in ((a, b), (b, a)):
            if is_const(c) and not _is_nan_const(c):
                a = b = canon(x)
                break
    return raw_op('f' + pred, 1, a, b)


def _is_nan_const(c):
    w = width(c)
    v = const_val(c)
    if w == 32:
        return (v >> 23) & 0xff == 0xff and v & 0x7fffff != 0
    if w == 64:
        return (v >> 52) & 0x7ff == 0x7ff and v & ((1 << 52) - 1) != 0
    return True


def _neg_cmp(t):
    """logical negation of a 1-bit comparison term, or None"""
    n = t.name
    if n in ('slt', 'sle', 'ult', 'ule'):
        p, _ = _INEG[n]
        return raw_op(p, 1, t.ops[1], t.ops[0])
    if n.startswith('f') and n[1:] in _FNEG:
        p = _FNEG[n[1:]]
        a, b = t.ops
        if p in _FSWAP:
            p, a, b = _FSWAP[p], b, a
        return raw_op('f' + p, 1, a, b)
    return None


# bitwise ------------------------------------------------------------------

def not_(bv):
    out = []
    for p in bv:
        out.extend(_not_piece(p))
    return norm(out)


def _not_piece(p):
    k = p[0]
    w = pw(p)
    if k == 'c':
        return const(w, ~p[2])
    if k == 'u':
        return (p,)
    if k == 'r':
        return rep(tuple(_not_piece(p[1])), w)
    # 's'
    t = p[1]
    if t.kind == 'op' and t.name == 'not' and p[2] == 0 and w == t.width:
        return t.ops[0]
    if t.kind == 'op' and t.name == 'not':
        return slice_(t.ops[0], p[2], w)
    if t.kind == 'op' and t.width == 1:
        n = _neg_cmp(t)
        if n is not None:
            return n
    if t.kind == 'op' and t.name == 'sel' and p[2] == 0 and w == t.width:
        # not(sel(c,x,y)) = sel(c, not x, not y)
        return sel(t.ops[0], not_(t.ops[1]), not_(t.ops[2]))
    if t.kind == 'op' and t.width == 1 and t.name in ('and', 'or') and len(t.ops) == 2:
        # De Morgan on 1-bit (mask) terms: negations are pushed to the comparison leaves, where the predicate is flipped
        f = or_ if t.name == 'and' else and_
        return f(not_(t.ops[0]), not_(t.ops[1]))
    return raw_op('not', w, (p,))


def _const_runs(p):
    """split a constant piece into maximal runs of equal bits -> list of (w, bit)"""
    w, v = p[1], p[2]
    runs = []
    i = 0
    while i < w:
        b = (v >> i) & 1
        j = i
        while j < w and ((v >> j) & 1) == b:
            j += 1
        runs.append((j - i, b))
        i = j
    return runs


def _bitwise(name, a, b):
    wa, wb = width(a), width(b)
    assert wa == wb, (name, wa, wb)
    cuts = boundaries(a) | boundaries(b)
    # cut constants with mixed bits into runs so that masks become re-slicing
    for bv in (a, b):
        pos = 0
        for p in bv:
            if p[0] == 'c' and p[2] not in (0, (1 << p[1]) - 1):
                q = pos
                for (rw, _) in _const_runs(p):
                    q += rw
                    cuts.add(q)
            pos += pw(p)
    if cuts:
        marks = const(wa, 0)
        marks = tuple(('c', c - p, 0) for p, c in zip([0] + sorted(cuts)[:-1], sorted(cuts)))
        segs = co_split(a, b, marks)
    else:
        segs = co_split(a, b)
    out = []
    for sg in segs:
        out.extend(_bitwise_seg(name, sg[0], sg[1]))
    return norm(out)


def _allones(p):
    return p[0] == 'c' and p[2] == (1 << p[1]) - 1


def _zero(p):
    return p[0] == 'c' and p[2] == 0


def _as_sel(p):
    """view a piece as sel(c, x, y) if it is (a whole) sel term or a replicated bit"""
    if p[0] == 's' and p[1].kind == 'op' and p[1].name == 'sel' and p[2] == 0 and p[3] == p[1].width:
        return p[1].ops
    if p[0] == 'r':
        return ((p[1],), const(p[2], -1), const(p[2], 0))
    return None


def _bitwise_seg(name, x, y):
    """x, y single pieces of equal width"""
    w = pw(x)
    if x[0] == 'c' and y[0] == 'c':
        v = {'and': x[2] & y[2], 'or': x[2] | y[2], 'xor': x[2] ^ y[2]}[name]
        return const(w, v)
    if x[0] == 'c':
        x, y = y, x
    if y[0] == 'c':
        if name == 'and':
            return (x,) if _allones(y) else (const(w, 0) if _zero(y) else None)
        if name == 'or':
            return (y,) if _allones(y) else ((x,) if _zero(y) else None)
        if name == 'xor':
            return tuple(_not_piece(x)) if _allones(y) else ((x,) if _zero(y) else None)
    if x == y:
        return const(w, 0) if name == 'xor' else (x,)
    if x[0] == 'u' or y[0] == 'u':
        return undef(w)
    # complementary operands
    nx = tuple(_not_piece(x))
    if nx == (y,):
        return const(w, {'and': 0, 'or': -1, 'xor': -1}[name])
    # select algebra: op(sel(c,a,b), sel(c,a',b')) = sel(c, op(a,a'), op(b,b'))  (case split on c)
    sx, sy = _as_sel(x), _as_sel(y)
    if sx is not None and sy is not None:
        if sx[0] == sy[0]:
            return sel(sx[0], _bitwise(name, sx[1], sy[1]), _bitwise(name, sx[2], sy[2]))
        if sx[0] == not_(sy[0]):
            return sel(sx[0], _bitwise(name, sx[1], sy[2]), _bitwise(name, sx[2], sy[1]))
    # and(rep(c), v) = sel(c, v, 0) ; or(rep(c), v) = sel(c, -1, v) ; xor(rep(c), v) = sel(c, not v, v)
    if x[0] == 'r' and y[0] == 'r':
        return rep(_bitwise(name, (x[1],), (y[1],)), w)
    for (m, v) in ((x, y), (y, x)):
        if m[0] == 'r':
            c = (m[1],)
            if name == 'and':
                return sel(c, (v,), const(w, 0))
            if name == 'or':
                return sel(c, const(w, -1), (v,))
            if name == 'xor':
                return sel(c, tuple(_not_piece(v)), (v,))
    if w == 1:
        r = _bool_rules(name, x, y)
        if r is not None:
            return r
    if name in ('and', 'or'):
        # associativity / commutativity / idempotence: flatten nested terms of the same operator, sort, rebuild
        leaves = []

        def gather(p):
            if p[0] == 's' and p[1].kind == 'op' and p[1].name == name and p[2] == 0 and p[3] == p[1].width == w \
                    and all(len(o) == 1 for o in p[1].ops):
                for o in p[1].ops:
                    gather(o[0])
            elif p not in leaves:
                leaves.append(p)
        gather(x)
        gather(y)
        if len(leaves) > 2:
            leaves.sort(key=lambda q: _key((q,)))
            acc = (leaves[0],)
            for l in leaves[1:]:
                acc = raw_op(name, w, acc, (l,))
            return acc
        if len(leaves) == 1:
            return (leaves[0],)
    return raw_op(name, w, (x,), (y,))


def _bit_term(p, name=None):
    """the op term behind a 1-bit piece that is a whole 1-bit term"""
    if p[0] == 's' and p[1].kind == 'op' and p[1].width == 1 and p[2] == 0:
        if name is None or p[1].name == name:
            return p[1]
    return None


RULES_FIRED = []   # names of reviewed identities used while normalising the current function


def _bool_rules(name, x, y):
    """Reviewed identities on 1-bit values (each valid for all operand values):
    eq-merge : (x[lo:m]==y[lo:m]) & (x[m:hi]==y[m:hi])  =  x[lo:hi]==y[lo:hi]
    le       : (a<b) | (a==b)  =  a<=b                     (signed and unsigned)
    HD 2-12  : sign((x&~y) | (~(x^y)&(x-y)))  =  x <s y ;  sign((~x&y) | (~(x^y)&(x-y))) = x <u y
               (Hacker's Delight, section 2-12 "Comparison Predicates")"""
    r = _hd_zero(name, x, y)
    if r is not None:
        return r
    tx, ty = _bit_term(x), _bit_term(y)
    if tx is None or ty is None:
        return None
    if name == 'and' and tx.name == 'eq' and ty.name == 'eq':
        for (p, q) in ((ty.ops[0], ty.ops[1]), (ty.ops[1], ty.ops[0])):
            for (lo, hi) in ((tx, (p, q)), ):
                pass
            for first in (0, 1):
                if first == 0:
                    l0, l1, h0, h1 = tx.ops[0], tx.ops[1], p, q
                else:
                    l0, l1, h0, h1 = p, q, tx.ops[0], tx.ops[1]
                m0, m1 = cat(l0, h0), cat(l1, h1)
                if len(m0) == 1 and len(m1) == 1 and (len(l0) == 1 and len(h0) == 1):
                    RULES_FIRED.append('eq-merge')
                    return icmp('eq', m0, m1)
    if name == 'or':
        for (a, b) in ((tx, ty), (ty, tx)):
            if a.name in ('slt', 'ult') and b.name == 'eq' and set(a.ops) == set(b.ops):
                RULES_FIRED.append('lt-or-eq')
                return raw_op({'slt': 'sle', 'ult': 'ule'}[a.name], 1, a.ops[0], a.ops[1])
        if tx.name == 'and' and ty.name == 'and':
            r = _hd_cmp(tx, ty) or _hd_cmp(ty, tx)
            if r is not None:
                return r
    return None


def _neg_top(p):
    """if the 1-bit piece p is the top bit of (-X) return X"""
    if p[0] == 's' and p[1].kind == 'op' and p[1].name == 'sum' and p[3] == 1 and p[2] == p[1].width - 1:
        t = p[1]
        if t.attrs == (0, (_mask(t.width),)):
            return t.ops[0]
    return None


def _hd_zero(name, x, y):
    """HD 2-12 with x = 0:   sign(~y & -y) = (0 <s y) ;   y_s | (~y_s & (-y)_s) = (0 <u y) = (y != 0)"""
    if name == 'and':
        for (p, q) in ((x, y), (y, x)):
            X = _neg_top(p)
            if X is not None and (q,) == not_(topbit(X)):
                RULES_FIRED.append('HD2-12-0<s')
                return icmp('slt', const(width(X), 0), X)
    if name == 'or':
        for (p, q) in ((x, y), (y, x)):
            t = _bit_term(q, 'slt')
            if t is not None and is_const(t.ops[0]) and const_val(t.ops[0]) == 0 and topbit(t.ops[1]) == (p,):
                RULES_FIRED.append('neg-or-pos')
                return icmp('ne', t.ops[1], const(width(t.ops[1]), 0))
        for (p, q) in ((x, y), (y, x)):
            t = _bit_term(q, 'and')
            if t is not None and p[0] == 's' and p[3] == 1:
                for (u, v) in ((t.ops[0], t.ops[1]), (t.ops[1], t.ops[0])):
                    X = _neg_top(u[0]) if len(u) == 1 else None
                    if X is not None and topbit(X) == (p,) and v == not_((p,)):
                        RULES_FIRED.append('HD2-12-0<u')
                        return icmp('ne', X, const(width(X), 0))
    return None


def _hd_cmp(u, v):
    ds = nx = None
    for o in v.ops:
        p = o[0]
        if p[0] == 's' and p[1].kind == 'op' and p[1].name == 'sum' and p[2] == p[1].width - 1 and p[3] == 1:
            ds = p[1]
        else:
            t = _bit_term(p, 'not')
            if t is not None:
                nx = _bit_term(t.ops[0][0], 'xor') if len(t.ops[0]) == 1 else None
    if ds is None or nx is None:
        return None
    w = ds.width
    k, coefs = ds.attrs
    if k != 0 or len(ds.ops) != 2 or sorted(coefs) != [1, _mask(w)]:
        return None
    X = ds.ops[coefs.index(1)]
    Y = ds.ops[coefs.index(_mask(w))]
    xs, ys = topbit(X), topbit(Y)
    if set(nx.ops) != set([xs, ys]):
        return None
    uo = set(u.ops)
    if uo == set([xs, not_(ys)]):
        RULES_FIRED.append('HD2-12-slt')
        return raw_op('slt', 1, X, Y)
    if uo == set([not_(xs), ys]):
        RULES_FIRED.append('HD2-12-ult')
        return raw_op('ult', 1, X, Y)
    return None


def _piece_key(p):
    return _key((p,))


def and_(a, b):
    return _bitwise('and', a, b)


def or_(a, b):
    return _bitwise('or', a, b)


def xor(a, b):
    return _bitwise('xor', a, b)


# select -------------------------------------------------------------------

def sel(c, x, y):
    """c: 1-bit BV; x, y: BVs of equal width.  sel(c,x,y) = c ? x : y, bitwise."""
    assert width(c) == 1 and width(x) == width(y), (c, width(x), width(y))
    cp = c[0]
    if cp[0] == 'c':
        return x if cp[2] else y
    if cp[0] == 'u':
        return undef(width(x))
    # normalise a negated condition: sel(not c, x, y) = sel(c, y, x)
    if cp[0] == 's' and cp[1].kind == 'op' and cp[1].name == 'not':
        return sel(cp[1].ops[0], y, x)
    if cp[0] == 's' and cp[1].kind == 'op' and cp[1].width == 1 and cp[1].name in ('sle', 'ule'):
        # canonical orientation: strict predicates only ( a<=b ? x : y  ==  b<a ? y : x )
        n = _neg_cmp(cp[1])
        return sel(n, y, x)
    x, y = canon(x), canon(y)
    if x == y:
        return x
    if all(p[0] == 'u' for p in y):
        return x                                   # an undefined arm may be refined to the other arm
    if all(p[0] == 'u' for p in x):
        return y
    out = []
    for (xp_, yp_) in co_split(x, y):
        out.extend(_sel_seg(c, (xp_,), (yp_,)))
    return norm(out)


def _sel_seg(c, x, y):
    w = width(x)
    if x == y:
        return x
    xp, yp = x[0], y[0]
    # sel(c, -1, 0) = rep(c)
    if _allones(xp) and _zero(yp):
        return rep(c, w)
    if _zero(xp) and _allones(yp):
        return rep(not_(c), w)
    if w == 1 and (xp[0] == 'c' or yp[0] == 'c') and not (xp[0] == 'c' and yp[0] == 'c'):
        # c ? 1 : y = c | y ; c ? 0 : y = ~c & y ; c ? x : 1 = ~c | x ; c ? x : 0 = c & x
        if xp[0] == 'c':
            return or_(c, y) if xp[2] else and_(not_(c), y)
        return or_(not_(c), x) if yp[2] else and_(c, x)
    if (xp[0] == 'r' or (xp[0] == 'c' and xp[2] in (0, _mask(w)))) and (yp[0] == 'r' or (yp[0] == 'c' and yp[2] in (0, _mask(w)))) \
            and (xp[0] == 'r' or yp[0] == 'r') and w > 1:
        # c ? rep(d) : rep(e) = rep(c ? d : e)
        d = (xp[1],) if xp[0] == 'r' else const(1, xp[2] & 1)
        e = (yp[1],) if yp[0] == 'r' else const(1, yp[2] & 1)
        return rep(sel(c, d, e), w)
    if xp[0] == 'c' and yp[0] == 'c':
        # select between constants is bitwise:  bit = c / not c / the common bit
        nc = not_(c)
        bits = []
        for i in range(w):
            bx, by = (xp[2] >> i) & 1, (yp[2] >> i) & 1
            bits.append(const(1, bx) if bx == by else (c if bx else nc))
        return cat(*bits)
    # nested select on the same condition
    for (p, side) in ((xp, 1), (yp, 2)):
        s = _as_sel(p)
        if s is not None and p[0] == 's':
            if s[0] == c:
                if side == 1:
                    return sel(c, s[1], y)
                return sel(c, x, s[2])
    t = _minmax(c, x, y)
    if t is not None:
        return t
    tm = _mk('op', 'sel', w, None, (c, x, y))
    return (('s', tm, 0, w),)


def _merge_bitwise(a, b):
    """adjacent whole not/and/or/xor terms whose operands are adjacent slices -> one wider term"""
    if a[0] == 's' and b[0] == 's' and a[1].kind == 'op' and b[1].kind == 'op' and a[1].name == b[1].name \
            and a[1].name in ('not', 'and', 'or', 'xor') and a[2] == 0 and b[2] == 0 and a[3] == a[1].width and b[3] == b[1].width:
        ta, tb = a[1], b[1]
        if ta.name == 'not':
            m = cat(ta.ops[0], tb.ops[0])
            if len(m) == 1:
                r = raw_op('not', ta.width + tb.width, m)
                return r[0]
            return None
        for (p, q) in ((tb.ops[0], tb.ops[1]), (tb.ops[1], tb.ops[0])):
            m0, m1 = cat(ta.ops[0], p), cat(ta.ops[1], q)
            if len(m0) == 1 and len(m1) == 1:
                r = raw_op(ta.name, ta.width + tb.width, m0, m1)
                return r[0]
    return None


def _merge_sel(a, b):
    """adjacent whole-sel pieces with the same condition -> one sel over the concatenation"""
    if a[0] == 's' and b[0] == 's' and a[1].kind == 'op' and b[1].kind == 'op' and a[1].name == 'sel' and b[1].name == 'sel' \
            and a[2] == 0 and b[2] == 0 and a[3] == a[1].width and b[3] == b[1].width and a[1].ops[0] == b[1].ops[0]:
        c = a[1].ops[0]
        x = cat(a[1].ops[1], b[1].ops[1])
        y = cat(a[1].ops[2], b[1].ops[2])
        r = _sel_seg_nosplit(c, x, y)
        if len(r) == 1:
            return r[0]
    return None


def _sel_seg_nosplit(c, x, y):
    w = width(x)
    t = _minmax(c, x, y)
    if t is not None:
        return t
    tm = _mk('op', 'sel', w, None, (c, x, y))
    return (('s', tm, 0, w),)


def _minmax(c, x, y):
    """sel(a<b, a, b) = min(a,b); sel(a<b, b, a) = max(a,b)   (definition of min/max)"""
    t = single_term(c)
    if t is None or t.kind != 'op':
        return None
    w = width(x)
    if t.name in ('slt', 'ult') and width(t.ops[0]) == w:
        a, b = t.ops
        s = t.name[0]
        if (a, b) == (x, y):
            return raw_op(s + 'min', w, x, y)
        if (a, b) == (y, x):
            return raw_op(s + 'max', w, x, y)
    return None


# arithmetic ---------------------------------------------------------------

def _mask(w):
    return (1 << w) - 1


def _sel_view(bv):
    if len(bv) == 1:
        return _as_sel(bv[0])
    return None


def _distribute(f, a, b):
    """f(sel(c,x,y), sel(c,x',y')) = sel(c, f(x,x'), f(y,y'))  -- case split on the 1-bit c"""
    sa, sb = _sel_view(a), _sel_view(b)
    if sa is not None and sb is not None:
        if sa[0] == sb[0]:
            return sel(sa[0], f(sa[1], sb[1]), f(sa[2], sb[2]))
        if sa[0] == not_(sb[0]):
            return sel(sa[0], f(sa[1], sb[2]), f(sa[2], sb[1]))
    return None


# Linear normal form over Z/2^w:  sum_i coef_i * t_i + k.
# add/sub/neg/mul-by-constant/shl-by-constant/not/sign-bit-xor all denote linear
# maps in the ring Z/2^w, so any two expressions built from them that are equal
# as polynomials of degree 1 get the same normal form (this is what makes LLVM's
# reassociation invisible).

def _lin(bv, w):
    """-> (dict key -> [bv, coef], const)"""
    bv = canon(bv)
    if is_const(bv):
        return {}, const_val(bv)
    if len(bv) == 1:
        p = bv[0]
        if p[0] == 's' and p[2] == 0 and p[3] == p[1].width and p[1].kind == 'op':
            t = p[1]
            if t.name == 'sum':
                k, coefs = t.attrs
                return dict((_key(o), [o, c]) for o, c in zip(t.ops, coefs)), k
            if t.name == 'not':
                # ~x = -x - 1
                d, k = _lin(t.ops[0], w)
                return dict((kk, [v[0], (-v[1]) & _mask(w)]) for kk, v in d.items()), (-k - 1) & _mask(w)
        if p[0] == 'r':
            # rep(c) = -zext(c)
            z = cat((p[1],), const(w - 1, 0))
            return {_key(z): [z, _mask(w)]}, 0
    if len(bv) == 2:
        lo, hi = bv
        # [0:k ++ x[0:w-k]] = x * 2^k
        if lo[0] == 'c' and lo[2] == 0 and hi[0] == 's' and hi[2] == 0 and hi[1].width == w:
            k = lo[1]
            d, c = _lin((('s', hi[1], 0, w),), w)
            return dict((kk, [v[0], (v[1] << k) & _mask(w)]) for kk, v in d.items()), (c << k) & _mask(w)
        if pw(hi) == 1 and lo[0] == 's' and hi[0] == 's':
            # [x[0:w-1] ++ not x[w-1]] = x + 2^(w-1)      (xor with the sign bit adds it)
            tn = hi[1]
            if tn.kind == 'op' and tn.name == 'not' and tn.width == 1 and lo[2] == 0 and lo[1].width == w \
                    and tn.ops[0] == (('s', lo[1], w - 1, 1),):
                d, c = _lin((('s', lo[1], 0, w),), w)
                return d, (c + (1 << (w - 1))) & _mask(w)
            # [not(x[0:w-1]) ++ x[w-1]] = ~(x + 2^(w-1)) = -x - 1 + 2^(w-1)
            tl = lo[1]
            if tl.kind == 'op' and tl.name == 'not' and lo[2] == 0 and lo[3] == tl.width == w - 1 and len(tl.ops[0]) == 1:
                q = tl.ops[0][0]
                if q[0] == 's' and q[2] == 0 and q[1].width == w and hi == ('s', q[1], w - 1, 1):
                    d, c = _lin((('s', q[1], 0, w),), w)
                    return dict((kk, [v[0], (-v[1]) & _mask(w)]) for kk, v in d.items()), (-c - 1 + (1 << (w - 1))) & _mask(w)
    return {_key(bv): [bv, 1]}, 0


def _lin_build(d, k, w):
    k &= _mask(w)
    items = [(kk, v) for kk, v in d.items() if v[1] & _mask(w)]
    # merge select-like summands that share a condition:  sum_i sel(c,x_i,y_i) = sel(c, sum x_i, sum y_i)
    sels = {}
    for kk, v in items:
        sv = _sel_view(v[0])
        if sv is not None:
            sels.setdefault(_key(sv[0]), []).append((kk, v, sv))
    for ck, lst in sels.items():
        if len(lst) >= 2:
            c = lst[0][2][0]
            xs = const(w, 0)
            ys = const(w, 0)
            for (kk, v, sv) in lst:
                xs = add(xs, mul(sv[1], const(w, v[1])))
                ys = add(ys, mul(sv[2], const(w, v[1])))
            rest = dict((kk, v) for kk, v in items if all(kk != e[0] for e in lst))
            merged = sel(c, xs, ys)
            d2, k2 = _lin(merged, w)
            for kk, v in d2.items():
                if kk in rest:
                    rest[kk] = [v[0], (rest[kk][1] + v[1]) & _mask(w)]
                else:
                    rest[kk] = v
            return _lin_build(rest, k + k2, w)
    if not items:
        return const(w, k)
    items.sort(key=lambda kv: kv[0])
    if len(items) == 1 and k == 0 and items[0][1][1] == 1:
        return items[0][1][0]
    if len(items) == 1 and k == (1 << (w - 1)) and items[0][1][1] == 1 and w > 1:
        x = items[0][1][0]
        return cat(slice_(x, 0, w - 1), not_(topbit(x)))   # x + 2^(w-1) = x ^ signbit
    if len(items) == 1 and k == 0 and items[0][1][1] == _mask(w) and w > 1:
        z = items[0][1][0]
        if len(z) == 2 and pw(z[0]) == 1 and _zero(z[1]):
            return rep((z[0],), w)               # -zext(c) = rep(c)
    if len(items) == 1 and k == 0:
        # splat by multiplication: x = [X (n bits) ++ 0...] times a constant whose set bits are at least n apart: the
        # partial products X << q_j occupy disjoint bit ranges, nothing carries, the product is X copied to every q_j
        # (LLVM's form of a byte / word broadcast: x * 0x0101.., x | x << 8)
        z, cf = items[0][1]
        cf &= _mask(w)
        n = w
        while n > 0 and len(z) > 1 and _zero(z[-1]):
            n -= pw(z[-1])
            z = z[:-1]
        if 0 < n < w and cf:
            qs = [q for q in range(w) if (cf >> q) & 1]
            if len(qs) > 1 and all(b - a >= n for a, b in zip(qs, qs[1:])):
                out, pos = [], 0
                for q in qs:
                    if q > pos:
                        out.append(const(q - pos, 0))
                    take = min(n, w - q)
                    out.append(slice_(z, 0, take))
                    pos = q + take
                if pos < w:
                    out.append(const(w - pos, 0))
                return cat(*out)
    # common known-zero low bits: if the low m bits of every summand and of the constant are zero, nothing carries
    # into bit m and the sum is  [0 x m] ++ (sum of the parts shifted right by m)   (mod 2^(w-m))
    m = w
    for kk, v in items:
        z = v[0]
        m = min(m, pw(z[0]) if (z and z[0][0] == 'c' and z[0][2] == 0) else 0)
    if k:
        m = min(m, (k & -k).bit_length() - 1)
    if 0 < m < w:
        hi = _lin_comb(w - m, [(slice_(v[0], m, w - m), v[1]) for kk, v in items] + [(const(w - m, k >> m), 1)])
        return cat(const(m, 0), hi)
    ops = tuple(v[0] for kk, v in items)
    coefs = tuple(v[1] & _mask(w) for kk, v in items)
    t = _mk('op', 'sum', w, (k, coefs), ops)
    return (('s', t, 0, w),)


def _lin_comb(w, parts):
    """parts: list of (bv, coef)"""
    d = {}
    k = 0
    for bv, co in parts:
        dd, kk = _lin(bv, w)
        k += kk * co
        for key, v in dd.items():
            if key in d:
                d[key][1] = (d[key][1] + v[1] * co) & _mask(w)
            else:
                d[key] = [v[0], (v[1] * co) & _mask(w)]
    return _lin_build(d, k, w)


def add(a, b):
    w = width(a)
    assert width(b) == w
    a, b = canon(a), canon(b)
    d = _distribute(add, a, b)
    if d is not None:
        return d
    return _lin_comb(w, [(a, 1), (b, 1)])


def neg(a):
    w = width(a)
    return _lin_comb(w, [(canon(a), -1)])


def sub(a, b):
    w = width(a)
    assert width(b) == w
    a, b = canon(a), canon(b)
    d = _distribute(sub, a, b)
    if d is not None:
        return d
    return _lin_comb(w, [(a, 1), (b, -1)])


def _carry_free_mul(x, c, w):
    """x has single symbolic bits b_i at positions p_i and zeros elsewhere: x = sum b_i 2^p_i, so
    x*c = sum_i b_i * (c << p_i).  If no two partial products share a bit position there are no carries and
    bit q of the product is the b_i whose partial product owns q (the bit-gather / bit-spread multiply idiom)."""
    bits = []
    pos = 0
    for p in x:
        n = pw(p)
        if p[0] == 'c':
            if p[2] != 0:
                return None
        elif p[0] == 's' and n == 1:
            bits.append((pos, p))
        else:
            return None
        pos += n
    if not bits or len(bits) > 64 or bin(c).count('1') > 64:
        return None
    owner = {}
    cb = [k for k in range(w) if (c >> k) & 1]
    for (p_i, piece) in bits:
        for k in cb:
            q = p_i + k
            if q >= w:
                continue
            if q in owner:
                return None
            owner[q] = piece
    return norm([owner.get(q, ('c', 1, 0)) for q in range(w)])


def mul(a, b):
    w = width(a)
    assert width(b) == w
    a, b = canon(a), canon(b)
    for (x, c) in ((a, b), (b, a)):
        if is_const(c) and not is_const(x):
            r = _carry_free_mul(x, const_val(c), w)
            if r is not None:
                return r
    if is_const(a):
        return _lin_comb(w, [(b, const_val(a))])
    if is_const(b):
        return _lin_comb(w, [(a, const_val(b))])
    # (2^k * r) * y = 2^k * (r * y)   -- a factor with k low zero bits
    for (x, y) in ((a, b), (b, a)):
        if x[0][0] == 'c' and x[0][2] == 0 and len(x) > 1:
            k = x[0][1]
            return cat(const(k, 0), mul(slice_(x, k, w - k), slice_(y, 0, w - k)))
    # (c*x) * y = c * (x*y)   -- pull scalar coefficients out of the product
    co = 1
    fs = []
    for x in (a, b):
        d, k = _lin(x, w)
        if k == 0 and len(d) == 1:
            (bv, c), = d.values()
            co = (co * c) & _mask(w)
            fs.append(bv)
        else:
            fs.append(x)
    if co != 1:
        return _lin_comb(w, [(raw_op('mul', w, fs[0], fs[1]), co)])
    return raw_op('mul', w, a, b)


def shl_c(a, n):
    w = width(a)
    if n >= w:
        return const(w, 0)
    return cat(const(n, 0), slice_(a, 0, w - n))


def lshr_c(a, n):
    w = width(a)
    if n >= w:
        return const(w, 0)
    return cat(slice_(a, n, w - n), const(n, 0))


def ashr_c(a, n):
    w = width(a)
    sb = topbit(a)
    if n >= w:
        return rep(sb, w)
    if n == 0:
        return a
    return cat(slice_(a, n, w - n), rep(sb, n))


def fshl_c(a, b, n):
    """funnel shift left: high w bits of (a:b) << n, n taken mod w"""
    w = width(a)
    n %= w
    if n == 0:
        return a
    return cat(slice_(b, w - n, n), slice_(a, 0, w - n))


def fshr_c(a, b, n):
    w = width(a)
    n %= w
    if n == 0:
        return b
    return cat(slice_(b, n, w - n), slice_(a, 0, n))


def zext(a, w):
    return cat(a, const(w - width(a), 0))


def sext(a, w):
    return cat(a, rep(topbit(a), w - width(a)))


def trunc(a, w):
    return slice_(a, 0, w)


def op(name, w, *ops, **kw):
    """generic constructor dispatching to the canonicalising ones"""
    if name == 'add':
        return add(*ops)
    if name == 'sub':
        return sub(*ops)
    if name == 'mul':
        return mul(*ops)
    if name == 'neg':
        return neg(*ops)
    if name == 'and':
        return and_(*ops)
    if name == 'or':
        return or_(*ops)
    if name == 'xor':
        return xor(*ops)
    if name == 'not':
        return not_(*ops)
    if name == 'sel':
        return sel(*ops)
    if name in ('smin', 'smax', 'umin', 'umax'):
        return minmax(name, *ops)
    return raw_op(name, w, *ops, **kw)


def minmax(name, a, b):
    a, b = canon(a), canon(b)
    if a == b:
        return a
    return raw_op(name, width(a), a, b)


def abs_(a):
    """llvm.abs: canonical form sel(sign, -x, x)"""
    return sel(topbit(a), neg(a), a)


# IEEE bit-layout helpers --------------------------------------------------

def fabs(a):
    w = width(a)
    return cat(slice_(a, 0, w - 1), const(1, 0))


def fneg(a):
    w = width(a)
    return cat(slice_(a, 0, w - 1), not_(topbit(a)))


def copysign(a, b):
    w = width(a)
    return cat(slice_(a, 0, w - 1), topbit(b))


# --------------------------------------------------------------------------
# printing

def fmt_piece(p, depth=6):
    k = p[0]
    if k == 'c':
        return '0x%x:%d' % (p[2], p[1])
    if k == 'u':
        return 'undef:%d' % p[1]
    if k == 'r':
        return 'rep(%s)x%d' % (fmt_piece(p[1], depth), p[2])
    t = p[1]
    s = fmt_term(t, depth)
    if p[2] == 0 and p[3] == t.width:
        return s
    return '%s[%d+:%d]' % (s, p[2], p[3])


def fmt_term(t, depth=6):
    if t.kind == 'arg':
        return '%s%s' % (t.name, t.attrs)
    if depth <= 0:
        return '%s_%d(...)' % (t.name, t.width)
    a = ('{%s}' % (t.attrs,)) if t.attrs is not None else ''
    return '%s_%d%s(%s)' % (t.name, t.width, a, ', '.join(fmt(o, depth - 1) for o in t.ops))


def fmt(bv, depth=6):
    if len(bv) == 1:
        return fmt_piece(bv[0], depth)
    return '[' + ' ++ '.join(fmt_piece(p, depth) for p in bv) + ']'


def atoms_of(bv, acc=None, seen=None):
    """set of (argname, lane) atoms a BV depends on"""
    if acc is None:
        acc, seen = set(), set()
    for p in bv:
        if p[0] == 'r':
            atoms_of((p[1],), acc, seen)
        elif p[0] == 's':
            t = p[1]
            if t.uid in seen:
                continue
            seen.add(t.uid)
            if t.kind == 'arg':
                acc.add((t.name, t.attrs))
            else:
                for o in t.ops:
                    atoms_of(o, acc, seen)
    return acc
