"""Lane-dependence analysis of vector functions with control flow (C13).

For every SSA value the analysis computes, cell by cell, the set of (argument, lane) atoms it may depend on through
DATA edges, plus the data atoms it is control dependent on (post-dominator based control dependence).  Whole-batch
reductions of a mask (icmp on the k-register / movmsk view, ptest/vtest, vector.reduce.or/and) produce a marker, not
data atoms: they may steer branches and scalar-condition selects (the tier selection the property allows); a marker
that reaches lane data through any other operation is turned into a data dependence on every lane.

Values are tuples of cells; a cell is cw bits wide (cw = 1 for i1 vectors and k-register views, otherwise
min(element width, 32)), so that bitwise code on re-typed registers (fabs through <n x i64>, sign-bit xor, blends) is
followed exactly, while arithmetic merges the cells of one element.  Memory is followed byte by byte for constant
offsets of locals (the scratch buffers of the per-lane scalar fallbacks) with a summary cell for variable offsets.
The result is a FIXPOINT over the CFG (sets only grow), so loops need no unrolling.
Nothing is executed.
"""
import re
from collections import defaultdict

from . import cfg as CFG
from .ir import parse_type

ELEMWISE_CALLS = re.compile(
    r'^llvm\.(fma|fmuladd|sqrt|fabs|floor|ceil|trunc|rint|nearbyint|round|roundeven|copysign|minnum|maxnum|abs|umin|umax|smin|smax|'
    r'fshl|fshr|ctpop|ctlz|cttz|bswap|bitreverse|sadd\.sat|uadd\.sat|ssub\.sat|usub\.sat|exp|exp2|log|log2|log10|sin|cos|pow)\b|'
    r'^llvm\.x86\.(sse|sse2|sse41|avx|avx2|avx512)\.(mask\.)?(round|rndscale|min|max|sqrt|rcp|rcp14|rsqrt|rsqrt14|cvttps2dq|cvtt\.ps2dq|cvtps2dq|cvt\.ps2dq|'
    r'cvttps2udq|cvtpd2ps|cvt\.pd2\.ps|cvtps2pd|cvt\.ps2\.pd|scalef|getexp|getmant|pavg|psllv|psrlv|psrav|blendvps|blendvpd|blendv|pblendvb|fixupimm)')
REDUCE_CALLS = re.compile(r'^llvm\.x86\.(sse41|avx)\.(ptest|vtest)(z|c|nzc)|^llvm\.vector\.reduce\.(or|and|umax|umin|smax|smin|add)')
MOVMSK_CALLS = re.compile(r'^llvm\.x86\.(sse|sse2|avx|avx2)\.(movmsk|pmovmskb)')
PURE_SCALAR_CALLS = ('scalbn', 'scalbnf', 'ldexp', 'ldexpf', 'floor', 'floorf', 'fabs', 'fabsf', 'sqrt', 'sqrtf', 'copysign', 'copysignf')
IGNORE_CALLS = ('llvm.lifetime.', 'llvm.dbg.', 'llvm.assume', 'llvm.experimental.noalias', 'llvm.donothing')

E = frozenset()


class Val(object):
    """cw: cell width in bits; cells: tuple of frozensets; orig: per cell an identity of the value the cell was copied
    from unchanged (None = not tracked).  Two cells with the same non-None origin hold the same run-time bits."""
    __slots__ = ('cw', 'cells', 'orig')

    def __init__(self, cw, cells, orig=None):
        self.cw, self.cells = cw, tuple(cells)
        self.orig = tuple(orig) if orig is not None else (None,) * len(self.cells)

    def __eq__(self, o):
        return o is not None and self.cw == o.cw and self.cells == o.cells and self.orig == o.orig

    def __ne__(self, o):
        return not self.__eq__(o)

    def all(self):
        s = set()
        for c in self.cells:
            s |= c
        return frozenset(s)

    def bits(self):
        return self.cw * len(self.cells)


def join(a, b):
    if a is None:
        return b
    if b is None:
        return a
    if a.cw != b.cw or len(a.cells) != len(b.cells):
        cw = min(a.cw, b.cw)
        a, b = recell(a, cw), recell(b, cw)
        if len(a.cells) != len(b.cells):
            u = a.all() | b.all()
            n = max(len(a.cells), len(b.cells))
            return Val(cw, [u] * n)
    return Val(a.cw, [x | y for x, y in zip(a.cells, b.cells)], [p if p == q else None for p, q in zip(a.orig, b.orig)])


def recell(v, cw):
    if v.cw == cw:
        return v
    if cw < v.cw:
        k = v.cw // cw
        out = []
        og = []
        for c, o in zip(v.cells, v.orig):
            out.extend([c] * k)
            og.extend([(o, j) if o is not None else None for j in range(k)])
        return Val(cw, out, og)
    k = cw // v.cw
    out = []
    for i in range(0, len(v.cells), k):
        u = set()
        for c in v.cells[i:i + k]:
            u |= c
        out.append(frozenset(u))
    return Val(cw, out)


def type_cells(ty):
    """(cell width, number of cells, element width) for an IR type"""
    if ty.kind == 'vec':
        ew = ty.elem.bits
        cw = 1 if ew == 1 else min(ew, 32)
        return cw, ty.n * (ew // cw), ew
    if ty.kind in ('int', 'fp'):
        cw = min(ty.bits, 32) if ty.bits >= 8 else ty.bits
        if ty.bits % cw:
            cw = ty.bits
        return cw, ty.bits // cw, ty.bits
    if ty.kind == 'ptr':
        return 64, 1, 64
    return 32, max(1, ty.bits // 32), ty.bits or 32


def uniform(ty, deps=E):
    cw, n, ew = type_cells(ty)
    return Val(cw, [deps] * n)


def elementwise(ty, vals):
    """result of an element-wise operation producing type ty from operand values (operands may be scalars = 1 element)"""
    cw, n, ew = type_cells(ty)
    ne = ty.n if ty.kind == 'vec' else 1
    per = [set() for _ in range(ne)]
    for (v, vt) in vals:
        vne = vt.n if vt.kind == 'vec' else 1
        if vne == ne:
            k = len(v.cells) // ne if ne else 1
            for e in range(ne):
                for c in v.cells[e * k:(e + 1) * k]:
                    per[e] |= c
        elif vne == 1 or len(v.cells) == 1:
            a = v.all()
            for e in range(ne):
                per[e] |= a
        else:
            # k-register view (iN with one bit per lane) used as a per-lane mask
            if vt.kind == 'int' and v.cw == 1 and len(v.cells) >= ne:
                for e in range(ne):
                    per[e] |= v.cells[e]
            else:
                a = v.all()
                for e in range(ne):
                    per[e] |= a
    k = n // ne if ne else 1
    out = []
    for e in range(ne):
        out.extend([frozenset(per[e])] * k)
    return Val(cw, out)


class Summary(object):
    def __init__(self, out, ok, why=None):
        self.out, self.ok, self.why = out, ok, why


class LaneDep(object):
    def __init__(self, module, fn, summaries=None):
        self.m = module
        self.fn = fn
        self.blocks = dict((b['id'], b) for b in fn['blocks'])
        self.summaries = summaries if summaries is not None else {}
        self.env = {}
        self.mem = {}        # alloca id -> {byte offset: frozenset}; key 'S' = summary of variable-offset stores
        self.notes = []
        self.unknown_calls = set()
        self.succ = CFG.successors(fn)
        self.ctrl = self.control_dependence()
        self.ivs = self.induction_variables()
        rt = parse_type(fn['ret'])
        self.lane_bits = rt.elem.bits if rt.kind == 'vec' else 32
        if rt.kind != 'vec':
            for b_ in fn['blocks']:
                for i_ in b_['insts']:
                    t_ = parse_type(i_['ty'])
                    if i_['op'] == 'load' and t_.kind == 'vec' and t_.elem.kind == 'fp':
                        self.lane_bits = t_.elem.bits

    def induction_variables(self):
        """header phis  i = 0; i' = i + 1  of natural loops: the lane counters of the per-lane scalar fallbacks"""
        out = set()
        loops, irr, succ, idom = CFG.natural_loops(self.fn)
        for lp in loops:
            for inst in self.blocks[lp.header]['insts']:
                if inst['op'] != 'phi' or parse_type(inst['ty']).kind != 'int':
                    continue
                start = step = None
                for inc in inst['incoming']:
                    if inc['bb'] in lp.blocks:
                        if inc['v']['k'] == 'v':
                            st = self.fn['insts'][inc['v']['id']]
                            if st['op'] == 'add' and any(o['k'] == 'v' and o['id'] == inst['id'] for o in st['ops']) and \
                                    any(o['k'] == 'c' and o.get('int') == '1' for o in st['ops']):
                                step = 1
                    elif inc['v']['k'] == 'c' and inc['v'].get('int') == '0':
                        start = 0
                if start == 0 and step == 1:
                    out.add(inst['id'])
        return out

    # ---- control dependence (Ferrante-Ottenstein-Warren via post-dominators)
    def control_dependence(self):
        blocks = [b['id'] for b in self.fn['blocks']]
        EXIT = -1
        rsucc = defaultdict(list)       # reverse graph successors = CFG predecessors
        for b in blocks:
            ss = self.succ[b]
            if not ss:
                rsucc[EXIT].append(b)
            for s in ss:
                rsucc[s].append(b)
        # post-dominators = dominators of the reverse graph from EXIT
        fake = {'blocks': [{'id': EXIT}] + [{'id': b} for b in blocks]}
        order = []
        seen = set([EXIT])
        stack = [(EXIT, iter(rsucc[EXIT]))]
        while stack:
            node, it = stack[-1]
            adv = False
            for v in it:
                if v not in seen:
                    seen.add(v)
                    stack.append((v, iter(rsucc[v])))
                    adv = True
                    break
            if not adv:
                order.append(node)
                stack.pop()
        rpo = order[::-1]
        idx = dict((b, i) for i, b in enumerate(rpo))
        rpred = defaultdict(list)
        for u in rpo:
            for v in rsucc[u]:
                if v in idx:
                    rpred[v].append(u)
        ipdom = {EXIT: EXIT}
        changed = True
        while changed:
            changed = False
            for b in rpo[1:]:
                ps = [p for p in rpred[b] if p in ipdom]
                if not ps:
                    continue
                new = ps[0]
                for p in ps[1:]:
                    a, c = p, new
                    while a != c:
                        while idx[a] > idx[c]:
                            a = ipdom[a]
                        while idx[c] > idx[a]:
                            c = ipdom[c]
                    new = a
                if ipdom.get(b) != new:
                    ipdom[b] = new
                    changed = True
        cd = defaultdict(set)      # block -> set of branch blocks it is control dependent on
        for a in blocks:
            if len(set(self.succ[a])) < 2:
                continue
            stop = ipdom.get(a, EXIT)
            for s in set(self.succ[a]):
                x = s
                guard = 0
                while x != stop and x != EXIT and guard < 100000:
                    cd[x].add(a)
                    x = ipdom.get(x, EXIT)
                    guard += 1
        return cd

    # ---- values
    def cval(self, o):
        return uniform(parse_type(o['ty']))

    def oty(self, o):
        k = o['k']
        if k == 'v':
            return parse_type(self.fn['insts'][o['id']]['ty'])
        if k == 'a':
            return parse_type(self.fn['args'][o['i']]['ty'])
        if k == 'c':
            return parse_type(o['ty'])
        return parse_type('i32')

    def val(self, o):
        k = o['k']
        if k == 'v':
            v = self.env.get(o['id'])
            return v if v is not None else uniform(self.oty(o))
        if k == 'a':
            ty = self.oty(o)
            cw, n, ew = type_cells(ty)
            if ty.kind == 'vec':
                W = self.lane_bits
                return Val(cw, [frozenset([('a', o['i'], (j * cw) // W)]) for j in range(n)], [('arg', o['i'], j) for j in range(n)])
            if ty.kind == 'ptr':
                return Val(64, [frozenset([('p', o['i'])])])
            return Val(cw, [frozenset([('s', o['i'])])] * n)
        return self.cval(o)

    def block_ctrl(self, bid):
        """data atoms the execution of block bid is control dependent on"""
        return self.bctrl.get(bid, E)

    # ---- memory
    def ptr_target(self, v):
        """a pointer value carries atoms ('al', id, off) / ('p', argidx) / others"""
        t = [a for a in v.all() if a[0] in ('al', 'p', 'alv')]
        return t

    def run(self):
        self.bctrl = {}
        idom_, order, preds = CFG.dominators(self.fn, self.succ)
        self.mem_out = {}
        for it in range(200):
            changed = False
            # control-dependence atoms per block
            for b in order:
                s = set()
                for a in self.ctrl.get(b, ()):
                    t = self.blocks[a]['insts'][-1]
                    if t['op'] == 'br' and len(t['ops']) == 3:
                        s |= self.data_atoms(self.val(t['ops'][0]).all())
                    elif t['op'] == 'switch':
                        s |= self.data_atoms(self.val(t['cond']).all())
                    s |= self.bctrl.get(a, E)
                s = frozenset(s)
                if s != self.bctrl.get(b, E):
                    self.bctrl[b] = s
                    changed = True
            for b in order:
                # memory state at block entry: join over the predecessors' exit states
                st = {}
                for p_ in preds.get(b, []):
                    mo = self.mem_out.get(p_)
                    if mo is None:
                        continue
                    for aid, cells in mo.items():
                        d = st.setdefault(aid, {})
                        for k_, c_ in cells.items():
                            d[k_] = d.get(k_, E) | c_
                self.mem = st
                for inst in self.blocks[b]['insts']:
                    old = self.env.get(inst['id'])
                    new = self.step(inst, b)
                    if new is not None:
                        # cells whose origin the operation did not establish get this instruction as their origin
                        new = Val(new.cw, new.cells, [o if o is not None else ('def', inst['id'], j) for j, o in enumerate(new.orig)])
                        if old is not None and old.cw == new.cw and len(old.cells) == len(new.cells):
                            new = Val(new.cw, [x | y for x, y in zip(old.cells, new.cells)], new.orig)
                        if new != old:
                            self.env[inst['id']] = new
                            changed = True
                if self.mem_out.get(b) != st:
                    self.mem_out[b] = st
                    changed = True
            self.mem_changed = False
            if not changed:
                break
        else:
            self.notes.append('no fixpoint after 200 rounds')
        # return value
        rets = []
        for b in self.fn['blocks']:
            t = b['insts'][-1]
            if t['op'] == 'ret' and t['ops']:
                v = self.val(t['ops'][0])
                v = Val(v.cw, [c | self.bctrl.get(b['id'], E) for c in v.cells])
                rets.append(v)
        out = None
        for v in rets:
            out = join(out, v)
        return out

    mem_changed = False

    def data_atoms(self, s):
        return frozenset(a for a in s if a[0] in ('a', 's', 'RX', 'memarg'))

    def store_mem(self, aid, off, v, nbytes, ctrl):
        m = self.mem.setdefault(aid, {})
        if isinstance(off, tuple):
            # element [lane counter] of a local array: remembered per (counter, scale, base); instantiated when the array
            # is read back at a constant offset
            key = ('IV',) + off[1:]
            u = v.all() | ctrl
            m[key] = m.get(key, E) | u
            return
        if off is None:
            u = v.all() | ctrl
            if not u <= m.get('S', E):
                m['S'] = m.get('S', E) | u
                self.mem_changed = True
            return
        cb = max(v.cw // 8, 1)
        bv = recell(v, 8) if v.cw >= 8 else Val(8, [v.all()] * max(nbytes, 1))
        for i in range(nbytes):
            c = (bv.cells[i] if i < len(bv.cells) else v.all()) | ctrl
            m[off + i] = c          # strong update: the state is flow sensitive (joins happen at block entry)

    def load_mem(self, aid, off, nbytes, ty):
        m = self.mem.get(aid, {})
        cw, n, ew = type_cells(ty)
        if isinstance(off, tuple):
            ivid, scale, base = off[1], off[2], off[3]
            u = set(m.get('S', E))
            u |= m.get(('IV', ivid, scale, base), E)
            # bytes written at constant offsets (a whole register stored before the loop): element e is read when the
            # counter equals e, so its own-lane atoms become atoms of the symbolic lane
            offs = [k for k in m if isinstance(k, int)]
            for o_ in offs:
                if o_ < base:
                    continue
                e = (o_ - base) // scale
                if (o_ - base) % scale >= nbytes:
                    continue
                for a in m[o_]:
                    if a[0] == 'a' and a[2] == (e * scale * 8) // self.lane_bits:
                        u.add(('a', a[1], ('iv', ivid)))
                    else:
                        u.add(a)
            for k, c in m.items():
                if isinstance(k, tuple) and k[0] == 'IV' and k != ('IV', ivid, scale, base):
                    u |= c
            return Val(cw, [frozenset(u)] * n)
        if off is None:
            u = set()
            for k, c in m.items():
                u |= c
            return Val(cw, [frozenset(u)] * n)
        bytes_ = []
        for i in range(nbytes):
            c = set(m.get(off + i, E) | m.get('S', E))
            for k, d in m.items():
                if isinstance(k, tuple) and k[0] == 'IV':
                    ivid, scale, base = k[1], k[2], k[3]
                    if off + i >= base:
                        e = (off + i - base) // scale
                        lane = (e * scale * 8) // self.lane_bits
                        c |= set(('a', a[1], lane) if (a[0] == 'a' and a[2] == ('iv', ivid)) else a for a in d)
                    else:
                        c |= d
            bytes_.append(frozenset(c))
        if cw >= 8:
            k = cw // 8
            cells = []
            for i in range(n):
                u = set()
                for c in bytes_[i * k:(i + 1) * k]:
                    u |= c
                cells.append(frozenset(u))
            return Val(cw, cells)
        u = set()
        for c in bytes_:
            u |= c
        return Val(cw, [frozenset(u)] * n)

    # ---- one instruction
    def step(self, inst, bid):
        op = inst['op']
        ty = parse_type(inst['ty'])
        ops = inst.get('ops', [])
        V = self.val
        if op == 'phi':
            cw, n, ew = type_cells(ty)
            if ty.kind == 'int' and ty.bits > 1:
                for inc in inst['incoming']:
                    v0 = self.env.get(inc['v']['id']) if inc['v']['k'] == 'v' else None
                    if v0 is not None and v0.cw == 1 and len(v0.cells) > 1:
                        cw, n = 1, ty.bits          # a k-register carried around a loop: keep one cell per lane bit
            ins = []
            ctl = set()
            for inc in inst['incoming']:
                if inc['v']['k'] == 'v' and inc['v']['id'] not in self.env:
                    continue                      # not computed yet in this round (back edge)
                v = V(inc['v'])
                if cw == 1 and v.cw != 1:
                    v = Val(1, [v.all()] * n)      # a constant k-register
                v = recell(v, cw)
                if len(v.cells) != n:
                    v = Val(cw, list(v.cells[:n]) + [E] * (n - len(v.cells))) if (cw == 1 and v.cw == 1) else Val(cw, [v.all()] * n)
                ins.append(v)
                # which predecessor is taken is decided by the branches the predecessors are control dependent on
                c = self.bctrl.get(inc['bb'], E)
                t = self.blocks[inc['bb']]['insts'][-1]
                if t['op'] == 'br' and len(t['ops']) == 3:
                    c = c | self.data_atoms(V(t['ops'][0]).all())
                ctl |= c
            if not ins:
                return None
            cells, og = [], []
            complete = len(ins) == len(inst['incoming'])
            for j in range(n):
                os_ = set(v.orig[j] for v in ins)
                same = complete and len(os_) == 1 and None not in os_
                d = frozenset().union(*[v.cells[j] for v in ins])
                if same:
                    cells.append(d)               # every predecessor delivers the very same bits: no implicit flow
                    og.append(ins[0].orig[j])
                else:
                    cells.append(d | ctl)
                    og.append(('phi', inst['id'], j))
            return Val(cw, cells, og)
        if op in ('br', 'ret', 'unreachable', 'switch', 'resume'):
            return None
        if op in ('bitcast', 'addrspacecast', 'freeze', 'ptrtoint', 'inttoptr'):
            v = V(ops[0])
            st = self.oty(ops[0])
            cw, n, ew = type_cells(ty)
            if st.kind == 'vec' and st.elem.bits == 1 and ty.kind == 'int':
                return Val(1, v.cells)                     # k-register view: one bit per lane
            if ty.kind == 'vec' and ty.elem.bits == 1 and st.kind == 'int' and v.cw == 1:
                return Val(1, v.cells[:ty.n] if len(v.cells) >= ty.n else [v.all()] * ty.n)
            if v.bits() == cw * n:
                return recell(v, cw)
            return Val(cw, [v.all()] * n)
        if op in ('and', 'or', 'xor'):
            a, b = V(ops[0]), V(ops[1])
            cw, n, ew = type_cells(ty)
            if ty.kind == 'int' and (a.cw == 1 or b.cw == 1) and ty.bits > 1:
                # k-register algebra: bit i of the result depends on bit i of the operands
                aa = a if a.cw == 1 else Val(1, [a.all()] * ty.bits)
                bb = b if b.cw == 1 else Val(1, [b.all()] * ty.bits)
                nn = max(len(aa.cells), len(bb.cells))
                pad = lambda x: list(x.cells) + [E] * (nn - len(x.cells))
                return Val(1, [x | y for x, y in zip(pad(aa), pad(bb))])
            # bitwise: cell by cell
            a, b = recell(a, cw), recell(b, cw)
            if len(a.cells) == n and len(b.cells) == n:
                return Val(cw, [x | y for x, y in zip(a.cells, b.cells)])
            return elementwise(ty, [(a, self.oty(ops[0])), (b, self.oty(ops[1]))])
        if op in ('add', 'sub', 'mul', 'udiv', 'sdiv', 'urem', 'srem', 'shl', 'lshr', 'ashr', 'fadd', 'fsub', 'fmul', 'fdiv', 'frem', 'fneg',
                  'icmp', 'fcmp', 'zext', 'sext', 'trunc', 'sitofp', 'uitofp', 'fptosi', 'fptoui', 'fpext', 'fptrunc'):
            vals = [(V(o), self.oty(o)) for o in ops]
            if op == 'icmp' and ty.kind == 'int' and any(v.cw == 1 and len(v.cells) > 1 and t.kind == 'int' for v, t in vals):
                # test of a k-register / movmsk view against a constant: a whole-batch reduction
                return Val(1, [frozenset([('R', inst['id'])]) | self.escalate(frozenset(a for v, t in vals for a in v.all() if a[0] != 'a'))])
            vals = [(self.demote_markers(v), t) for v, t in vals] if op not in ('icmp', 'zext', 'sext', 'trunc') else vals
            return elementwise(ty, vals)
        if op == 'select':
            c, a, b = V(ops[0]), V(ops[1]), V(ops[2])
            ct = self.oty(ops[0])
            r = elementwise(ty, [(a, self.oty(ops[1])), (b, self.oty(ops[2]))]) if ty.kind != 'vec' or True else None
            # keep cell-exactness for the data arms
            cw, n, ew = type_cells(ty)
            if ty.kind == 'int' and ty.bits > 1 and (a.cw == 1 or b.cw == 1):
                cw, n = 1, ty.bits
                a = a if a.cw == 1 else Val(1, [a.all()] * n)
                b = b if b.cw == 1 else Val(1, [b.all()] * n)
                a = Val(1, list(a.cells[:n]) + [E] * (n - len(a.cells)))
                b = Val(1, list(b.cells[:n]) + [E] * (n - len(b.cells)))
            a2, b2 = recell(a, cw), recell(b, cw)
            if len(a2.cells) == n and len(b2.cells) == n:
                r = Val(cw, [x | y for x, y in zip(a2.cells, b2.cells)])
            if ct.kind == 'vec':
                ne = ct.n
                k = n // ne
                cc = c.cells if len(c.cells) == ne else [c.all()] * ne
                return Val(cw, [r.cells[i] | cc[i // k] for i in range(n)])
            # scalar condition: a whole-batch reduction may select between whole vectors (tier selection, the data-flow
            # form of a branch): only the DATA atoms of the condition become dependences of the result
            ca = self.data_atoms(c.all())
            return Val(cw, [x | ca for x in r.cells])
        if op == 'shufflevector':
            a, b = V(ops[0]), V(ops[1])
            st = self.oty(ops[0])
            cw, n, ew = type_cells(ty)
            k = max(ew // cw, 1)
            a, b = recell(a, cw), recell(b, cw)
            out, og = [], []
            for m in inst['mask']:
                if m < 0:
                    out.extend([E] * k)
                    og.extend([('undef',)] * k)
                elif m < st.n:
                    out.extend(a.cells[m * k:(m + 1) * k])
                    og.extend(a.orig[m * k:(m + 1) * k])
                else:
                    out.extend(b.cells[(m - st.n) * k:(m - st.n + 1) * k])
                    og.extend(b.orig[(m - st.n) * k:(m - st.n + 1) * k])
            return Val(cw, out, og)
        if op == 'extractelement':
            v = V(ops[0])
            st = self.oty(ops[0])
            cw, n, ew = type_cells(ty)
            idx = ops[1]
            sv = recell(v, type_cells(st)[0])
            k = len(sv.cells) // st.n
            if idx['k'] == 'c' and 'int' in idx:
                i = int(idx['int'])
                if i < st.n:
                    return recell(Val(sv.cw, sv.cells[i * k:(i + 1) * k]), cw) if sv.cw * k == cw * n else Val(cw, [frozenset().union(*sv.cells[i * k:(i + 1) * k])] * n)
            u = v.all() | self.demote_markers(V(idx)).all()
            return Val(cw, [u] * n)
        if op == 'insertelement':
            v, x = V(ops[0]), V(ops[1])
            cw, n, ew = type_cells(ty)
            k = n // ty.n
            sv = recell(v, cw)
            cells = list(sv.cells) if len(sv.cells) == n else [v.all()] * n
            og = list(sv.orig) if len(sv.cells) == n else [None] * n
            idx = ops[2]
            if idx['k'] == 'c' and 'int' in idx:
                i = int(idx['int'])
                xa = x.all()
                for j in range(k):
                    if i * k + j < n:
                        cells[i * k + j] = xa
                        og[i * k + j] = ('ins', inst['id'], j)
                return Val(cw, cells, og)
            u = x.all() | self.demote_markers(V(idx)).all()
            return Val(cw, [c | u for c in cells])
        if op in ('extractvalue', 'insertvalue'):
            u = set()
            for o in ops:
                u |= V(o).all()
            return uniform(ty, frozenset(u))
        if op == 'alloca':
            return Val(64, [frozenset([('al', inst['id'], 0)])])
        if op == 'getelementptr':
            p = V(ops[0])
            out = set()
            var = bool(inst.get('voff')) or 'coff' not in inst
            extra = set()
            for o in ops[1:]:
                extra |= self.data_atoms(V(o).all())
            ivform = None
            vo = inst.get('voff') or []
            if 'coff' in inst and len(vo) == 1 and vo[0]['v']['k'] == 'v' and vo[0]['v']['id'] in self.ivs and vo[0]['scale'] > 0:
                ivform = (vo[0]['v']['id'], vo[0]['scale'])
            for a in p.all():
                if a[0] == 'al':
                    if ivform and isinstance(a[2], int):
                        out.add(('al', a[1], ('iv', ivform[0], ivform[1], a[2] + inst['coff'])))
                    else:
                        out.add(('al', a[1], None if (var or not isinstance(a[2], int)) else a[2] + inst['coff']))
                else:
                    out.add(a)
            if ivform:
                extra = set()          # the index is the lane counter, not data
            return Val(64, [frozenset(out | extra)])
        if op == 'load':
            p = V(ops[0])
            nbytes = inst.get('bytes', max(ty.bits // 8, 1))
            out = None
            other = set()
            for a in p.all():
                if a[0] == 'al':
                    out = join(out, self.load_mem(a[1], a[2], nbytes, ty))
                elif a[0] == 'p':
                    cw, n, ew = type_cells(ty)
                    if ty.kind == 'vec':
                        W = self.lane_bits
                        out = join(out, Val(cw, [frozenset([('a', a[1], (j * cw) // W)]) for j in range(n)], [('arg', a[1], j) for j in range(n)]))
                    else:
                        out = join(out, uniform(ty, frozenset([('memarg', a[1])])))
                elif a[0] in ('a', 's', 'RX', 'memarg'):
                    other.add(a)           # address depends on data: so does the loaded value
            if out is None:
                out = uniform(ty)          # constant tables / globals
            if other:
                out = Val(out.cw, [c | other for c in out.cells])
            return out
        if op == 'store':
            v, p = V(ops[0]), V(ops[1])
            v = self.demote_markers(v)
            nbytes = inst.get('bytes', 1)
            ctrl = self.bctrl.get(bid, E)
            addr_data = self.data_atoms(p.all())
            for a in p.all():
                if a[0] == 'al':
                    self.store_mem(a[1], a[2], Val(v.cw, [c | addr_data for c in v.cells]), nbytes, ctrl)
            return None
        if op in ('call', 'invoke'):
            return self.call(inst, ty, ops, bid)
        if op == 'landingpad':
            return uniform(ty)
        raise ValueError('opcode %s' % op)

    def demote_markers(self, v):
        """a whole-batch reduction result used as DATA: it carries information from every lane"""
        if not any(a[0] == 'R' for c in v.cells for a in c):
            return v
        return Val(v.cw, [frozenset(('RX', a[1]) if a[0] == 'R' else a for a in c) for c in v.cells])

    def escalate(self, s):
        return frozenset(s)

    def call(self, inst, ty, ops, bid):
        name = inst.get('callee') or ''
        V = self.val
        if name.startswith('llvm.lifetime.start'):
            # the local's content is undefined from here on: everything stored before is dead
            for a in V(ops[1]).all():
                if a[0] == 'al':
                    self.mem[a[1]] = {}
            return None
        if name.startswith(IGNORE_CALLS):
            return None
        vals = [(V(o), self.oty(o)) for o in ops]
        ctrl = self.bctrl.get(bid, E)
        if REDUCE_CALLS.match(name):
            return Val(1, [frozenset([('R', inst['id'])])]) if ty.bits == 1 else uniform(ty, frozenset([('R', inst['id'])]))
        if MOVMSK_CALLS.match(name):
            v, t = vals[0]
            ne = t.n
            k = len(v.cells) // ne
            bits = [frozenset().union(*v.cells[e * k:(e + 1) * k]) for e in range(ne)]
            return Val(1, bits + [E] * (ty.bits - ne))
        if name.startswith('llvm.masked.load'):
            return self.step({'op': 'load', 'id': inst['id'], 'ty': inst['ty'], 'ops': [ops[0]], 'bytes': ty.bits // 8}, bid)
        if name.startswith(('llvm.memset', 'llvm.memcpy', 'llvm.memmove')):
            dst = V(ops[0])
            srcv = None
            if not name.startswith('llvm.memset'):
                sp = V(ops[1])
                for a in sp.all():
                    if a[0] == 'al':
                        m = self.mem.get(a[1], {})
                        u = set()
                        for c in m.values():
                            u |= c
                        srcv = frozenset(u)
            for a in dst.all():
                if a[0] == 'al':
                    self.store_mem(a[1], None, Val(32, [srcv or E]), 0, ctrl)
            return None
        if name == 'llvm.x86.sse2.cvtpd2ps':
            v, t = vals[0]        # <2 x double> -> <4 x float>: lanes 0,1 converted, lanes 2,3 zero
            k = len(v.cells) // 2
            return Val(32, [frozenset().union(*v.cells[0:k]), frozenset().union(*v.cells[k:2 * k]), E, E])
        if ELEMWISE_CALLS.match(name):
            vals2 = []
            for (v, t) in vals:
                if t.kind == 'vec' or (t.kind == 'int' and v.cw == 1 and len(v.cells) > 1):
                    vals2.append((self.demote_markers(v) if t.kind == 'vec' else v, t))
                # immediates / rounding controls are constants
            if ty.kind != 'vec':
                return elementwise(ty, vals)
            return elementwise(ty, vals2)
        fn = self.m.functions.get(name)
        if fn is not None and not fn.get('decl') and name in self.summaries:
            s = self.summaries[name]
            # substitute: callee output cell deps are atoms over its own arguments
            cw, n, ew = type_cells(ty)
            out = []
            src = {}
            for i, (v, t) in enumerate(vals):
                src[i] = (v, t)
            if s.out is None:
                return uniform(ty)
            res = recell(s.out, cw) if s.out.bits() == cw * n else Val(cw, [s.out.all()] * n)
            cells = []
            for c in res.cells:
                u = set(ctrl)
                for a in c:
                    if a[0] == 'a' and a[1] in src:
                        v, t = src[a[1]]
                        if t.kind == 'ptr':
                            # lane a[2] of the batch the pointer refers to
                            for pa in v.all():
                                if pa[0] == 'al':
                                    sub = self.load_mem(pa[1], pa[2], self.fn_arg_bytes(fn, a[1]), self.fn_arg_vec(fn, a[1]))
                                    ne = self.fn_arg_vec(fn, a[1]).n
                                    k = len(sub.cells) // ne
                                    u |= frozenset().union(*sub.cells[a[2] * k:(a[2] + 1) * k])
                                elif pa[0] == 'p':
                                    u.add(('a', pa[1], a[2]))
                        elif t.kind == 'vec':
                            k = len(v.cells) // t.n
                            u |= frozenset().union(*v.cells[a[2] * k:(a[2] + 1) * k])
                        else:
                            u |= v.all()
                    elif a[0] in ('s', 'memarg') and a[1] in src:
                        u |= src[a[1]][0].all()
                    else:
                        u.add(a)
                cells.append(frozenset(u))
            return Val(cw, cells)
        # scalar helper (libm or defined scalar function): result and every pointed-to local depend on all scalar arguments
        if all(t.kind != 'vec' for (v, t) in vals) and ty.kind != 'vec':
            u = set(ctrl)
            for (v, t) in vals:
                for a in v.all():
                    if a[0] == 'al':
                        m = self.mem.get(a[1], {})
                        for c in m.values():
                            u |= c
                    else:
                        u.add(a)
            u = frozenset(self.data_atoms(u) | frozenset(a for a in u if a[0] == 'R'))
            u = self.demote_markers(Val(32, [u])).cells[0]
            for (v, t) in vals:
                for a in v.all():
                    if a[0] == 'al':
                        self.store_mem(a[1], None, Val(32, [u]), 0, E)
            if name not in PURE_SCALAR_CALLS and not (fn is not None and not fn.get('decl')):
                self.unknown_calls.add(name)
            return uniform(ty, u) if ty.kind != 'void' else None
        # unknown vector call: every output cell depends on everything
        self.unknown_calls.add(name or 'indirect')
        u = set(ctrl)
        for (v, t) in vals:
            u |= v.all()
        u = frozenset(('a', a[1], '*') if a[0] == 'a' else a for a in u)
        return uniform(ty, u) if ty.kind != 'void' else None

    def fn_arg_vec(self, fn, i):
        pt = fn['args'][i].get('pointee', '')
        # batch<T,A> is a class wrapping one vector: find the vector type loaded from the argument
        for b in fn['blocks']:
            for ins in b['insts']:
                if ins['op'] == 'load':
                    t = parse_type(ins['ty'])
                    if t.kind == 'vec':
                        return t
        return parse_type('<4 x float>')

    def fn_arg_bytes(self, fn, i):
        return self.fn_arg_vec(fn, i).bits // 8


def lane_report(fn, out):
    """per output element: the set of offending atoms (atoms of another lane / reduction results used as data /
    unknown sources); returns (ok, list of (lane, offending atoms))"""
    rt = parse_type(fn['ret'])
    if out is None or rt.kind != 'vec':
        return True, []
    ne = rt.n
    k = len(out.cells) // ne
    bad = []
    for e in range(ne):
        u = frozenset().union(*out.cells[e * k:(e + 1) * k])
        off = [a for a in u if (a[0] == 'a' and a[2] != e) or a[0] in ('RX',)]
        if off:
            bad.append((e, sorted(off, key=repr)[:6]))
    return not bad, bad
