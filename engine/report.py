"""Verdict protocol shared by all checks (DESIGN 2.3):
   exit 0 holds / exit 1 VIOLATION lines / exit 2 analysis broken.
   Known findings come from /verif/known_findings.json (never written at run time)."""
import json
import os
import sys
import time

ROOT = os.path.dirname(os.path.dirname(os.path.abspath(__file__)))
# development only (seeded-change runs): write evidence and replay files elsewhere so that /verif/evidence always comes from /repo
SCRATCH = os.environ.get('VERIF_SCRATCH') or ROOT


def load_known(pid):
    p = os.path.join(ROOT, 'known_findings.json')
    if not os.path.exists(p):
        return []
    d = json.load(open(p))
    return [e for e in d.get('findings', []) if e['property'] == pid and e.get('status', 'open') == 'open']


def load_decided():
    p = os.path.join(ROOT, 'catalogue', 'decided.json')
    if not os.path.exists(p):
        return {}
    return json.load(open(p))


class Run(object):
    def __init__(self, pid, tier, level):
        self.pid, self.tier, self.level = pid, tier, level
        self.t0 = time.time()
        self.seed = int(os.environ.get('VERIF_SEED', '0') or 0)
        self.violations = []
        self.known_hits = []
        self.broken = []
        self.known = load_known(pid)
        self.outdir = os.path.join(SCRATCH, 'out', pid)
        os.makedirs(self.outdir, exist_ok=True)
        for f in os.listdir(self.outdir):
            if f.endswith('.json'):
                os.unlink(os.path.join(self.outdir, f))

    def violation(self, key, what, detail):
        """key: stable identity of the failing obligation (matched against known findings by prefix)"""
        for k in self.known:
            if key_matches(k['key'], key):
                self.known_hits.append((k, key, what))
                return
        self.violations.append((key, what, detail))

    def broke(self, why):
        self.broken.append(why)

    def finish(self, coverage, assumptions):
        wall = time.time() - self.t0
        seen = set()
        for (k, key, what) in self.known_hits:
            if k['key'] in seen:
                continue
            seen.add(k['key'])
            n = sum(1 for x in self.known_hits if x[0]['key'] == k['key'])
            print('KNOWN-FINDING: property=%s %s (%d obligations; %s)' % (self.pid, k['what'], n, k['key']))
        paths = []
        for i, (key, what, detail) in enumerate(self.violations[:200]):
            p = os.path.join(self.outdir, '%d.json' % i)
            d = dict(detail)
            d.update(property=self.pid, key=key, what=what,
                     replay_cmd='python3 /verif/check.py %s --replay %s' % (self.pid, p))
            with open(p, 'w') as f:
                json.dump(d, f, indent=1, default=str)
            paths.append(p)
            if i < 12:
                print('VIOLATION property=%s replay=%s' % (self.pid, p))
                print('   %s: %s' % (key, what))
        if len(self.violations) > 12:
            print('   ... %d violations in total (first 200 written to %s)' % (len(self.violations), self.outdir))
        ev = {
            'property_id': self.pid, 'tier': self.tier, 'seed': self.seed, 'level': self.level,
            'coverage': coverage, 'assumptions': assumptions, 'wall_s': round(wall, 2),
            'violations': len(self.violations),
        }
        os.makedirs(os.path.join(SCRATCH, 'evidence'), exist_ok=True)
        with open(os.path.join(SCRATCH, 'evidence', self.pid + '.json'), 'w') as f:
            json.dump(ev, f, indent=1, default=str)
        if self.broken:
            for b in self.broken[:20]:
                print('ANALYSIS-BROKEN property=%s %s' % (self.pid, b))
            return 2
        if self.violations:
            return 1
        print('OK property=%s tier=%s %s wall=%.1fs' % (self.pid, self.tier, summary(coverage), wall))
        return 0


def summary(cov):
    keys = ('obligations', 'discharged', 'evaluations', 'distinct_nontrivial', 'undecided')
    return ' '.join('%s=%s' % (k, cov[k]) for k in keys if k in cov)


def key_matches(pattern, key):
    """pattern segments separated by '|'; '*' matches any segment"""
    ps, ks = pattern.split('|'), key.split('|')
    if len(ps) > len(ks):
        return False
    for p, k in zip(ps, ks):
        if p != '*' and p != k and not (p.endswith('*') and k.startswith(p[:-1])):
            return False
    return True
