"""CFG utilities over the xir JSON: successors, dominators, natural loops (header, body, latches, exits)."""
from collections import defaultdict


def successors(fn):
    succ = {}
    for b in fn['blocks']:
        t = b['insts'][-1]
        op = t['op']
        s = []
        if op == 'br':
            ops = t['ops']
            s = [ops[0]['id']] if len(ops) == 1 else [ops[2]['id'], ops[1]['id']]   # (true dest, false dest)
        elif op == 'switch':
            s = [t['default']] + [c['bb'] for c in t['cases']]
        elif op == 'invoke':
            s = [t['normal'], t['unwind']]
        elif op in ('ret', 'unreachable', 'resume'):
            s = []
        else:
            raise ValueError('terminator %s' % op)
        succ[b['id']] = s
    return succ


def dominators(fn, succ):
    entry = fn['blocks'][0]['id']
    order = []
    seen = set()

    def dfs(u):
        stack = [(u, iter(succ[u]))]
        seen.add(u)
        while stack:
            node, it = stack[-1]
            adv = False
            for v in it:
                if v not in seen:
                    seen.add(v)
                    stack.append((v, iter(succ[v])))
                    adv = True
                    break
            if not adv:
                order.append(node)
                stack.pop()
    dfs(entry)
    rpo = order[::-1]
    idx = dict((b, i) for i, b in enumerate(rpo))
    pred = defaultdict(list)
    for u in rpo:
        for v in succ[u]:
            if v in idx:
                pred[v].append(u)
    idom = {entry: entry}
    changed = True
    while changed:
        changed = False
        for b in rpo[1:]:
            ps = [p for p in pred[b] if p in idom]
            if not ps:
                continue
            new = ps[0]
            for p in ps[1:]:
                a, c = p, new
                while a != c:
                    while idx[a] > idx[c]:
                        a = idom[a]
                    while idx[c] > idx[a]:
                        c = idom[c]
                new = a
            if idom.get(b) != new:
                idom[b] = new
                changed = True
    return idom, rpo, pred


def dominates(idom, a, b):
    while True:
        if a == b:
            return True
        if idom.get(b) == b or b not in idom:
            return False
        b = idom[b]


class Loop(object):
    def __init__(self, header):
        self.header = header
        self.blocks = set([header])
        self.latches = []
        self.exits = []      # (from block, to block)
        self.parent = None
        self.children = []

    @property
    def depth(self):
        d, p = 1, self.parent
        while p is not None:
            d, p = d + 1, p.parent
        return d


def natural_loops(fn):
    """returns (loops, irreducible) -- loops: list of Loop sorted outer-first; irreducible: True if some cycle has no
    dominating header (then the caller must treat the function as not analysable)"""
    succ = successors(fn)
    idom, rpo, pred = dominators(fn, succ)
    loops = {}
    for u in rpo:
        for v in succ[u]:
            if v in idom and dominates(idom, v, u):
                lp = loops.setdefault(v, Loop(v))
                lp.latches.append(u)
                stack = [u]
                while stack:
                    x = stack.pop()
                    if x in lp.blocks:
                        continue
                    lp.blocks.add(x)
                    stack.extend(pred[x])
    # irreducibility: any cycle left after removing back edges
    back = set((u, lp.header) for lp in loops.values() for u in lp.latches)
    color = {}
    irreducible = False
    for s in rpo:
        if s in color:
            continue
        stack = [(s, iter(succ[s]))]
        color[s] = 1
        while stack:
            node, it = stack[-1]
            adv = False
            for v in it:
                if (node, v) in back or v not in idom:
                    continue
                if color.get(v) == 1:
                    irreducible = True
                elif v not in color:
                    color[v] = 1
                    stack.append((v, iter(succ[v])))
                    adv = True
                    break
            if not adv:
                color[node] = 2
                stack.pop()
    ls = sorted(loops.values(), key=lambda l: -len(l.blocks))
    for i, l in enumerate(ls):
        for outer in ls[:i][::-1]:
            if l.header in outer.blocks and l is not outer and l.blocks <= outer.blocks:
                l.parent = outer
                outer.children.append(l)
                break
    for l in ls:
        for b in l.blocks:
            for v in succ[b]:
                if v not in l.blocks:
                    l.exits.append((b, v))
    return ls, irreducible, succ, idom
