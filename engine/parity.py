"""Parity abstract interpretation (C12 symmetry clause): how does each value change, bit for bit, when the tracked
argument x is replaced by -x (every lane negated)?

   E   unchanged                                  EP  unchanged and its sign bit is 0 (|.|, positive constants)
   O   only the sign bit of each lane flips       OS  only the sign bit can be set, and it flips (x & SIGN)
   OI  two's-complement negation (integer)        ME  lane mask unchanged         MT / T  unknown
Sign algebra used (exact in IEEE-754 round-to-nearest, which is symmetric): (-a)*b = -(a*b); (-a)+(-b) = -(a+b) -- the
latter except when a+b cancels exactly (both sums are +0; recorded as an assumption); |.| maps O to E; xor/or with a
sign word moves parity; round-to-nearest / truncation commute with negation, floor / ceil do not.  A whole-batch branch
must be on an unchanged mask.  Nothing is executed.
"""
import re

from . import cfg as CFG
from .ir import parse_type

ORDER = {'EP': 0, 'E': 1}


def join(a, b):
    if a is None:
        return b
    if b is None:
        return a
    if a == b:
        return a
    # a NaN constant is absorbed: where the result is that NaN for x it is the same NaN for -x (NaN results carry no sign)
    if a == 'QN' and b in ('E', 'EP', 'O', 'OS'):
        return b
    if b == 'QN' and a in ('E', 'EP', 'O', 'OS'):
        return a
    s = set([a, b])
    if s <= set(['E', 'EP']):
        return 'E'
    if s <= set(['O', 'OS']):
        return 'O'
    if s <= set(['ME', 'E', 'EP']):
        return 'E'            # an unchanged mask joined with an unchanged value: unchanged
    if s & set(['ME', 'MT']) and s <= set(['ME', 'MT']):
        return 'MT'
    return 'T'


EV = ('E', 'EP')


class Parity(object):
    def __init__(self, module, fn, argidx=0):
        self.m = module
        self.fn = fn
        self.blocks = dict((b['id'], b) for b in fn['blocks'])
        self.argidx = argidx
        self.env = {}
        self.mem = {}
        self.bad_branch = None
        self.succ = CFG.successors(fn)

    def const(self, c):
        ty = parse_type(c['ty'])
        et = ty.elem if ty.kind == 'vec' else ty
        if et.bits == 1:
            return 'ME'
        if 'fpbits' in c:
            b = int(c['fpbits'])
            expo = (b >> 23) & 0xff if et.bits == 32 else (b >> 52) & 0x7ff
            mant = b & ((1 << 23) - 1) if et.bits == 32 else b & ((1 << 52) - 1)
            if expo == (0xff if et.bits == 32 else 0x7ff) and mant:
                return 'QN'
            return 'EP' if not (b >> (et.bits - 1)) else 'E'
        if 'zero' in c:
            return 'EP'
        if 'int' in c:
            v = int(c['int'])
            return 'EP' if not (v >> (et.bits - 1)) else 'E'
        if 'elems' in c:
            out = None
            for e in c['elems']:
                out = join(out, self.const(e))
            return out
        return 'E'

    def is_fzero(self, c):
        if 'zero' in c:
            return True
        if 'fpbits' in c:
            ty = parse_type(c['ty'])
            et = ty.elem if ty.kind == 'vec' else ty
            return (int(c['fpbits']) & ((1 << (et.bits - 1)) - 1)) == 0
        if 'elems' in c:
            return all(self.is_fzero(e) for e in c['elems'])
        return False

    def val(self, o):
        k = o['k']
        if k == 'v':
            return self.env.get(o['id'])
        if k == 'a':
            if o['i'] == self.argidx:
                ty = parse_type(self.fn['args'][o['i']]['ty'])
                return 'O' if ty.kind == 'vec' else 'T'
            return 'T'
        if k == 'c':
            return self.const(o)
        return 'T'

    def cint(self, o):
        if o['k'] == 'c':
            if 'int' in o:
                return int(o['int'])
            if 'elems' in o:
                vs = [self.cint(e) for e in o['elems']]
                if vs and all(v == vs[0] and v is not None for v in vs):
                    return vs[0]
            if 'zero' in o:
                return 0
        return None

    def run(self):
        idom, order, preds = CFG.dominators(self.fn, self.succ)
        for it in range(50):
            changed = False
            for b in order:
                for inst in self.blocks[b]['insts']:
                    new = self.step(inst)
                    if new is None:
                        continue
                    old = self.env.get(inst['id'])
                    j = join(old, new)
                    if j != old:
                        self.env[inst['id']] = j
                        changed = True
            if not changed:
                break
        # every conditional branch must be invariant under the negation
        for b in self.fn['blocks']:
            t = b['insts'][-1]
            if t['op'] == 'br' and len(t['ops']) == 3:
                c = self.val(t['ops'][0])
                if c not in ('ME', 'E', 'EP'):
                    return 'T (branch on a condition that is not invariant under x -> -x)'
            if t['op'] == 'switch':
                if self.val(t['cond']) not in EV:
                    return 'T (switch on a non-invariant value)'
        out = None
        for b in self.fn['blocks']:
            t = b['insts'][-1]
            if t['op'] == 'ret' and t['ops']:
                out = join(out, self.val(t['ops'][0]))
        if out in EV:
            return 'E'
        if out in ('O', 'OS'):
            return 'O'
        return out if out != 'QN' else 'T'

    def step(self, inst):
        op = inst['op']
        ty = parse_type(inst['ty'])
        ops = inst.get('ops', [])
        V = self.val
        et = ty.elem if ty.kind == 'vec' else ty
        if op == 'phi':
            out = None
            for inc in inst['incoming']:
                v = V(inc['v'])
                if v is None:
                    continue
                out = join(out, v)
            return out
        if op in ('br', 'ret', 'unreachable', 'switch', 'resume'):
            return None
        vs = [V(o) for o in ops]
        if any(v is None for v in vs) and op not in ('store',):
            return None
        if op not in ('select', 'bitcast', 'freeze', 'store', 'shufflevector', 'insertelement', 'extractelement'):
            vs = ['E' if v == 'QN' else v for v in vs]         # elsewhere a NaN constant is just an unchanged value
        if op in ('fadd', 'fsub'):
            a, b = vs
            if a in EV and b in EV:
                return 'E'
            if a in ('O', 'OS') and b in ('O', 'OS'):
                return 'O'
            return 'T'
        if op in ('fmul', 'fdiv'):
            a, b = vs
            if a in EV and b in EV:
                return 'EP' if (a == 'EP' and b == 'EP') else 'E'
            if (a in EV and b in ('O', 'OS')) or (b in EV and a in ('O', 'OS')):
                return 'O'
            if a in ('O', 'OS') and b in ('O', 'OS'):
                return 'E'
            return 'T'
        if op == 'fneg':
            return {'EP': 'E', 'E': 'E', 'O': 'O', 'OS': 'O'}.get(vs[0], 'T')
        if op == 'fcmp':
            if vs[0] in EV and vs[1] in EV:
                return 'ME'
            SYM = EV + ('O', 'OS')
            # NaN-ness does not depend on the sign; neither does equality with zero
            if inst['pred'] in ('uno', 'ord') and vs[0] in SYM and vs[1] in SYM:
                return 'ME'
            if inst['pred'] in ('oeq', 'une', 'one', 'ueq'):
                for (x, k) in ((vs[0], ops[1]), (vs[1], ops[0])):
                    if x in SYM and k['k'] == 'c' and self.is_fzero(k):
                        return 'ME'
            return 'MT'
        if op == 'icmp':
            return 'ME' if all(v in EV + ('ME',) for v in vs) else 'MT'
        if op == 'select':
            c, a, b = vs
            if a == b:
                return a
            if c in ('ME',) or c in EV:
                return join(a, b)
            return 'T'
        if op in ('bitcast', 'freeze', 'sext', 'zext', 'trunc'):
            v = vs[0]
            if op in ('zext', 'trunc') and v in ('O', 'OS', 'OI'):
                return 'T'
            if op == 'sext' and v == 'ME':
                return 'ME'
            if op == 'zext' and v == 'ME':
                return 'E'
            if op == 'trunc' and v == 'EP':
                return 'E'
            return v
        if op in ('and', 'or', 'xor'):
            a, b = vs
            W = et.bits
            ca, cb = self.cint(ops[0]), self.cint(ops[1])
            for (x, c) in ((a, cb), (b, ca)):
                if c is None:
                    continue

                def packed(pat, w_):
                    v = 0
                    for j in range(max(W // w_, 1)):
                        v |= pat << (j * w_)
                    return v
                for w_ in (32, 64):
                    if W % w_ and W != w_:
                        continue
                    sign = 1 << (w_ - 1)
                    if op == 'and' and c == packed(sign - 1, w_) and x in ('O', 'OS', 'E', 'EP'):
                        return 'EP'
                    if op == 'and' and c == packed(sign, w_) and x in ('O', 'OS'):
                        return 'OS'
                    if op == 'and' and c == packed(sign, w_) and x in EV:
                        return 'E'
                    if op in ('xor', 'or') and c == packed(sign, w_) and x in ('O', 'OS', 'E', 'EP'):
                        return 'O' if x in ('O', 'OS') and op == 'xor' else ('E' if x in EV else 'T')
                if x in EV:
                    return 'E' if not (op == 'and' and not (c >> (W - 1))) else 'EP'
                if x == 'ME':
                    return 'ME'
                if x == 'OI' and op == 'and' and c == 1:
                    return 'EP'
                if x in ('O', 'OS') and op == 'and' and not any((c >> (w_ * j + w_ - 1)) & 1 for w_ in (32,) for j in range(W // 32)):
                    return 'T'
            if a in EV and b in EV:
                return 'E'
            if a == 'ME' and b == 'ME':
                return 'ME'
            if set([a, b]) <= set(['ME', 'MT']):
                return 'MT'
            if op == 'xor':
                if a in ('O', 'OS') and b in ('O', 'OS'):
                    return 'E'
                if (a in EV and b in ('O', 'OS')) or (b in EV and a in ('O', 'OS')):
                    return 'O'
            if op == 'or':
                if (a == 'EP' and b == 'OS') or (b == 'EP' and a == 'OS'):
                    return 'O'
            # masks applied to data (all-ones / zero lanes): and(ME-as-vector, v) keeps v's parity
            return 'T'
        if op in ('add', 'sub', 'mul', 'shl', 'lshr', 'ashr', 'udiv', 'sdiv', 'urem', 'srem'):
            if all(v in EV for v in vs):
                return 'E'
            return 'T'
        if op in ('sitofp', 'uitofp'):
            return 'E' if vs[0] in EV else ('O' if (vs[0] == 'OI' and op == 'sitofp') else 'T')
        if op in ('fptosi', 'fptoui'):
            return 'E' if vs[0] in EV else ('OI' if (vs[0] in ('O',) and op == 'fptosi') else 'T')
        if op in ('fpext', 'fptrunc'):
            return vs[0] if vs[0] in ('E', 'EP', 'O') else 'T'
        if op in ('shufflevector', 'extractelement', 'insertelement'):
            out = None
            for o, v in zip(ops, vs):
                if op == 'shufflevector' and o['k'] == 'c' and ('undef' in o or 'poison' in o):
                    continue
                if op in ('extractelement', 'insertelement') and o is ops[-1]:
                    if v not in EV:
                        return 'T'
                    continue
                out = join(out, v)
            return out
        if op == 'alloca':
            return 'E'
        if op == 'getelementptr':
            return 'E' if all(v in EV for v in vs) else 'T'
        if op == 'load':
            p = ops[0]
            if p['k'] == 'v':
                base = self.base_alloca(p['id'])
                if base is not None:
                    return self.mem.get(base, 'E')
            return 'E' if vs[0] in EV else 'T'       # constant tables indexed by an invariant value
        if op == 'store':
            p = ops[1]
            if p['k'] == 'v':
                base = self.base_alloca(p['id'])
                if base is not None and vs[0] is not None:
                    self.mem[base] = join(self.mem.get(base), vs[0])
            return None
        if op in ('call', 'invoke'):
            return self.call(inst, ty, ops, vs)
        if op in ('extractvalue', 'insertvalue'):
            return join(*[v for v in vs]) if len(vs) == 2 else vs[0]
        return 'T'

    def base_alloca(self, iid, depth=0):
        if depth > 8:
            return None
        i = self.fn['insts'].get(iid)
        if i is None:
            return None
        if i['op'] == 'alloca':
            return iid
        if i['op'] in ('getelementptr', 'bitcast') and i['ops'][0]['k'] == 'v':
            return self.base_alloca(i['ops'][0]['id'], depth + 1)
        return None

    def call(self, inst, ty, ops, vs):
        name = inst.get('callee') or ''
        if name.startswith(('llvm.lifetime', 'llvm.dbg', 'llvm.assume')):
            return None
        a = vs[0] if vs else 'E'
        if name.startswith('llvm.fabs'):
            return 'EP' if a in ('E', 'EP', 'O', 'OS') else 'T'
        if name.startswith('llvm.copysign'):
            s = vs[1]
            if s in ('O', 'OS'):
                return 'O' if a in ('E', 'EP', 'O', 'OS') else 'T'
            if s in EV:
                return 'E' if a in ('E', 'EP', 'O', 'OS') else 'T'
            return 'T'
        if name.startswith(('llvm.fma', 'llvm.fmuladd')):
            x, y, z = vs
            prod = 'E' if ((x in EV and y in EV) or (x in ('O', 'OS') and y in ('O', 'OS'))) else ('O' if ((x in EV and y in ('O', 'OS')) or (y in EV and x in ('O', 'OS'))) else 'T')
            if prod == 'E' and z in EV:
                return 'E'
            if prod == 'O' and z in ('O', 'OS'):
                return 'O'
            return 'T'
        if name.startswith('llvm.sqrt') or re.match(r'^llvm\.x86\..*sqrt', name):
            return 'E' if a in EV else 'T'
        m = re.match(r'^llvm\.(floor|ceil|trunc|rint|nearbyint|round|roundeven)\b', name)
        if m:
            k = m.group(1)
            if a in EV:
                return 'E'
            return 'O' if (a in ('O', 'OS') and k in ('trunc', 'rint', 'nearbyint', 'round', 'roundeven')) else 'T'
        if re.match(r'^llvm\.x86\.(sse41|avx)\.round\.|^llvm\.x86\.avx512\.mask\.rndscale', name):
            imm = self.cint(ops[1])
            if a in EV:
                return 'E'
            if a in ('O', 'OS') and imm is not None and (imm & 7) in (0, 3, 4, 8, 11, 12) and all(v in EV + ('O', 'OS', 'ME') for v in vs[2:3]):
                return 'O'
            return 'T'
        if re.match(r'^llvm\.x86\.(sse2|avx|avx512)\.(mask\.)?(cvttps2dq|cvtt\.ps2dq|cvtps2dq|cvt\.ps2dq)', name):
            return 'E' if a in EV else ('OI' if a == 'O' else 'T')
        if 'blendv' in name:
            x, y, mk = vs
            if x == y:
                return x
            return join(x, y) if mk in ('ME',) + EV else 'T'
        if re.match(r'^llvm\.x86\.(sse41|avx)\.(ptest|vtest)|^llvm\.vector\.reduce\.', name) or 'movmsk' in name:
            return 'ME' if all(v in ('ME',) + EV for v in vs) else 'MT'
        if name.startswith('llvm.mem'):
            return None
        # any other call: a pure function of invariant arguments is invariant
        if all(v in EV + ('ME',) for v in vs):
            for o in ops:
                if o['k'] == 'v':
                    b = self.base_alloca(o['id'])
                    if b is not None:
                        self.mem[b] = join(self.mem.get(b), 'E')
            return 'E' if ty.kind != 'void' else None
        for o in ops:
            if o['k'] == 'v':
                b = self.base_alloca(o['id'])
                if b is not None:
                    self.mem[b] = 'T'
        return 'T' if ty.kind != 'void' else None
