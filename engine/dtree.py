"""Decision-tree normal form of a lane term over its comparison conditions.

Two terms that differ only in how a compiler / an architecture expresses the same nest of selects (blend instruction,
and/andnot/or on a replicated mask, negated condition with swapped arms, `c ? x - 1 : x + 1` folded into
`x + (c ? -1 : 1)`) have the same tree: the term is Shannon-expanded over every one-bit comparison it contains (a
comparison and its logical negation count as one condition), in a canonical order, and the leaves -- comparison-free
terms -- are re-canonicalised by the ordinary constructors.  Equal trees mean equal functions: for every truth assignment
of the conditions the two terms reduce to the same term.  (The converse does not hold; unequal trees are 'no match'.)
"""
from . import terms as T

FCMP = ('oeq', 'one', 'olt', 'ole', 'ogt', 'oge', 'ueq', 'une', 'ult', 'ule', 'ugt', 'uge', 'ord', 'uno')
ICMP = ('eq', 'ne', 'ult', 'ule', 'slt', 'sle', 'ugt', 'uge', 'sgt', 'sge')


def is_cmp(t):
    return t.width == 1 and ((t.name.startswith('f') and t.name[1:] in FCMP) or t.name in ICMP)


def conditions(bv, acc=None, seen=None):
    if acc is None:
        acc, seen = {}, set()
    for p in bv:
        if p[0] == 'r':
            conditions((p[1],), acc, seen)
            continue
        if p[0] != 's':
            continue
        t = p[1]
        if t.uid in seen:
            continue
        seen.add(t.uid)
        if is_cmp(t):
            acc[t.uid] = t
        for o in (t.ops or ()):
            if isinstance(o, tuple):
                conditions(o, acc, seen)
    return acc


def rebuild(bv, sub, memo):
    """bv with the terms of `sub` (uid -> one-bit constant) replaced, re-canonicalised bottom-up"""
    out = []
    for p in T.canon(bv):
        if p[0] in 'cu':
            out.append((p,))
        elif p[0] == 'r':
            out.append(T.rep(rebuild((p[1],), sub, memo), p[2]))
        else:
            (_, t, lo, w) = p
            out.append(T.slice_(rterm(t, sub, memo), lo, w))
    return T.canon(T.cat(*out))


def rterm(t, sub, memo):
    if t.uid in memo:
        return memo[t.uid]
    if t.uid in sub:
        r = T.const(1, sub[t.uid]) if isinstance(sub[t.uid], int) else sub[t.uid]
    elif t.kind == 'arg' or not t.ops:
        r = (('s', t, 0, t.width),)
    else:
        ops = [rebuild(o, sub, memo) if isinstance(o, tuple) else o for o in t.ops]
        if all((not isinstance(o, tuple)) or n == T.canon(o) for o, n in zip(t.ops, ops)):
            r = (('s', t, 0, t.width),)
        else:
            n, w = t.name, t.width
            if n == 'sum':
                k, coefs = t.attrs
                r = T._lin_comb(w, [(o, c) for o, c in zip(ops, coefs)] + [(T.const(w, k), 1)])
            elif n in ('sel', 'and', 'or', 'xor', 'not', 'smin', 'smax', 'umin', 'umax'):
                r = T.op(n, w, *ops)
            elif w == 1 and n.startswith('f') and n[1:] in FCMP:
                r = T.fcmp(n[1:], *ops)
            elif w == 1 and n in ICMP:
                r = T.icmp(n, *ops)
            else:
                r = T.raw_op(n, w, *ops, attrs=t.attrs)
    r = T.canon(r)
    memo[t.uid] = r
    return r


def tree(bv, limit=4096, _budget=None):
    """nested tuples ('ite', condition key, then, else) / ('leaf', key); None if the expansion exceeds the limit"""
    if _budget is None:
        _budget = [limit]
    bv = T.canon(bv)
    cs = conditions(bv)
    if not cs:
        return ('leaf', T._key(bv))
    _budget[0] -= 1
    if _budget[0] < 0:
        return None
    # canonical condition: the smaller key of (t, not t)
    best = None
    for t in cs.values():
        nb = T._neg_cmp(t)
        nt = T.single_term(T.canon(nb)) if nb is not None else None
        k1 = T._key((('s', t, 0, 1),))
        k2 = T._key((('s', nt, 0, 1),)) if nt is not None else None
        if k2 is not None and k2 < k1:
            cand = (k2, nt, t)
        else:
            cand = (k1, t, nt)
        if best is None or cand[0] < best[0]:
            best = cand
    (ck, t, nt) = best
    arms = []
    for val in (1, 0):
        sub = {t.uid: val}
        if nt is not None:
            sub[nt.uid] = 1 - val
        a = tree(rebuild(bv, sub, {}), limit, _budget)
        if a is None:
            return None
        arms.append(a)
    if arms[0] == arms[1]:
        return arms[0]
    return ('ite', ck, arms[0], arms[1])


def same(a, b, limit=4096):
    ta = tree(a, limit)
    if ta is None:
        return False
    tb = tree(b, limit)
    return tb is not None and ta == tb


def args_of(bv, acc=None, seen=None):
    if acc is None:
        acc, seen = {}, set()
    for p in bv:
        if p[0] == 'r':
            args_of((p[1],), acc, seen)
            continue
        if p[0] != 's':
            continue
        t = p[1]
        if t.uid in seen:
            continue
        seen.add(t.uid)
        if t.kind == 'arg':
            acc[t.uid] = t
        for o in (t.ops or ()):
            if isinstance(o, tuple):
                args_of(o, acc, seen)
    return acc


def rename_lane(bv, i, j=0):
    """the term with every argument atom of lane i replaced by the same argument's lane j (position uniformity: an
    element-wise operation computes lane i from lane i of its operands exactly as it computes lane j from lane j)"""
    sub = {}
    for t in args_of(T.canon(bv)).values():
        if t.attrs == i:
            sub[t.uid] = T.atom_bv(t.name, j, t.width)
    if not sub:
        return T.canon(bv)
    return rebuild(bv, sub, {})
