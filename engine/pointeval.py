"""Exact evaluation of a lane term at one argument point, roundings erased (C10/C11 tier-continuity clause).

Constant propagation, not execution: integer sub-terms are evaluated exactly; floating-point arithmetic is evaluated in
rational interval arithmetic (engine/qi.py) WITHOUT rounding (fadd/fsub/fmul/fdiv/fma/sqrt of exact operands), so
the value is that of the real function the kernel denotes.  Where a float is reinterpreted as bits (exponent / mantissa
extraction) the real value is rounded to the format first -- the only place where a rounding is modelled.
Every lane of every argument holds the same value (broadcast), so whole-batch conditions are decided consistently.
"""
import math
import struct
from fractions import Fraction as Fr

from . import terms as T


def _rnd(fr, up, bits=700):
    """round a Fraction outward to `bits` significant bits (keeps the arithmetic from growing without bound)"""
    if fr == 0:
        return fr
    n, d = fr.numerator, fr.denominator
    sz = max(n.bit_length(), d.bit_length())
    if sz <= 4 * bits:
        return fr
    e = abs(n).bit_length() - d.bit_length() - bits
    # fr ~ m * 2^e with m an integer of about `bits` bits
    if e >= 0:
        q, r = divmod(n, d << e)
    else:
        q, r = divmod(n << (-e), d)
    if r and up:
        q += 1
    return Fr(q) * (Fr(2) ** e)


class QI(object):
    """closed interval with exact rational end points (relative outward rounding only when the fractions get huge):
    unlike engine/qi.py's fixed-point intervals it keeps its relative accuracy over the whole exponent range of double"""
    __slots__ = ('lo', 'hi')

    def __init__(self, lo, hi=None, scaled=False):
        if hi is None:
            hi = lo
        self.lo, self.hi = _rnd(Fr(lo), False), _rnd(Fr(hi), True)

    @staticmethod
    def of(x):
        return x if isinstance(x, QI) else QI(x)

    def __add__(self, o):
        o = QI.of(o)
        return QI(self.lo + o.lo, self.hi + o.hi)
    __radd__ = __add__

    def __neg__(self):
        return QI(-self.hi, -self.lo)

    def __sub__(self, o):
        return self + (-QI.of(o))

    def __rsub__(self, o):
        return QI.of(o) - self

    def __mul__(self, o):
        o = QI.of(o)
        c = (self.lo * o.lo, self.lo * o.hi, self.hi * o.lo, self.hi * o.hi)
        return QI(min(c), max(c))
    __rmul__ = __mul__

    def __truediv__(self, o):
        o = QI.of(o)
        if o.lo <= 0 <= o.hi:
            raise ZeroDivisionError('interval contains zero')
        c = (self.lo / o.lo, self.lo / o.hi, self.hi / o.lo, self.hi / o.hi)
        return QI(min(c), max(c))

    def mag(self):
        return max(abs(self.lo), abs(self.hi))

    def mig(self):
        if self.lo <= 0 <= self.hi:
            return Fr(0)
        return min(abs(self.lo), abs(self.hi))

    def lof(self):
        return self.lo

    def hif(self):
        return self.hi

    def mid(self):
        return (self.lo + self.hi) / 2

    def hull(self, o):
        return QI(min(self.lo, o.lo), max(self.hi, o.hi))


def sqrt_qi(x):
    """enclosure of sqrt of a non-negative rational with ~600 bits of relative accuracy"""
    x = Fr(x)
    if x == 0:
        return QI(0)
    import math as _m
    e = x.numerator.bit_length() - x.denominator.bit_length()
    e -= e % 2
    y = x / Fr(2) ** e                      # in [1/2, 4)
    K = 1200
    n = (y.numerator << K) // y.denominator
    r = _m.isqrt(n)
    sc = Fr(2) ** (e // 2) / Fr(2) ** (K // 2)
    return QI(Fr(r) * sc, Fr(r + 1) * sc)



class Unevaluable(Exception):
    pass


INF = 'inf'


class FV(object):
    """a float-typed value: an interval of reals, or a special"""
    __slots__ = ('iv', 'special')

    def __init__(self, iv=None, special=None):
        self.iv, self.special = iv, special

    def exact(self):
        return self.special is None and self.iv.lo == self.iv.hi

    def mid(self):
        return self.iv.mid()


def fv_const(v, w):
    x = struct.unpack('<f', struct.pack('<I', v))[0] if w == 32 else struct.unpack('<d', struct.pack('<Q', v))[0]
    if x != x:
        return FV(special='nan')
    if x in (math.inf, -math.inf):
        return FV(special='+inf' if x > 0 else '-inf')
    return FV(QI(Fr(x)))


def round_to_bits(fr, w):
    """bit pattern of the float nearest to the rational fr (ties to even; overflow -> inf; subnormals handled)"""
    if fr == 0:
        return 0
    p, emin, bias, mant = (24, -126, 127, 23) if w == 32 else (53, -1022, 1023, 52)
    s = 1 if fr < 0 else 0
    a = abs(fr)
    e = a.numerator.bit_length() - a.denominator.bit_length()
    if Fr(2) ** e > a:
        e -= 1
    if Fr(2) ** (e + 1) <= a:
        e += 1
    e_eff = max(e, emin)
    q = a / Fr(2) ** (e_eff - p + 1)
    n = q.numerator // q.denominator
    r = q - n
    if r > Fr(1, 2) or (r == Fr(1, 2) and n % 2 == 1):
        n += 1
    if n >= (1 << p):
        n >>= 1
        e_eff += 1
    if e_eff > bias:
        bits = ((2 * bias + 1) << mant)
    elif n < (1 << (p - 1)):
        bits = n                                   # subnormal
    else:
        bits = ((e_eff + bias) << mant) | (n - (1 << (p - 1)))
    return bits | (s << (w - 1))


FMT_MAX = {32: Fr(2) ** 128 - Fr(2) ** 104, 64: Fr(2) ** 1024 - Fr(2) ** 971}


class PointEval(object):
    overflows = None

    def __init__(self, argvals):
        self.overflows = []
        """argvals: {argument name: Fraction} (the same value in every lane)"""
        self.args = argvals
        self.memo = {}

    # ---- integers: value of a bit vector as an unsigned int
    def bits(self, bv):
        bv = T.canon(bv)
        v, sh = 0, 0
        for pce in bv:
            w = T.pw(pce)
            if pce[0] == 'c':
                x = pce[2]
            elif pce[0] == 'u':
                raise Unevaluable('undef bits')
            elif pce[0] == 'r':
                b = self.bits((pce[1],))
                x = ((1 << w) - 1) if (b & 1) else 0
            else:
                (_, t, lo, ww) = pce
                x = (self.term_bits(t) >> lo) & ((1 << ww) - 1)
            v |= x << sh
            sh += w
        return v

    def term_bits(self, t):
        k = ('b', t.uid)
        if k in self.memo:
            return self.memo[k]
        r = self._term_bits(t)
        r &= (1 << t.width) - 1
        self.memo[k] = r
        return r

    def _term_bits(self, t):
        n, w = t.name, t.width
        M = (1 << w) - 1
        sx = lambda x, ww=w: x - (1 << ww) if x >> (ww - 1) else x
        if t.kind == 'arg':
            return round_to_bits(self.args[t.name], w)
        if n == 'sum':
            c0, coefs = t.attrs[0], t.attrs[1]
            v = c0
            for cf, o in zip(coefs, t.ops):
                v += cf * self.bits(o)
            return v & M
        if n in ('and', 'or', 'xor'):
            a, b = self.bits(t.ops[0]), self.bits(t.ops[1])
            return {'and': a & b, 'or': a | b, 'xor': a ^ b}[n]
        if n == 'not':
            return self.bits(t.ops[0]) ^ M
        if n == 'mul':
            return (self.bits(t.ops[0]) * self.bits(t.ops[1])) & M
        if n in ('shl', 'lshr', 'ashr'):
            a, b = self.bits(t.ops[0]), self.bits(t.ops[1])
            if b >= w:
                raise Unevaluable('shift amount')
            return {'shl': (a << b) & M, 'lshr': a >> b, 'ashr': (sx(a) >> b) & M}[n]
        if n in ('sdiv', 'udiv', 'srem', 'urem'):
            a, b = self.bits(t.ops[0]), self.bits(t.ops[1])
            if n[0] == 's':
                a, b = sx(a), sx(b)
            if b == 0:
                raise Unevaluable('division by zero')
            q = abs(a) // abs(b) * (1 if (a >= 0) == (b >= 0) else -1)
            return (q if n.endswith('div') else a - q * b) & M
        if n in ('eq', 'ne', 'ult', 'ule', 'ugt', 'uge', 'slt', 'sle', 'sgt', 'sge'):
            wa = T.width(t.ops[0])
            a, b = self.bits(t.ops[0]), self.bits(t.ops[1])
            if n[0] == 's' and n not in ('eq', 'ne'):
                a, b = sx(a, wa), sx(b, wa)
            return int({'eq': a == b, 'ne': a != b, 'lt': a < b, 'le': a <= b, 'gt': a > b, 'ge': a >= b}[n if n in ('eq', 'ne') else n[1:]])
        if n == 'sel':
            c = self.bits(t.ops[0]) & 1
            return self.bits(t.ops[1] if c else t.ops[2])
        if n in ('smin', 'smax', 'umin', 'umax'):
            a, b = self.bits(t.ops[0]), self.bits(t.ops[1])
            ka, kb = (sx(a), sx(b)) if n[0] == 's' else (a, b)
            return a if ((ka < kb) == (n.endswith('min'))) else b
        if n.startswith('f') and n[1:] in ('oeq', 'one', 'olt', 'ole', 'ogt', 'oge', 'ueq', 'une', 'ult', 'ule', 'ugt', 'uge', 'ord', 'uno'):
            return int(self.fcmp(n[1:], t.ops[0], t.ops[1]))
        if n.startswith(('fptosi', 'x86.cvttps2dq', 'x86.cvttpd2dq', 'fptoui')):
            x = self.fval(t.ops[0])
            if x.special or not x.exact():
                # an inexact operand: truncation is well defined if the interval does not contain an integer boundary
                if x.special:
                    raise Unevaluable('conversion of a special value')
                lo, hi = x.iv.lof(), x.iv.hif()
                if math.trunc(lo) != math.trunc(hi):
                    raise Unevaluable('conversion at an integer boundary')
                return math.trunc(lo) & M
            return math.trunc(x.iv.lof()) & M
        if n.startswith(('x86.cvtps2dq', 'x86.cvtpd2dq')):
            x = self.fval(t.ops[0])
            if x.special:
                raise Unevaluable('conversion of a special value')
            lo, hi = round(x.iv.lof()), round(x.iv.hif())
            if lo != hi:
                raise Unevaluable('conversion at a rounding boundary')
            return lo & M
        if n.startswith('memload'):
            raise Unevaluable('table load')
        # a float-valued term whose bits are needed
        x = self.fterm(t)
        if x.special:
            e_all = (0xff << 23) if w == 32 else (0x7ff << 52)
            return {'+inf': e_all, '-inf': e_all | (1 << (w - 1)), 'nan': e_all | (1 << (w - 2))}[x.special]
        return round_to_bits(x.mid(), w)

    # ---- floats
    def fval(self, bv):
        bv = T.canon(bv)
        if T.is_const(bv):
            return fv_const(T.const_val(bv), T.width(bv))
        t = T.single_term(bv)
        if t is not None and (t.kind == 'arg' or self.is_float_term(t)):
            return self.fterm(t)
        # assembled from bits: decode
        w = T.width(bv)
        return fv_const(self.bits(bv), w)

    def fval_abs(self, bv):
        """|value| of a float assembled as [magnitude bits ++ separately computed sign bit], without rounding the magnitude"""
        bv = T.canon(bv)
        w = T.width(bv)
        if T.single_term(bv) is not None or T.is_const(bv):
            v = self.fval(bv)
        else:
            low = T.canon(T.slice_(bv, 0, w - 1))
            if len(low) == 1 and low[0][0] == 's' and low[0][2] == 0:
                t = low[0][1]
                if t.width == w and low[0][3] == w - 1:
                    v = self.fterm(t) if (t.kind == 'arg' or self.is_float_term(t)) else self.fval((('s', t, 0, w),))
                elif t.name == 'sel' and t.width == w - 1:
                    c = self.bits(t.ops[0]) & 1
                    arm = T.canon(t.ops[1] if c else t.ops[2])
                    if len(arm) == 1 and arm[0][0] == 's' and arm[0][2] == 0 and arm[0][1].width == w:
                        return self.fval_abs((('s', arm[0][1], 0, w),))
                    return self.fval_abs(T.cat(arm, T.const(1, 0)))
                else:
                    v = self.fval(bv)
            else:
                v = self.fval(bv)
        if v.special:
            return FV(special='+inf' if 'inf' in v.special else 'nan')
        iv = v.iv
        if iv.lo >= 0:
            return v
        if iv.hi <= 0:
            return FV(-iv)
        return FV(QI(0, max(-iv.lo, iv.hi), True))

    FLOAT_OPS = ('fadd', 'fsub', 'fmul', 'fdiv', 'fma', 'fmuladd', 'sqrt', 'fabs', 'fneg', 'sitofp', 'uitofp', 'fpext', 'fptrunc', 'x86.round', 'llvm.nearbyint', 'llvm.rint',
                 'llvm.floor', 'llvm.ceil', 'llvm.trunc', 'llvm.roundeven', 'pow2floor', 'x86.sqrt', 'call:llvm.sqrt', 'copysign', 'minnum', 'maxnum', 'x86.min', 'x86.max')

    def is_float_term(self, t):
        return t.name.startswith(self.FLOAT_OPS)

    def fterm(self, t):
        k = ('f', t.uid)
        if k in self.memo:
            return self.memo[k]
        r = self._fterm(t)
        self.memo[k] = r
        return r

    def _fterm(self, t):
        n = t.name
        if t.kind == 'arg':
            return FV(QI(self.args[t.name]))
        ops = t.ops
        if n in ('fadd', 'fsub', 'fmul', 'fdiv', 'fma', 'fmuladd'):
            vs = [self.fval(o) for o in ops]
            if any(v.special for v in vs):
                raise Unevaluable('special value in arithmetic')
            a = vs[0].iv
            if n == 'fadd':
                r = a + vs[1].iv
            elif n == 'fsub':
                r = a - vs[1].iv
            elif n == 'fmul':
                r = a * vs[1].iv
            elif n == 'fdiv':
                b = vs[1].iv
                if b.lo <= 0 <= b.hi:
                    raise Unevaluable('division by an interval containing zero')
                r = a / b
            else:
                r = a * vs[1].iv + vs[2].iv
            # overflow monitor: the exact value of this intermediate certainly exceeds the largest finite number of its
            # format, i.e. the machine operation yields +-inf here although the evaluation (roundings erased) goes on.
            # Recorded only; the clauses that use it judge it (a finite, normal final result makes it a defect).
            fmax = FMT_MAX.get(t.width)
            if fmax is not None and r.mig() > fmax:
                m_ = Fr(r.mig())
                self.overflows.append((n, t.width, (m_.numerator.bit_length() - m_.denominator.bit_length()) * 0.30103, getattr(t, 'src', None)))
            return FV(r)
        if n.startswith(('sqrt', 'x86.sqrt', 'call:llvm.sqrt', 'x86.sse.sqrt', 'x86.sse2.sqrt', 'x86.avx.sqrt')):
            v = self.fval(ops[0])
            if v.special or v.iv.lo < 0:
                raise Unevaluable('sqrt of a negative / special value')
            lo, hi = sqrt_qi(v.iv.lof()), sqrt_qi(v.iv.hif())
            return FV(QI(lo.lo, hi.hi, True))
        if n.startswith('fabs'):
            v = self.fval(ops[0])
            if v.special:
                return FV(special='+inf' if 'inf' in v.special else 'nan')
            iv = v.iv
            if iv.lo >= 0:
                return v
            if iv.hi <= 0:
                return FV(-iv)
            return FV(QI(0, max(-iv.lo, iv.hi), True))
        if n.startswith('fneg'):
            v = self.fval(ops[0])
            if v.special:
                return FV(special={'+inf': '-inf', '-inf': '+inf', 'nan': 'nan'}[v.special])
            return FV(-v.iv)
        if n.startswith(('sitofp', 'uitofp')):
            w0 = T.width(ops[0])
            x = self.bits(ops[0])
            if n.startswith('sitofp') and x >> (w0 - 1):
                x -= 1 << w0
            return FV(QI(Fr(x)))
        if n.startswith(('fpext', 'fptrunc')):
            return self.fval(ops[0])
        if n.startswith(('x86.round', 'llvm.nearbyint', 'llvm.rint', 'llvm.roundeven', 'llvm.floor', 'llvm.ceil', 'llvm.trunc', 'call:llvm.x86.avx512.mask.rndscale')):
            v = self.fval(ops[0])
            if v.special:
                return v
            mode = 'nearest'
            if n.startswith('x86.round') and t.attrs:
                mode = {0: 'nearest', 1: 'floor', 2: 'ceil', 3: 'trunc', 4: 'nearest'}.get(t.attrs[0] & 7, None)
            elif n.startswith('llvm.floor'):
                mode = 'floor'
            elif n.startswith('llvm.ceil'):
                mode = 'ceil'
            elif n.startswith('llvm.trunc'):
                mode = 'trunc'
            if mode is None:
                raise Unevaluable('rounding mode')
            f = {'nearest': round, 'floor': math.floor, 'ceil': math.ceil, 'trunc': math.trunc}[mode]
            a, b = f(v.iv.lof()), f(v.iv.hif())
            if a != b:
                raise Unevaluable('rounding at a boundary')
            return FV(QI(Fr(a)))
        if n == 'pow2floor':
            v = self.fval(ops[0])
            if v.special or not v.exact():
                raise Unevaluable('scale exponent')
            return FV(QI(Fr(2) ** int(math.floor(v.iv.lof()))))
        if n.startswith(('x86.min', 'x86.max', 'minnum', 'maxnum')):
            a, b = self.fval(ops[0]), self.fval(ops[1])
            if a.special or b.special:
                raise Unevaluable('min/max of a special value')
            if a.iv.hi < b.iv.lo or b.iv.hi < a.iv.lo or (a.exact() and b.exact()):
                lt = a.iv.lof() < b.iv.lof()
                return (a if lt else b) if 'min' in n else (b if lt else a)
            raise Unevaluable('min/max of overlapping intervals')
        if n == 'sel':
            c = self.bits(ops[0]) & 1
            return self.fval(ops[1] if c else ops[2])
        raise Unevaluable('float operator %s' % n)

    def fcmp(self, pred, a, b):
        x, y = self.fval(a), self.fval(b)
        if x.special == 'nan' or y.special == 'nan':
            return pred[0] == 'u' or pred == 'uno'
        if pred == 'ord':
            return True
        if pred == 'uno':
            return False

        def key(v):
            if v.special == '+inf':
                return (1, None)
            if v.special == '-inf':
                return (-1, None)
            return (0, v.iv)
        (kx, ix), (ky, iy) = key(x), key(y)
        if kx != ky or kx != 0:
            lt, eq = kx < ky, kx == ky
        else:
            if ix.hi < iy.lo:
                lt, eq = True, False
            elif iy.hi < ix.lo:
                lt, eq = False, False
            elif ix.lo == ix.hi == iy.lo == iy.hi:
                lt, eq = False, True
            else:
                raise Unevaluable('comparison of overlapping intervals')
        return {'eq': eq, 'ne': not eq, 'lt': lt, 'le': lt or eq, 'gt': (not lt) and (not eq), 'ge': not lt}[pred[1:]]
