"""Path-sensitive symbolic evaluation of small scalar functions (no loops, a handful of blocks).

Used by the rules that are about *which calls happen on which paths with which arguments*
(C18 allocator rules, C15 dispatcher walk): every acyclic path from the entry block is enumerated,
each SSA value becomes a hash-consed expression over the function's arguments, external calls
become opaque results, and for every path the list of branch conditions, the list of events
(calls, stores to non-local memory) and the terminal (ret value / throw / unreachable) is recorded.
Nothing is executed and no solver is involved; consequences of path conditions are decided by
enumeration of the truth assignments of their atomic predicates (predicate abstraction).
"""
from .ir import parse_type

MAXPATHS = 20000


class TooComplex(Exception):
    pass


def C(bits, v):
    return ('c', bits, v & ((1 << bits) - 1) if bits else 0)


def is_c(e):
    return e[0] == 'c'


def mk(name, bits, *ops):
    """smart constructor with the few folds needed to keep path conditions small"""
    if name == 'icmp':
        pred, a, b = ops
        if is_c(a) and is_c(b):
            return C(1, int(_icmp(pred, a[2], b[2], a[1])))
        if a == b:
            return C(1, int(pred in ('eq', 'uge', 'ule', 'sge', 'sle')))
        if is_c(a) and not is_c(b):
            sw = {'eq': 'eq', 'ne': 'ne', 'ugt': 'ult', 'ult': 'ugt', 'uge': 'ule', 'ule': 'uge', 'sgt': 'slt', 'slt': 'sgt', 'sge': 'sle', 'sle': 'sge'}
            return ('op', 'icmp', 1, (sw[pred], b, a))
        # normalise  ne  to  not eq
        if pred == 'ne':
            return mk('not', 1, mk('icmp', 1, 'eq', a, b))
        return ('op', 'icmp', 1, (pred, a, b))
    if name == 'not':
        (a,) = ops
        if is_c(a):
            return C(bits, ~a[2])
        if a[0] == 'op' and a[1] == 'not':
            return a[3][0]
        return ('op', 'not', bits, (a,))
    if name in ('and', 'or', 'xor'):
        a, b = ops
        if is_c(a) and is_c(b):
            return C(bits, {'and': a[2] & b[2], 'or': a[2] | b[2], 'xor': a[2] ^ b[2]}[name])
        if is_c(a):
            a, b = b, a
        if is_c(b):
            full = (1 << bits) - 1
            if name == 'and' and b[2] == 0:
                return C(bits, 0)
            if name == 'and' and b[2] == full:
                return a
            if name == 'or' and b[2] == 0:
                return a
            if name == 'or' and b[2] == full:
                return C(bits, full)
            if name == 'xor' and b[2] == 0:
                return a
            if name == 'xor' and b[2] == full:
                return mk('not', bits, a)
        if a == b:
            return a if name != 'xor' else C(bits, 0)
        if repr(a) > repr(b):
            a, b = b, a
        return ('op', name, bits, (a, b))
    if name == 'select':
        c, a, b = ops
        if is_c(c):
            return a if c[2] else b
        if a == b:
            return a
        if bits == 1 and is_c(a) and is_c(b):
            return c if a[2] else mk('not', 1, c)
        if bits == 1 and is_c(a):
            return mk('or', 1, c, b) if a[2] else mk('and', 1, mk('not', 1, c), b)
        if bits == 1 and is_c(b):
            return mk('and', 1, c, a) if not b[2] else mk('or', 1, mk('not', 1, c), a)
        if c[0] == 'op' and c[1] == 'icmp' and c[3][0] in ('ugt', 'uge', 'ult', 'ule') and set([c[3][1], c[3][2]]) == set([a, b]):
            # select(x > y, y, x) etc. are unsigned min / max
            gt = c[3][0] in ('ugt', 'uge')
            first_is_a = (c[3][1] == a)
            # cond true -> a.  cond = (p OP q).  if OP is '>' and a == q: picks the smaller -> umin
            picks_smaller = (gt and not first_is_a) or ((not gt) and first_is_a)
            return mk('umin' if picks_smaller else 'umax', bits, a, b)
        return ('op', 'select', bits, (c, a, b))
    if name in ('umin', 'umax', 'smin', 'smax'):
        a, b = ops
        if a == b:
            return a
        if repr(a) > repr(b):
            a, b = b, a
        return ('op', name, bits, (a, b))
    if name in ('add', 'sub', 'mul', 'shl', 'lshr', 'ashr', 'udiv', 'urem', 'sdiv', 'srem'):
        a, b = ops
        if is_c(a) and is_c(b):
            m = (1 << bits) - 1
            x, y = a[2], b[2]
            try:
                r = {'add': lambda: x + y, 'sub': lambda: x - y, 'mul': lambda: x * y, 'shl': lambda: x << y if y < bits else 0,
                     'lshr': lambda: x >> y if y < bits else 0, 'udiv': lambda: x // y, 'urem': lambda: x % y}[name]()
                return C(bits, r & m)
            except (KeyError, ZeroDivisionError):
                pass
        if name in ('add', 'mul') and is_c(a):
            a, b = b, a
        if name == 'add' and is_c(b) and b[2] == 0:
            return a
        if name == 'mul' and is_c(b) and b[2] == 1:
            return a
        # canonical: shl x, k  ==  mul x, 2^k
        if name == 'shl' and is_c(b) and b[2] < bits:
            return mk('mul', bits, a, C(bits, 1 << b[2]))
        if name in ('add', 'mul') and not is_c(b) and repr(a) > repr(b):
            a, b = b, a
        return ('op', name, bits, (a, b))
    if name in ('zext', 'sext', 'trunc'):
        (a,) = ops
        if is_c(a):
            v = a[2]
            if name == 'sext' and v >> (a[1] - 1):
                v -= 1 << a[1]
            return C(bits, v)
        return ('op', name, bits, (a,))
    return ('op', name, bits, tuple(ops))


def _sx(v, w):
    return v - (1 << w) if v >> (w - 1) else v


def _icmp(pred, a, b, w):
    if pred[0] == 's':
        a, b = _sx(a, w), _sx(b, w)
    return {'eq': a == b, 'ne': a != b, 'ugt': a > b, 'uge': a >= b, 'ult': a < b, 'ule': a <= b,
            'sgt': a > b, 'sge': a >= b, 'slt': a < b, 'sle': a <= b}[pred]


def fmt(e, d=6):
    if e[0] == 'c':
        return '%d' % e[2] if e[2] < 4096 else hex(e[2])
    if e[0] == 'arg':
        return 'arg%d' % e[1] if len(e) < 3 or not e[2] else e[2]
    if e[0] == 'op':
        if d <= 0:
            return '...'
        return '%s(%s)' % (e[1], ', '.join(x if isinstance(x, str) else fmt(x, d - 1) for x in e[3]))
    if e[0] == 'call':
        return 'ret:%s#%d' % (e[1], e[2])
    if e[0] == 'out':
        return 'out:%s#%d[%s]' % (e[1], e[2], e[3])
    return str(e)


class Path(object):
    def __init__(self):
        self.conds = []     # (expr i1, taken polarity, inst)
        self.events = []    # ('call', callee, seq, [arg exprs], inst) | ('gstore', global, expr, inst) | ('gload', ...)
        self.term = None    # ('ret', expr|None) | ('throw', typeinfo name) | ('unreachable',) | ('loop', block)
        self.blocks = []

    def calls(self, name=None):
        return [e for e in self.events if e[0] == 'call' and (name is None or e[1] == name)]


class State(object):
    __slots__ = ('env', 'mem', 'path', 'seq')

    def clone(self):
        s = State()
        s.env = dict(self.env)
        s.mem = dict(self.mem)
        s.seq = self.seq
        p = Path()
        p.conds = list(self.path.conds)
        p.events = list(self.path.events)
        p.blocks = list(self.path.blocks)
        s.path = p
        return s


PURE_INTRINSICS = ('llvm.lifetime.', 'llvm.dbg.', 'llvm.assume', 'llvm.experimental.noalias', 'llvm.donothing')


class Sym(object):
    def __init__(self, module, fn, argnames=None, inline=None):
        self.m = module
        self.fn = fn
        self.blocks = dict((b['id'], b) for b in fn['blocks'])
        self.argnames = argnames or {}
        self.paths = []

    def cval(self, c):
        ty = parse_type(c['ty'])
        if 'int' in c:
            return C(ty.bits, int(c['int']))
        if 'fpbits' in c:
            return C(ty.bits, int(c['fpbits']))
        if 'zero' in c:
            return C(ty.bits or 64, 0)
        if 'undef' in c or 'poison' in c:
            return ('undef', ty.bits)
        if 'global' in c:
            return ('global', c['global'], 0)
        if 'func' in c:
            return ('func', c['func'])
        if 'cexpr' in c:
            if c['cexpr'] in ('bitcast', 'addrspacecast'):
                return self.cval(c['ops'][0])
            if c['cexpr'] == 'getelementptr' and 'coff' in c:
                b = self.cval(c['ops'][0])
                if b[0] == 'global':
                    return ('global', b[1], b[2] + c['coff'])
            if c['cexpr'] == 'ptrtoint':
                return self.cval(c['ops'][0])
        return ('const?', repr(c)[:80])

    def val(self, st, o):
        k = o['k']
        if k == 'v':
            return st.env[o['id']]
        if k == 'a':
            return ('arg', o['i'], self.argnames.get(o['i']))
        if k == 'c':
            return self.cval(o)
        return ('operand?', k)

    def run(self):
        st = State()
        st.env, st.mem, st.seq, st.path = {}, {}, 0, Path()
        self._walk(st, self.fn['blocks'][0]['id'], None)
        return self.paths

    def _finish(self, st, term):
        st.path.term = term
        self.paths.append(st.path)
        if len(self.paths) > MAXPATHS:
            raise TooComplex('more than %d paths' % MAXPATHS)

    def _walk(self, st, bid, prev):
        while True:
            if bid in st.path.blocks:
                self._finish(st, ('loop', bid))
                return
            st.path.blocks.append(bid)
            b = self.blocks[bid]
            nxt = None
            for inst in b['insts']:
                op = inst['op']
                if op == 'phi':
                    for inc in inst['incoming']:
                        if inc['bb'] == prev:
                            st.env[inst['id']] = self.val(st, inc['v'])
                            break
                    else:
                        raise TooComplex('phi without predecessor')
                    continue
                if op == 'br':
                    ops = inst['ops']
                    if len(ops) == 1:
                        nxt = ops[0]['id']
                    else:
                        c = self.val(st, ops[0])
                        fdest, tdest = ops[1]['id'], ops[2]['id']
                        if is_c(c):
                            nxt = tdest if c[2] else fdest
                        else:
                            s2 = st.clone()
                            s2.path.conds.append((c, False, inst))
                            self._walk(s2, fdest, bid)
                            st.path.conds.append((c, True, inst))
                            nxt = tdest
                    break
                if op == 'switch':
                    c = self.val(st, inst['cond'])
                    w = c[1] if c[0] == 'c' else (c[2] if c[0] == 'op' else 32)
                    if is_c(c):
                        nxt = inst['default']
                        for cs in inst['cases']:
                            if (int(cs['val']) & ((1 << c[1]) - 1)) == c[2]:
                                nxt = cs['bb']
                        break
                    negs = []
                    for cs in inst['cases']:
                        s2 = st.clone()
                        eq = mk('icmp', 1, 'eq', c, C(w, int(cs['val'])))
                        s2.path.conds.append((eq, True, inst))
                        negs.append(eq)
                        self._walk(s2, cs['bb'], bid)
                    for eq in negs:
                        st.path.conds.append((eq, False, inst))
                    nxt = inst['default']
                    break
                if op == 'ret':
                    self._finish(st, ('ret', self.val(st, inst['ops'][0]) if inst['ops'] else None))
                    return
                if op == 'unreachable':
                    thr = [e for e in st.path.events if e[0] == 'call' and e[1] == '__cxa_throw']
                    if thr:
                        ti = thr[-1][3][1]
                        self._finish(st, ('throw', ti[1] if ti[0] == 'global' else fmt(ti)))
                    else:
                        self._finish(st, ('unreachable',))
                    return
                if op == 'resume':
                    self._finish(st, ('resume',))
                    return
                if op == 'invoke':
                    self.step(st, inst)
                    nxt = inst.get('normal')
                    if nxt is None:
                        raise TooComplex('invoke without destination info')
                    break
                self.step(st, inst)
            if nxt is None:
                raise TooComplex('unhandled terminator in block %s' % b.get('name'))
            prev, bid = bid, nxt

    def step(self, st, inst):
        op = inst['op']
        iid = inst['id']
        ty = parse_type(inst['ty'])
        ops = inst.get('ops', [])
        E = st.env
        bits = ty.bits
        if op in ('bitcast', 'addrspacecast', 'freeze', 'ptrtoint', 'inttoptr'):
            E[iid] = self.val(st, ops[0])
        elif op in ('add', 'sub', 'mul', 'and', 'or', 'xor', 'shl', 'lshr', 'ashr', 'udiv', 'sdiv', 'urem', 'srem'):
            E[iid] = mk(op, bits, self.val(st, ops[0]), self.val(st, ops[1]))
        elif op == 'icmp':
            E[iid] = mk('icmp', 1, inst['pred'], self.val(st, ops[0]), self.val(st, ops[1]))
        elif op == 'select':
            E[iid] = mk('select', bits, self.val(st, ops[0]), self.val(st, ops[1]), self.val(st, ops[2]))
        elif op in ('zext', 'sext', 'trunc'):
            E[iid] = mk(op, bits, self.val(st, ops[0]))
        elif op == 'alloca':
            E[iid] = ('alloca', iid, 0)
        elif op == 'getelementptr':
            p = self.val(st, ops[0])
            if 'coff' in inst and not inst['voff'] and p[0] in ('alloca', 'global'):
                E[iid] = (p[0], p[1], p[2] + inst['coff'])
            elif 'coff' in inst and not inst['voff'] and inst['coff'] == 0:
                E[iid] = p
            else:
                E[iid] = mk('gep', 64, p, C(64, inst.get('coff', 0)), *[mk('mul', 64, self.val(st, v['v']), C(64, v['scale'])) for v in inst.get('voff', [])])
        elif op == 'load':
            p = self.val(st, ops[0])
            if p[0] == 'alloca':
                key = (p[1], p[2], inst['bytes'])
                E[iid] = st.mem.get(key, ('undef', bits))
            elif p[0] == 'global':
                g = self.m.globals.get(p[1], {})
                st.path.events.append(('gload', p[1], p[2], inst))
                E[iid] = ('gval', p[1], p[2], st.seq if not g.get('const') else -1)
            else:
                st.path.events.append(('load', p, inst))
                E[iid] = ('mem', p, st.seq)
        elif op == 'store':
            v, p = self.val(st, ops[0]), self.val(st, ops[1])
            if p[0] == 'alloca':
                st.mem[(p[1], p[2], inst['bytes'])] = v
            elif p[0] == 'global':
                st.path.events.append(('gstore', p[1], v, inst))
                st.seq += 1
            else:
                st.path.events.append(('store', p, v, inst))
                st.seq += 1
        elif op in ('call', 'invoke'):
            name = inst.get('callee')
            if name and name.startswith(PURE_INTRINSICS):
                return
            args = [self.val(st, o) for o in ops]
            if name and name.startswith('llvm.umul.with.overflow'):
                E[iid] = ('op', 'umul.ov', bits, tuple(sorted(args, key=repr)))
                return
            if name and name.split('.')[:2] == ['llvm', 'umin'] or name and name.split('.')[:2] in (['llvm', 'umax'], ['llvm', 'smin'], ['llvm', 'smax']):
                E[iid] = mk(name.split('.')[1], bits, args[0], args[1])
                return
            if name is None:
                name = 'asm:' + inst['asm'] if 'asm' in inst else 'indirect'
            st.seq += 1
            seq = st.seq
            st.path.events.append(('call', name, seq, args, inst))
            # an escaping local: the callee may overwrite it
            for a in args:
                if a[0] == 'alloca':
                    for key in [k for k in st.mem if k[0] == a[1]]:
                        st.mem[key] = ('out', name, seq, '%d+%d' % (key[0], key[1]))
                    st.mem.setdefault((a[1], a[2], 8), ('out', name, seq, '%d+%d' % (a[1], a[2])))
                    st.mem[(a[1], a[2], 8)] = ('out', name, seq, '%d+%d' % (a[1], a[2]))
            if ty.kind != 'void':
                E[iid] = ('call', name, seq, bits)
        elif op in ('extractvalue',):
            v = self.val(st, ops[0])
            if v[0] == 'op' and v[1] == 'umul.ov':
                E[iid] = mk('mul', bits, *v[3]) if inst['idx'][0] == 0 else ('op', 'umul.overflows', 1, v[3])
            else:
                E[iid] = mk('extractvalue', bits, v, C(32, inst['idx'][0]))
        elif op in ('insertvalue', 'extractelement', 'insertelement', 'shufflevector', 'fadd', 'fsub', 'fmul', 'fdiv', 'fcmp', 'fneg',
                    'sitofp', 'uitofp', 'fptosi', 'fptoui', 'fpext', 'fptrunc', 'landingpad'):
            E[iid] = mk(op + (':' + inst['pred'] if op == 'fcmp' else ''), bits, *[self.val(st, o) for o in ops])
        else:
            raise TooComplex('opcode %s' % op)


# ---------------------------------------------------------------------------------------------
# predicate abstraction: consequences of a path condition by truth-table enumeration of its atoms

def atoms_of(e, acc):
    """atomic 1-bit predicates of a boolean expression (everything that is not and/or/not/xor of i1)"""
    if e[0] == 'op' and e[2] == 1 and e[1] in ('and', 'or', 'xor', 'not'):
        for x in e[3]:
            atoms_of(x, acc)
    elif e[0] == 'op' and e[1] == 'select' and e[2] == 1:
        for x in e[3]:
            atoms_of(x, acc)
    elif e[0] != 'c':
        if e not in acc:
            acc.append(e)
    return acc


def evalb(e, asg):
    if e[0] == 'c':
        return bool(e[2])
    if e[0] == 'op' and e[2] == 1 and e[1] in ('and', 'or', 'xor', 'not', 'select'):
        v = [evalb(x, asg) for x in e[3]]
        if e[1] == 'and':
            return v[0] and v[1]
        if e[1] == 'or':
            return v[0] or v[1]
        if e[1] == 'xor':
            return v[0] != v[1]
        if e[1] == 'not':
            return not v[0]
        return v[1] if v[0] else v[2]
    return asg[e]


def implies(conds, goal, goal_val=True, extra_atoms=()):
    """does the conjunction of path conditions (expr, polarity) imply goal == goal_val?  Sound and complete at
    the propositional level (atoms are uninterpreted); returns (bool, counter-assignment or None)"""
    atoms = []
    for (c, pol) in conds:
        atoms_of(c, atoms)
    atoms_of(goal, atoms)
    if len(atoms) > 16:
        raise TooComplex('%d atomic predicates' % len(atoms))
    for m in range(1 << len(atoms)):
        asg = dict((a, bool((m >> i) & 1)) for i, a in enumerate(atoms))
        if all(evalb(c, asg) == pol for (c, pol) in conds):
            if evalb(goal, asg) != goal_val:
                return False, asg
    return True, None
