"""Floating-point class / interval abstract interpretation of vector functions (C12 special values and domains).

One generic lane of the first vector argument is tracked; every other lane is unconstrained, which only matters for
whole-batch reductions (any/all/none): their result is unknown, so every whole-batch branch is explored in both
directions and joined -- a result proved here holds WHATEVER the neighbouring lanes contain.

Abstract value of a floating-point lane:  F(specials, neg, pos)
    specials  subset of {'N' (any NaN payload), 'NI' -inf, 'NZ' -0, 'PZ' +0, 'PI' +inf}
    neg/pos   closed interval of the negative / positive finite non-zero values it may take, or None
Masks are subsets of {True, False}.  Integer views of floats keep the float value so that the sign-bit idioms
(and with ~SIGN, and with SIGN, xor/or with a sign word, copysign) are followed; any other integer is unknown.
Transfer functions are the IEEE-754 rules at this level (NaN op x = NaN; inf - inf = NaN; 0 * inf = NaN; ordered
compares with NaN are false; overflow adds inf, underflow adds zero; x + (-x) = +0 ...).  Intervals are computed with the
checker's own arithmetic and widened outwards, so they over-approximate.  Nothing of xsimd is executed.
"""
import math
import struct
from fractions import Fraction
import re

from . import cfg as CFG
from .ir import parse_type

ALLS = frozenset(['N', 'NI', 'NZ', 'PZ', 'PI'])


class F(object):
    __slots__ = ('sp', 'neg', 'pos')

    def __init__(self, sp=(), neg=None, pos=None):
        self.sp = frozenset(sp)
        self.neg = neg
        self.pos = pos

    def __eq__(self, o):
        return isinstance(o, F) and self.sp == o.sp and self.neg == o.neg and self.pos == o.pos

    def __ne__(self, o):
        return not self.__eq__(o)

    def __hash__(self):
        return hash((self.sp, self.neg, self.pos))

    def empty(self):
        return not self.sp and self.neg is None and self.pos is None

    def __repr__(self):
        parts = sorted(self.sp)
        if self.neg:
            parts.append('[%g,%g]' % self.neg)
        if self.pos:
            parts.append('[%g,%g]' % self.pos)
        return '{' + ' '.join(parts) + '}'


class FT(object):
    def __init__(self, bits):
        self.bits = bits
        self.max = 3.4028234663852886e38 if bits == 32 else 1.7976931348623157e308
        self.tiny = 1.401298464324817e-45 if bits == 32 else 5e-324

    # outward rounding of a bound computed in binary64 (one correctly rounded operation on exact operands) onto this format's grid
    def down(self, x):
        return self._out(x, -math.inf)

    def up(self, x):
        return self._out(x, math.inf)

    def _out(self, x, to):
        if x == 0 or x != x or abs(x) == math.inf:
            return x
        if self.bits == 64:
            return x           # every caller passes one correctly rounded binary64 operation: already the exact result
        if abs(x) > self.max:
            return x
        y = struct.unpack('<f', struct.pack('<f', x))[0]
        if (to < 0 and y > x) or (to > 0 and y < x):
            b = struct.unpack('<I', struct.pack('<f', y))[0]
            if y == 0:
                return -self.tiny if to < 0 else self.tiny
            b += 1 if ((y > 0) == (to > 0)) else -1
            y2 = struct.unpack('<f', struct.pack('<I', b))[0]
            if y2 != y2 or abs(y2) == math.inf:
                return x if abs(x) > abs(y) else (math.copysign(self.max * 1.0000001, y) if abs(y2) == math.inf else y)
            return y2
        return y


def top_f(ft):
    return F(ALLS, (-ft.max, -ft.tiny), (ft.tiny, ft.max))


def joinf(a, b):
    if a is None:
        return b
    if b is None:
        return a
    neg = a.neg if b.neg is None else (b.neg if a.neg is None else (min(a.neg[0], b.neg[0]), max(a.neg[1], b.neg[1])))
    pos = a.pos if b.pos is None else (b.pos if a.pos is None else (min(a.pos[0], b.pos[0]), max(a.pos[1], b.pos[1])))
    return F(a.sp | b.sp, neg, pos)


def pieces(v):
    """decompose into atomic pieces: ('N',), ('NI',), ('NZ',), ('PZ',), ('PI',), ('neg', lo, hi), ('pos', lo, hi)"""
    out = [(s,) for s in v.sp]
    if v.neg:
        out.append(('neg',) + tuple(v.neg))
    if v.pos:
        out.append(('pos',) + tuple(v.pos))
    return out


def from_real(ft, lo, hi, exact_zero_sign='PZ'):
    """abstract value of a real result known to lie in [lo, hi] (after rounding): overflow gives inf, underflow may give a
    zero of the result's sign"""
    if lo != lo or hi != hi:
        return F(['N'])
    sp = set()
    neg = pos = None
    lo, hi = ft.down(lo), ft.up(hi)
    if lo < 0:
        a, b = lo, min(hi, -0.0)
        if a < -ft.max:
            sp.add('NI')
            a = -ft.max
        if b >= 0 or b > -ft.tiny * 4:
            sp.add('NZ')
            b = -ft.tiny
        if a <= b:
            neg = (a, b)
    if hi > 0:
        a, b = max(lo, 0.0), hi
        if b > ft.max:
            sp.add('PI')
            b = ft.max
        if a <= 0 or a < ft.tiny * 4:
            sp.add('PZ')
            a = ft.tiny
        if a <= b:
            pos = (a, b)
    if lo <= 0 <= hi:
        sp.add(exact_zero_sign)
    return F(sp, neg, pos)


def sign_of(p):
    return -1 if p[0] in ('NI', 'NZ', 'neg') else 1


def rng(p, ft):
    """real range of a non-NaN piece (infinite pieces as +-inf)"""
    k = p[0]
    if k == 'NI':
        return (-math.inf, -math.inf)
    if k == 'PI':
        return (math.inf, math.inf)
    if k in ('NZ', 'PZ'):
        return (0.0, 0.0)
    return (p[1], p[2])


def fneg(v):
    m = {'N': 'N', 'NI': 'PI', 'PI': 'NI', 'NZ': 'PZ', 'PZ': 'NZ'}
    return F([m[s] for s in v.sp], (-v.pos[1], -v.pos[0]) if v.pos else None, (-v.neg[1], -v.neg[0]) if v.neg else None)


def fabs(v):
    return joinf(F([s for s in v.sp if s in ('N', 'PZ', 'PI')] + (['PZ'] if 'NZ' in v.sp else []) + (['PI'] if 'NI' in v.sp else []), None, v.pos),
                 F([], None, (-v.neg[1], -v.neg[0])) if v.neg else None)


def copysign(a, b):
    """magnitude of a, sign of b (NaN sign bits are unknown: both)"""
    mag = fabs(a)
    out = None
    signs = set()
    for p in pieces(b):
        if p[0] == 'N':
            signs |= set([1, -1])
        else:
            signs.add(sign_of(p))
    if 1 in signs:
        out = joinf(out, mag)
    if -1 in signs:
        out = joinf(out, fneg(mag))
    if out is None:
        out = F()
    return out


def binop(ft, op, a, b):
    out = None
    for p in pieces(a):
        for q in pieces(b):
            out = joinf(out, _bin1(ft, op, p, q))
    return out if out is not None else F()


def _mul_iv(x, y):
    c = []
    for u in x:
        for v in y:
            if (u == 0 and abs(v) == math.inf) or (v == 0 and abs(u) == math.inf):
                continue
            c.append(u * v)
    return (min(c), max(c)) if c else (0.0, 0.0)


def _bin1(ft, op, p, q):
    if p[0] == 'N' or q[0] == 'N':
        return F(['N'])
    sp_, sq = sign_of(p), sign_of(q)
    pz, qz = p[0] in ('NZ', 'PZ'), q[0] in ('NZ', 'PZ')
    pi_, qi = p[0] in ('NI', 'PI'), q[0] in ('NI', 'PI')
    if op == 'fsub':
        flip = {'NI': 'PI', 'PI': 'NI', 'NZ': 'PZ', 'PZ': 'NZ', 'neg': 'pos', 'pos': 'neg'}
        q = (flip[q[0]],) + ((-q[2], -q[1]) if len(q) == 3 else ())
        return _bin1(ft, 'fadd', p, q)
    if op == 'fadd':
        if pi_ and qi:
            return F(['N']) if sp_ != sq else F([p[0]])
        if pi_:
            return F([p[0]])
        if qi:
            return F([q[0]])
        if pz and qz:
            return F(['NZ']) if (sp_ < 0 and sq < 0) else F(['PZ'])
        if pz:
            return F([], (q[1], q[2]) if q[0] == 'neg' else None, (q[1], q[2]) if q[0] == 'pos' else None)
        if qz:
            return F([], (p[1], p[2]) if p[0] == 'neg' else None, (p[1], p[2]) if p[0] == 'pos' else None)
        return from_real(ft, p[1] + q[1], p[2] + q[2], 'PZ')
    if op == 'fmul':
        if (pi_ and qz) or (pz and qi):
            return F(['N'])
        s = sp_ * sq
        if pi_ or qi:
            return F(['PI' if s > 0 else 'NI'])
        if pz or qz:
            return F(['PZ' if s > 0 else 'NZ'])
        lo, hi = _mul_iv((p[1], p[2]), (q[1], q[2]))
        r = from_real(ft, lo, hi)
        # the product of two non-zero finite values is never an exact zero of the other sign
        return F([x for x in r.sp if (x in ('PZ', 'PI')) == (s > 0) or x == 'N'], r.neg, r.pos)
    if op == 'fdiv':
        if (pi_ and qi) or (pz and qz):
            return F(['N'])
        s = sp_ * sq
        if pi_ or qz:
            return F(['PI' if s > 0 else 'NI'])
        if pz or qi:
            return F(['PZ' if s > 0 else 'NZ'])
        c = [p[1] / q[1], p[1] / q[2], p[2] / q[1], p[2] / q[2]]
        r = from_real(ft, min(c), max(c))
        return F([x for x in r.sp if (x in ('PZ', 'PI')) == (s > 0)], r.neg, r.pos)
    if op == 'frem':
        return top_f(ft)
    raise ValueError(op)


def fma(ft, a, b, c):
    """fused multiply-add: the product is not rounded (and cannot overflow on its own)"""
    out = None
    for p in pieces(a):
        for q in pieces(b):
            if len(p) == 3 and len(q) == 3:
                for r in pieces(c):
                    out = joinf(out, _fma1(ft, p, q, r))
            else:
                # a special operand: the product is NaN, an infinity or an exact zero, and adding c is an ordinary sum
                out = joinf(out, binop(ft, 'fadd', _bin1(ft, 'fmul', p, q), c))
    return out if out is not None else F()


def _fma1(ft, p, q, r):
    if r[0] == 'N':
        return F(['N'])
    if r[0] in ('NI', 'PI'):
        return F([r[0]])
    xs = [Fraction(u) * Fraction(v) for u in (p[1], p[2]) for v in (q[1], q[2])]
    plo, phi = min(xs), max(xs)
    if r[0] in ('NZ', 'PZ'):
        rlo = rhi = Fraction(0)
    else:
        rlo, rhi = Fraction(r[1]), Fraction(r[2])
    lo, hi = plo + rlo, phi + rhi

    def fl(x, to):
        try:
            y = float(x)
        except OverflowError:
            return math.inf if x > 0 else -math.inf
        if Fraction(y) != x and ((to < 0 and Fraction(y) > x) or (to > 0 and Fraction(y) < x)):
            y = math.nextafter(y, to)
        return y
    flo, fhi = fl(lo, -math.inf), fl(hi, math.inf)
    # an exact zero of a sum of non-zero terms is +0 in round-to-nearest
    return from_real(ft, flo, fhi, 'PZ')


def unary_monotone(ft, v, f, zero_map=None, neg_ok=True, inf_map=None):
    """class transfer of a sign-preserving rounding function (floor/ceil/trunc/nearbyint/round)"""
    out = F([s for s in v.sp])
    if v.neg:
        a, b = f(v.neg[0]), f(v.neg[1])
        out = joinf(out, from_real(ft, min(a, b), max(a, b), 'NZ'))
        out = F([s for s in out.sp if s != 'PZ' or 'PZ' in v.sp] , out.neg, out.pos)
    if v.pos:
        a, b = f(v.pos[0]), f(v.pos[1])
        out = joinf(out, from_real(ft, min(a, b), max(a, b), 'PZ'))
    return out


def fsqrt(ft, v):
    out = F([s for s in v.sp if s in ('N', 'PZ', 'NZ', 'PI')] + (['N'] if 'NI' in v.sp else []))
    if v.neg:
        out = joinf(out, F(['N']))
    if v.pos:
        out = joinf(out, from_real(ft, math.sqrt(v.pos[0]), math.sqrt(v.pos[1])))
        out = F([s for s in out.sp if s not in ('PI',) or 'PI' in v.sp], out.neg, out.pos)
    return out


def fcmp(pred, a, b):
    """set of possible truth values"""
    res = set()
    for p in pieces(a):
        for q in pieces(b):
            if p[0] == 'N' or q[0] == 'N':
                res.add(pred[0] == 'u' and pred != 'uno' or pred == 'uno' or pred == 'une')
                if pred == 'ord':
                    res.discard(True)
                    res.add(False)
                continue
            if pred == 'ord':
                res.add(True)
                continue
            if pred == 'uno':
                res.add(False)
                continue
            (l1, h1), (l2, h2) = rng(p, None), rng(q, None)
            base = pred[1:] if pred not in ('oeq', 'one', 'ueq', 'une') else {'oeq': 'eq', 'ueq': 'eq', 'one': 'ne', 'une': 'ne'}[pred]
            if base == 'eq' or base == 'ne':
                if h1 < l2 or h2 < l1:
                    r = set([False])
                elif l1 == h1 == l2 == h2:
                    r = set([True])
                else:
                    r = set([True, False])
                if base == 'ne':
                    r = set(not x for x in r)
            elif base == 'lt':
                r = set([True]) if h1 < l2 else (set([False]) if l1 >= h2 else set([True, False]))
            elif base == 'le':
                r = set([True]) if h1 <= l2 else (set([False]) if l1 > h2 else set([True, False]))
            elif base == 'gt':
                r = set([True]) if l1 > h2 else (set([False]) if h1 <= l2 else set([True, False]))
            elif base == 'ge':
                r = set([True]) if l1 >= h2 else (set([False]) if h1 < l2 else set([True, False]))
            else:
                r = set([True, False])
            res |= r
    return frozenset(res) if res else frozenset([True, False])


TB = frozenset([True, False])


class FPClass(object):
    """forward dataflow fixpoint over the CFG"""

    def __init__(self, module, fn, arg_values, summaries=None, arg_int=False, arg_flags=None):
        self.m = module
        self.fn = fn
        self.blocks = dict((b['id'], b) for b in fn['blocks'])
        self.args = arg_values          # list aligned with fn args: F / None
        self.env = {}
        self.mem = {}
        self.ft = None
        for a, t in zip(arg_values, fn['args']):
            ty = parse_type(t['ty'])
            if ty.kind == 'vec' and ty.elem.kind == 'fp':
                self.ft = FT(ty.elem.bits)
        rt = parse_type(fn['ret'])
        if self.ft is None and rt.kind == 'vec' and rt.elem.kind == 'fp':
            self.ft = FT(rt.elem.bits)
        if self.ft is None:
            self.ft = FT(64)
        self.succ = CFG.successors(fn)
        self.summaries = summaries or {}
        self.unknown = set()
        # identity tracking for the integrality tests (x - trunc(x) == 0): values known to be bit-identical to argument 0
        # in the tracked lane; rounding an argument declared integral (arg_int) is the identity
        self.arg_int = arg_int
        self.same = set()
        # per-argument integrality flags for further arguments: {index: 'int' | 'nonint'}; values identical to such an
        # argument and its roundings are tracked so that y - trunc(y) is +0 resp. a non-zero fraction
        self.arg_flags = dict(arg_flags or {})
        self.same_as = {}        # inst id -> argument index
        self.round_of = {}       # inst id -> argument index (a rounding of that non-integral argument)

    def tyF(self, ty):
        return FT(ty.elem.bits if ty.kind == 'vec' else ty.bits)

    def const(self, c):
        ty = parse_type(c['ty'])
        et = ty.elem if ty.kind == 'vec' else ty
        if 'fpbits' in c:
            import struct
            b = int(c['fpbits'])
            v = struct.unpack('<f', struct.pack('<I', b))[0] if et.bits == 32 else struct.unpack('<d', struct.pack('<Q', b))[0]
            return ('f', self.fconst(v, b, et.bits))
        if 'zero' in c:
            if et.kind == 'fp':
                return ('f', F(['PZ']))
            if et.bits == 1:
                return ('m', frozenset([False]))
            return ('i', 0)
        if 'int' in c:
            if et.bits == 1:
                return ('m', frozenset([bool(int(c['int']))]))
            return ('i', int(c['int']))
        if 'elems' in c:
            vs = [self.const(e) for e in c['elems']]
            out = vs[0]
            for v in vs[1:]:
                out = self.join(out, v)
            return out
        if 'undef' in c or 'poison' in c:
            return ('u',)
        return ('top',)

    def sign_bits_set(self, c):
        """does every element of this constant have its sign bit set (so that vtestc(a, c) is 'every lane of a set')"""
        ty = parse_type(c['ty'])
        et = ty.elem if ty.kind == 'vec' else ty
        if 'elems' in c:
            return all(self.sign_bits_set(e) for e in c['elems'])
        if 'fpbits' in c:
            return bool(int(c['fpbits']) >> (et.bits - 1))
        if 'int' in c:
            return bool((int(c['int']) & ((1 << et.bits) - 1)) >> (et.bits - 1))
        return False

    def fconst(self, v, bits_, w):
        if v != v:
            return F(['N'])
        if v == math.inf:
            return F(['PI'])
        if v == -math.inf:
            return F(['NI'])
        if v == 0:
            return F(['NZ' if math.copysign(1, v) < 0 else 'PZ'])
        return F([], (v, v) if v < 0 else None, (v, v) if v > 0 else None)

    def join(self, a, b):
        if a is None:
            return b
        if b is None:
            return a
        if a == b:
            return a
        if a[0] == 'u':
            return b
        if b[0] == 'u':
            return a
        if a[0] == 'f' and b[0] == 'f':
            return ('f', joinf(a[1], b[1]))
        if a[0] == 'm' and b[0] == 'm':
            return ('m', a[1] | b[1])
        if a[0] in ('bits', 'sgn') and b[0] == a[0]:
            return (a[0], joinf(a[1], b[1]))
        if a[0] == 'i' and b[0] == 'i':
            return ('i', None)
        if set([a[0], b[0]]) <= set(['bits', 'f']):
            return ('bits', joinf(a[1], b[1]))
        return ('top',)

    def val(self, o):
        k = o['k']
        if k == 'v':
            return self.env.get(o['id'], ('u',))
        if k == 'a':
            a = self.args[o['i']]
            if a is None:
                ty = parse_type(self.fn['args'][o['i']]['ty'])
                if ty.kind == 'vec' and ty.elem.kind == 'fp':
                    return ('f', top_f(FT(ty.elem.bits)))
                if ty.kind == 'ptr':
                    return ('p', o['i'])
                return ('top',)
            return ('f', a)
        if k == 'c':
            return self.const(o)
        return ('top',)

    def asF(self, v, ty):
        """view an abstract value as a float lane of type ty"""
        if v[0] in ('f', 'bits'):
            return v[1]
        if v[0] == 'u':
            return F()
        return top_f(self.tyF(ty))

    def run(self):
        idom, order, preds = CFG.dominators(self.fn, self.succ)
        self.mem_out = {}
        entry = self.fn['blocks'][0]['id']
        self.edges = set()           # feasible CFG edges (pred, succ)
        nupd = {}
        converged = False
        for it in range(80):
            changed = False
            for b in order:
                if b != entry and not any((p, b) in self.edges for p in preds.get(b, [])):
                    continue
                st = {}
                for p in preds.get(b, []):
                    if (p, b) not in self.edges:
                        continue
                    mo = self.mem_out.get(p)
                    if mo:
                        for k, v in mo.items():
                            st[k] = self.join(st.get(k), v)
                self.mem = st
                self.cur_block = b
                for inst in self.blocks[b]['insts']:
                    new = self.step(inst)
                    if new is None:
                        continue
                    old = self.env.get(inst['id'])
                    j = self.join(old, new) if old is not None else new
                    if j != old:
                        nupd[inst['id']] = nupd.get(inst['id'], 0) + 1
                        if nupd[inst['id']] > 5 and old is not None:
                            j = self.widen(old, j, parse_type(inst['ty']))
                        self.env[inst['id']] = j
                        changed = True
                if self.mem_out.get(b) != st:
                    self.mem_out[b] = dict(st)
                    changed = True
                for s_ in self.feasible(self.blocks[b]['insts'][-1], b):
                    if (b, s_) not in self.edges:
                        self.edges.add((b, s_))
                        changed = True
            if not changed:
                converged = True
                break
        if not converged:
            raise ValueError('class fixpoint of %s did not converge' % self.fn['name'][:80])
        out = None
        for b in self.fn['blocks']:
            t = b['insts'][-1]
            if t['op'] == 'ret' and t['ops'] and (b['id'] == entry or any((p, b['id']) in self.edges for p in preds.get(b['id'], []))):
                out = self.join(out, self.val(t['ops'][0]))
        return out

    def arg_of(self, o):
        """index of the flagged argument this operand is bit-identical to (tracked lane), or None"""
        if o['k'] == 'a' and o['i'] in self.arg_flags:
            return o['i']
        if o['k'] == 'v':
            return self.same_as.get(o['id'])
        return None

    def is_x(self, o):
        return (o['k'] == 'a' and o['i'] == 0 and self.args[0] is not None) or (o['k'] == 'v' and o['id'] in self.same)

    def as_mv(self, v, other, W):
        if other[0] == 'mv' and v[0] == 'i' and v[1] in (0, (1 << W) - 1, -1):
            return ('mv', frozenset([v[1] != 0]))
        return v

    def fbits(self):
        """element width of the function's floating-point argument (the elementary functions are single-typed)"""
        for a in self.fn['args']:
            t = parse_type(a['ty'])
            e = t.elem if t.kind == 'vec' else t
            if e.kind == 'fp':
                return e.bits
        t = parse_type(self.fn['ret'])
        e = t.elem if t.kind == 'vec' else t
        return e.bits if e.kind == 'fp' else 0

    def widen(self, old, new, ty):
        """interval widening for values that keep growing (loop counters): a bound that moved jumps to its extreme"""
        if old[0] != new[0] or new[0] not in ('f', 'bits', 'sgn'):
            return new
        if self.fbits() not in (32, 64):
            return new
        ft = FT(self.fbits())
        a, b = old[1], new[1]

        def w(o, n, lo_ext, hi_ext):
            if n is None or o is None:
                return n
            return (min(lo_ext, n[0]) if n[0] < o[0] else n[0], max(hi_ext, n[1]) if n[1] > o[1] else n[1])
        return (new[0], F(b.sp, w(a.neg, b.neg, -ft.max, -ft.tiny), w(a.pos, b.pos, ft.tiny, ft.max)))

    def feasible(self, t, bid):
        """successors of block bid that this lane's abstract state allows"""
        if t['op'] != 'br' or len(t['ops']) != 3:
            return self.succ[bid]
        c = self.val(t['ops'][0])
        fdest, tdest = t['ops'][1]['id'], t['ops'][2]['id']
        if c[0] == 'm':
            if c[1] == frozenset([True]):
                return [tdest]
            if c[1] == frozenset([False]):
                return [fdest]
        if c[0] == 'q' and len(c) == 3:
            kind, lm = c[1], c[2]
            # the tracked lane alone decides the whole-batch test in these cases (the other lanes are arbitrary)
            if kind == 'any' and lm == frozenset([True]):
                return [tdest]
            if kind == 'none' and lm == frozenset([True]):
                return [fdest]
            if kind == 'all' and lm == frozenset([False]):
                return [fdest]
            if kind == 'notall' and lm == frozenset([False]):
                return [tdest]
        return [tdest, fdest]

    # ------------------------------------------------------------------
    def step(self, inst):
        op = inst['op']
        ty = parse_type(inst['ty'])
        ops = inst.get('ops', [])
        V = self.val
        ft = self.tyF(ty) if (ty.kind in ('vec', 'fp') and (ty.elem.kind if ty.kind == 'vec' else ty.kind) == 'fp') else self.ft
        if op == 'phi':
            out = None
            for inc in inst['incoming']:
                if (inc['bb'], self.cur_block) not in self.edges:
                    continue
                v = V(inc['v'])
                if v[0] == 'u' and inc['v']['k'] == 'v' and inc['v']['id'] not in self.env:
                    continue
                out = self.join(out, v)
            return out
        if op in ('br', 'ret', 'unreachable', 'switch', 'resume', 'store') and op != 'store':
            return None
        if op in ('fadd', 'fsub', 'fmul', 'fdiv', 'frem'):
            a, b = self.asF(V(ops[0]), ty), self.asF(V(ops[1]), ty)
            ia, ib = self.arg_of(ops[0]), self.arg_of(ops[1])
            if op == 'fsub' and ia is not None and ia == ib and ia in self.arg_flags:
                out = F(['PZ']) if (a.neg or a.pos or a.sp & frozenset(['PZ', 'NZ'])) else F()
                if a.sp & frozenset(['N', 'PI', 'NI']):
                    out = joinf(out, F(['N']))
                return ('f', out)
            if op == 'fsub' and ia is not None and self.arg_flags.get(ia) == 'nonint' and ops[1]['k'] == 'v' and self.round_of.get(ops[1]['id']) == ia:
                # y - round(y) for a non-integral finite y: a non-zero fraction (every rounding mode)
                one = 1.0
                return ('f', F([], (-one, -self.tyF(ty).tiny) , (self.tyF(ty).tiny, one)))
            if op == 'fsub' and self.is_x(ops[0]) and self.is_x(ops[1]):
                # x - x: +0 for finite x, NaN for an infinity or a NaN
                out = F(['PZ']) if (a.neg or a.pos or a.sp & frozenset(['PZ', 'NZ'])) else F()
                if a.sp & frozenset(['N', 'PI', 'NI']):
                    out = joinf(out, F(['N']))
                return ('f', out)
            return ('f', binop(ft, op, a, b))
        if op == 'fneg':
            return ('f', fneg(self.asF(V(ops[0]), ty)))
        if op == 'fcmp':
            st = self.oty(ops[0])
            return ('m', fcmp(inst['pred'], self.asF(V(ops[0]), st), self.asF(V(ops[1]), st)))
        if op == 'select':
            c, a, b = V(ops[0]), V(ops[1]), V(ops[2])
            cm = c[1] if c[0] in ('m', 'mv') else TB
            # an all-zero / all-ones integer constant next to a lane mask is a lane mask
            et_ = ty.elem if ty.kind == 'vec' else ty
            if et_.kind == 'int' and et_.bits > 1:
                a, b = self.as_mv(a, b, et_.bits), self.as_mv(b, a, et_.bits)
            if cm == frozenset([True]):
                return a
            if cm == frozenset([False]):
                return b
            return self.join(a, b)
        if op in ('bitcast', 'freeze'):
            v = V(ops[0])
            st = self.oty(ops[0])
            et = ty.elem if ty.kind == 'vec' else ty
            set_ = st.elem if st.kind == 'vec' else st
            if v[0] == 'f' and et.kind == 'int' and et.bits >= 32:
                return ('bits', v[1])
            if v[0] == 'bits' and et.kind == 'fp':
                return ('f', v[1])
            if v[0] == 'bits' and et.kind == 'int':
                return v
            if v[0] == 'm' and ty.kind == 'int':
                return ('red', v[1])
            if v[0] == 'red' and ty.kind == 'vec':
                return ('m', v[1])
            if v[0] == 'mv':
                return v
            if v[0] == 'sgn' and et.kind == 'fp':
                return ('f', self.sgn_as_float(v[1]))
            if v[0] == 'sgn':
                return v
            if et.kind == 'fp' and v[0] == 'i' and v[1] is not None and set_.kind == 'int' and set_.bits == et.bits:
                b_ = v[1] & ((1 << et.bits) - 1)
                x_ = struct.unpack('<f', struct.pack('<I', b_))[0] if et.bits == 32 else struct.unpack('<d', struct.pack('<Q', b_))[0]
                return ('f', self.fconst(x_, b_, et.bits))
            if et.kind == 'fp':
                return ('f', top_f(FT(et.bits)))
            return ('top',) if v[0] != 'i' else v
        if op in ('and', 'or', 'xor'):
            r_ = self.bitop(op, inst, ty, V(ops[0]), V(ops[1]))
            if r_ == ('top',):
                r2 = self.const_int_op(op, inst, ty.elem if ty.kind == 'vec' else ty, ops)
                if r2 is not None:
                    return r2
            return r_
        if op == 'sext':
            v = V(ops[0])
            return ('mv', v[1]) if v[0] == 'm' else ('top',)
        if op in ('sitofp', 'uitofp'):
            st_ = self.oty(ops[0])
            sw_ = (st_.elem if st_.kind == 'vec' else st_).bits
            n_ = self.as_int(V(ops[0]), sw_) if V(ops[0])[0] == 'i' else None
            if n_ is not None and sw_ <= 64:
                if op == 'sitofp' and n_ >> (sw_ - 1):
                    n_ -= 1 << sw_
                x_ = float(n_)
                if (ft.bits == 64 and abs(n_) < 2 ** 53) or (ft.bits == 32 and abs(n_) < 2 ** 24):
                    return ('f', self.fconst(x_, 0, ft.bits))
            w = 2.0 ** 64
            return ('f', F(['PZ'], (-w, -1.0) if op == 'sitofp' else None, (1.0, w)))
        if op in ('fpext', 'fptrunc'):
            v = self.asF(V(ops[0]), self.oty(ops[0]))
            out = F(v.sp)
            if v.neg:
                out = joinf(out, from_real(ft, v.neg[0], v.neg[1], 'NZ'))
            if v.pos:
                out = joinf(out, from_real(ft, v.pos[0], v.pos[1], 'PZ'))
            return ('f', out)
        if op == 'icmp':
            a, b = V(ops[0]), V(ops[1])
            for (x, k) in ((a, b), (b, a)):
                if x[0] == 'red' and k[0] == 'i' and k[1] is not None and inst['pred'] in ('eq', 'ne'):
                    st = self.oty(ops[0])
                    if k[1] == 0:
                        return ('q', 'none' if inst['pred'] == 'eq' else 'any', x[1])
                    if k[1] == (1 << st.bits) - 1:
                        return ('q', 'all' if inst['pred'] == 'eq' else 'notall', x[1])
                if x[0] == 'q' and len(x) == 3 and k == ('i', 0) and inst['pred'] in ('eq', 'ne'):
                    flip = {'none': 'any', 'any': 'none', 'all': 'notall', 'notall': 'all'}
                    return ('q', flip[x[1]] if inst['pred'] == 'eq' else x[1], x[2])
            if a[0] == 'red' or b[0] == 'red' or a[0] == 'q' or b[0] == 'q':
                return ('q',)
            if a[0] == 'mv' and b[0] == 'i' and b[1] is not None:
                st = self.oty(ops[0])
                w = (st.elem.bits if st.kind == 'vec' else st.bits)
                if inst['pred'] == 'slt' and b[1] == 0:
                    return ('m', a[1])
                if inst['pred'] == 'sgt' and b[1] in (-1, (1 << w) - 1):
                    return ('m', frozenset(not t for t in a[1]))
            for (x, k) in ((a, b), (b, a)):
                if x[0] in ('mv', 'm') and k[0] == 'i' and k[1] is not None and inst['pred'] in ('eq', 'ne'):
                    # comparing an all-ones/zero lane with 0 (or -1): the logical negation idiom
                    st = self.oty(ops[0])
                    w = (st.elem.bits if st.kind == 'vec' else st.bits)
                    same = (k[1] == (1 << w) - 1) == (inst['pred'] == 'eq') if k[1] in (0, (1 << w) - 1) else None
                    if same is not None:
                        return ('m', x[1] if same else frozenset(not t for t in x[1]))
            return ('m', TB)
        if op == 'shufflevector':
            a, b = V(ops[0]), V(ops[1])
            msk = inst.get('mask', [])
            st = self.oty(ops[0])
            use_a = any(0 <= m < st.n for m in msk)
            use_b = any(m >= st.n for m in msk)
            out = None
            if use_a:
                out = self.join(out, a)
            if use_b:
                out = self.join(out, b)
            return out if out is not None else ('u',)
        if op == 'extractelement':
            return V(ops[0])
        if op == 'insertelement':
            return self.join(V(ops[0]), V(ops[1]))
        if op == 'alloca':
            return ('al', inst['id'])
        if op == 'getelementptr':
            p = V(ops[0])
            return p if p[0] in ('al', 'p') else ('top',)
        if op == 'load':
            p = V(ops[0])
            et = ty.elem if ty.kind == 'vec' else ty
            if p[0] == 'al':
                v = self.mem.get(p[1])
                if v is not None:
                    if et.kind == 'fp':
                        return ('f', self.asF(v, ty))
                    return v if v[0] != 'f' else ('bits', v[1])
            if p[0] == 'p' and et.kind == 'fp':
                a = self.args[p[1]] if self.ptr_args is None else self.ptr_args.get(p[1])
                return ('f', a if a is not None else top_f(FT(et.bits)))
            if et.kind == 'fp':
                return ('f', top_f(FT(et.bits)))
            return ('top',)
        if op == 'store':
            v, p = V(ops[0]), V(ops[1])
            if p[0] == 'al':
                self.mem[p[1]] = self.join(self.mem.get(p[1]), v)
            return None
        if op in ('call', 'invoke'):
            return self.call(inst, ty, ops, ft)
        if ty.kind == 'void':
            return None
        et = ty.elem if ty.kind == 'vec' else ty
        r = self.const_int_op(op, inst, et, ops)
        if r is not None:
            return r
        if et.kind == 'fp':
            return ('f', top_f(FT(et.bits)))
        return ('top',)

    # ---- constant propagation on singletons: the bit pattern of a point value is an exact integer
    def as_int(self, v, W):
        if v[0] == 'i' and v[1] is not None:
            return v[1] & ((1 << W) - 1)
        if v[0] in ('bits', 'f') and W == self.fbits():
            x = v[1]
            pt = None
            if len(x.sp) == 1 and not x.neg and not x.pos and 'N' not in x.sp:
                pt = {'PZ': 0.0, 'NZ': -0.0, 'PI': math.inf, 'NI': -math.inf}[list(x.sp)[0]]
            elif not x.sp and bool(x.neg) != bool(x.pos):
                iv = x.neg or x.pos
                if iv[0] == iv[1]:
                    pt = iv[0]
            if pt is not None:
                return struct.unpack('<I', struct.pack('<f', pt))[0] if W == 32 else struct.unpack('<Q', struct.pack('<d', pt))[0]
        if v[0] in ('m',) and len(v[1]) == 1 and W == 1:
            return int(list(v[1])[0])
        if v[0] == 'mv' and len(v[1]) == 1:
            return ((1 << W) - 1) if list(v[1])[0] else 0
        return None

    def const_int_op(self, op, inst, et, ops):
        if et.kind != 'int':
            return None
        W = et.bits
        M = (1 << W) - 1
        sg = lambda x, w=W: x - (1 << w) if x >> (w - 1) else x
        if op in ('add', 'sub', 'mul', 'shl', 'lshr', 'ashr', 'and', 'or', 'xor'):
            a, b = self.as_int(self.val(ops[0]), W), self.as_int(self.val(ops[1]), W)
            if a is None or b is None:
                return None
            if op in ('shl', 'lshr', 'ashr') and b >= W:
                return None
            r = {'add': lambda: a + b, 'sub': lambda: a - b, 'mul': lambda: a * b, 'shl': lambda: a << b, 'lshr': lambda: a >> b,
                 'ashr': lambda: sg(a) >> b, 'and': lambda: a & b, 'or': lambda: a | b, 'xor': lambda: a ^ b}[op]()
            return ('i', r & M)
        if op in ('trunc', 'zext', 'sext'):
            st = self.oty(ops[0])
            sw = (st.elem if st.kind == 'vec' else st).bits
            if sw == 1:
                return None
            a = self.as_int(self.val(ops[0]), sw)
            if a is None:
                return None
            return ('i', (sg(a, sw) if op == 'sext' else a) & M)
        if op in ('fptosi', 'fptoui'):
            st = self.oty(ops[0])
            sw = (st.elem if st.kind == 'vec' else st).bits
            a = self.as_int(self.val(ops[0]), sw)
            if a is None:
                return None
            x = struct.unpack('<f', struct.pack('<I', a))[0] if sw == 32 else struct.unpack('<d', struct.pack('<Q', a))[0]
            if x != x or abs(x) >= 2.0 ** (W - 1):
                return None
            return ('i', int(x) & M)
        return None

    ptr_args = None

    def oty(self, o):
        k = o['k']
        if k == 'v':
            return parse_type(self.fn['insts'][o['id']]['ty'])
        if k == 'a':
            return parse_type(self.fn['args'][o['i']]['ty'])
        return parse_type(o['ty'])

    def sgn_as_float(self, fv):
        """float whose only possibly-set bit is the sign bit of fv: +0 or -0"""
        s = set()
        for p in pieces(fv):
            if p[0] == 'N':
                s |= set(['PZ', 'NZ'])
            else:
                s.add('NZ' if sign_of(p) < 0 else 'PZ')
        return F(s)

    def bitop(self, op, inst, ty, a, b):
        et = ty.elem if ty.kind == 'vec' else ty
        W = et.bits
        a, b = self.as_mv(a, b, W), self.as_mv(b, a, W)
        if a[0] == 'm' and b[0] == 'm':
            return ('m', self.mask_op(op, a[1], b[1]))
        if a[0] == 'mv' and b[0] == 'mv':
            return ('mv', self.mask_op(op, a[1], b[1]))
        if a[0] == 'red' and b[0] == 'red':
            return ('red', self.mask_op(op, a[1], b[1]))
        for (x, k) in ((a, b), (b, a)):
            if k[0] == 'i' and k[1] is not None:
                c = k[1]
                full = (1 << W) - 1
                # packed constants (two floats in an i64 lane)
                def packed(pat, w_):
                    v = 0
                    for j in range(W // w_):
                        v |= pat << (j * w_)
                    return v
                if x[0] in ('m', 'mv', 'red') and op == 'xor' and c == full:
                    return (x[0], frozenset(not t for t in x[1]))
                for w_ in (32, 64):
                    if W % w_:
                        continue
                    sign = 1 << (w_ - 1)
                    if x[0] in ('bits', 'f', 'sgn'):
                        fv = x[1]
                        if op == 'and' and c == packed(sign - 1, w_):
                            return ('bits', fabs(fv)) if x[0] != 'sgn' else ('bits', F(['PZ']))
                        if op == 'and' and c == packed(sign, w_):
                            return ('sgn', fv)
                        if op == 'xor' and c == packed(sign, w_) and x[0] != 'sgn':
                            return ('bits', fneg(fv))
                        if op == 'or' and c == packed(sign, w_) and x[0] != 'sgn':
                            return ('bits', fneg(fabs(fv)))
                if op == 'and' and c == 0:
                    return ('i', 0)
                if x[0] == 'sgn' and op in ('or', 'xor') and W in (32, 64):
                    # sign word combined with the bit pattern of a non-negative constant: copysign(constant, value);
                    # without AVX512DQ float bit operations are done on i64 lanes holding two floats each
                    fw = self.fbits()
                    c_ = c
                    if W == 64 and fw == 32:
                        if (c >> 32) != (c & 0xffffffff):
                            return ('top',)
                        c_ = c & 0xffffffff
                    elif W != fw:
                        return ('top',)
                    fv_ = struct.unpack('<f', struct.pack('<I', c_))[0] if fw == 32 else struct.unpack('<d', struct.pack('<Q', c_))[0]
                    K = self.fconst(fv_, c_, fw)
                    if not (c_ >> (fw - 1)):
                        return ('bits', copysign(K, x[1]))
                    # a negative constant: xor flips it where the value is negative, or leaves it as it is
                    signs = set()
                    for p_ in pieces(x[1]):
                        signs |= set([1, -1]) if p_[0] == 'N' else set([sign_of(p_)])
                    out = None
                    if 1 in signs or op == 'or':
                        out = joinf(out, K)
                    if -1 in signs and op == 'xor':
                        out = joinf(out, fneg(K))
                    return ('bits', out)
        # sign transfer: value ^ sign-word, value | sign-word
        for (x, s) in ((a, b), (b, a)):
            if s[0] == 'sgn' and x[0] in ('bits', 'f'):
                fv, sv = x[1], s[1]
                signs = set()
                for p in pieces(sv):
                    if p[0] == 'N':
                        signs |= set([1, -1])
                    else:
                        signs.add(sign_of(p))
                if op == 'xor':
                    out = None
                    if 1 in signs:
                        out = joinf(out, fv)
                    if -1 in signs:
                        out = joinf(out, fneg(fv))
                    return ('bits', out)
                if op == 'or':
                    out = None
                    if 1 in signs:
                        out = joinf(out, fv)
                    if -1 in signs:
                        out = joinf(out, fneg(fabs(fv)))
                    return ('bits', out)
            if s[0] == 'sgn' and x[0] == 'sgn' and op == 'xor':
                return ('sgnx', None)
        # blends through vector masks:  and(mv, bits) etc. are left unknown
        if et.kind == 'int':
            return ('top',)
        return ('top',)

    def mask_op(self, op, x, y):
        out = set()
        for p in x:
            for q in y:
                out.add({'and': p and q, 'or': p or q, 'xor': p != q}[op])
        return frozenset(out)

    def call(self, inst, ty, ops, ft):
        name = inst.get('callee') or ''
        V = self.val
        et = ty.elem if ty.kind == 'vec' else ty
        if name.startswith(('llvm.lifetime', 'llvm.dbg', 'llvm.assume')):
            return None
        A = lambda i: self.asF(V(ops[i]), self.oty(ops[i]))
        if name.startswith('llvm.fabs'):
            return ('f', fabs(A(0)))
        if name.startswith('llvm.copysign'):
            return ('f', copysign(A(0), A(1)))
        if name.startswith(('llvm.fma', 'llvm.fmuladd')):
            return ('f', fma(ft, A(0), A(1), A(2)))
        if name.startswith('llvm.sqrt') or re.match(r'^llvm\.x86\.(sse|sse2|avx|avx512)\.(mask\.)?sqrt', name):
            return ('f', fsqrt(ft, A(0)))
        m = re.match(r'^llvm\.(floor|ceil|trunc|rint|nearbyint|round|roundeven)\b', name)
        if m or re.match(r'^llvm\.x86\.(sse41|avx)\.round\.|^llvm\.x86\.avx512\.mask\.rndscale', name):
            f = {'floor': math.floor, 'ceil': math.ceil, 'trunc': math.trunc}.get(m.group(1) if m else '', None)

            def g(x):
                # any rounding mode: the result lies between floor and ceil
                return x
            v = A(0)
            if self.arg_int and self.is_x(ops[0]):
                self.same.add(inst['id'])          # rounding an integral value (any mode) returns it unchanged
                return ('f', v)
            ia_ = self.arg_of(ops[0])
            if ia_ is not None and self.arg_flags.get(ia_) == 'int':
                self.same_as[inst['id']] = ia_
                return ('f', v)
            if ia_ is not None and self.arg_flags.get(ia_) == 'nonint':
                self.round_of[inst['id']] = ia_
            out = F(v.sp)
            if v.neg:
                out = joinf(out, from_real(ft, math.floor(v.neg[0]) if abs(v.neg[0]) < 1e300 else v.neg[0], min(math.ceil(v.neg[1]) if abs(v.neg[1]) < 1e300 else v.neg[1], -0.0), 'NZ'))
                out = F([s for s in out.sp if s != 'PZ' or 'PZ' in v.sp], out.neg, out.pos)
            if v.pos:
                out = joinf(out, from_real(ft, max(math.floor(v.pos[0]) if v.pos[0] < 1e300 else v.pos[0], 0.0), math.ceil(v.pos[1]) if v.pos[1] < 1e300 else v.pos[1], 'PZ'))
                out = F([s for s in out.sp if s != 'NZ' or 'NZ' in v.sp or v.neg], out.neg, out.pos)
            out = F([s for s in out.sp if s not in ('PI', 'NI') or s in v.sp], out.neg, out.pos)
            return ('f', out)
        if re.match(r'^llvm\.x86\.(sse|sse2|avx|avx512)\.(min|max)\.', name) or name.startswith(('llvm.minnum', 'llvm.maxnum')):
            a, b = A(0), A(1)
            # MINPS/MAXPS return the second operand when unordered; otherwise one of the operands
            out = joinf(F(), b)
            if not (a.sp == frozenset(['N']) and not a.neg and not a.pos):
                na = F([s for s in a.sp if s != 'N'], a.neg, a.pos)
                if 'N' not in b.sp or True:
                    out = joinf(out, na)
            return ('f', out)
        if 'blendv' in name:
            a, b, mk = V(ops[0]), V(ops[1]), V(ops[2])
            cm = mk[1] if mk[0] in ('mv', 'm') else TB
            if cm == frozenset([True]):
                return b
            if cm == frozenset([False]):
                return a
            return self.join(a, b)
        mt = re.match(r'^llvm\.x86\.(sse41|avx)\.(ptest|vtest)(z|c|nzc)', name)
        if mt:
            a0, b0 = V(ops[0]), V(ops[1])
            if mt.group(3) == 'z' and a0[0] == 'mv' and ops[0] == ops[1]:
                return ('q', 'none', a0[1])           # ZF = no lane set
            allones = ops[1]['k'] == 'c' and self.sign_bits_set(ops[1])
            if mt.group(3) == 'c' and a0[0] == 'mv' and allones:
                return ('q', 'all', a0[1])            # CF = (~a & ones) has no lane set = every lane of a set
            return ('q',)
        mc = re.match(r'^llvm\.x86\.(sse2|avx|avx2|avx512)\.(mask\.)?(cvtt|cvt)\.?(ps|pd)2dq', name)
        if mc and et.kind == 'int':
            st = self.oty(ops[0])
            sw = (st.elem if st.kind == 'vec' else st).bits
            a_ = self.as_int(V(ops[0]), sw)
            if a_ is not None and (not mc.group(2) or self.as_int(V(ops[2]), 16) is not None or True):
                x_ = struct.unpack('<f', struct.pack('<I', a_))[0] if sw == 32 else struct.unpack('<d', struct.pack('<Q', a_))[0]
                if x_ == x_ and abs(x_) < 2.0 ** 31 and not mc.group(2):
                    n_ = int(x_) if mc.group(3) == 'cvtt' else int(round(x_))     # round(): half to even, the default MXCSR mode
                    return ('i', n_ & 0xffffffff)
            return ('top',)
        if 'movmsk' in name:
            a0 = V(ops[0])
            return ('red', a0[1]) if a0[0] == 'mv' else ('q',)
        if name.startswith('llvm.vector.reduce.or'):
            a0 = V(ops[0])
            return ('red', a0[1]) if a0[0] in ('mv', 'm') else ('q',)
        if name.startswith('llvm.vector.reduce.'):
            return ('q',)
        if 'scalef' in name:
            pa, pb = self.as_int(V(ops[0]), ft.bits), self.as_int(V(ops[1]), ft.bits)
            if pa is not None and pb is not None:
                dec = (lambda b_: struct.unpack('<f', struct.pack('<I', b_))[0]) if ft.bits == 32 else (lambda b_: struct.unpack('<d', struct.pack('<Q', b_))[0])
                xa, xb = dec(pa), dec(pb)
                if abs(xa) != math.inf and abs(xb) < 64 and xa != 0:
                    r_ = Fraction(xa) * Fraction(2) ** int(math.floor(xb))      # exact: a power-of-two scaling well inside the range
                    if ft.tiny * 2.0 ** 30 < abs(r_) < ft.max / 2.0 ** 30:
                        return ('f', self.fconst(float(r_), 0, ft.bits))
            a = A(0)
            out = F([s for s in a.sp if s == 'N'])
            b = A(1)
            if 'N' in b.sp:
                out = joinf(out, F(['N']))
            for p in pieces(a):
                if p[0] == 'N':
                    continue
                s = sign_of(p)
                if p[0] in ('NI', 'PI'):
                    out = joinf(out, F([p[0]] + (['N'] if 'NI' in b.sp else [])))
                elif p[0] in ('NZ', 'PZ'):
                    out = joinf(out, F([p[0]] + (['N'] if 'PI' in b.sp else [])))
                else:
                    out = joinf(out, F(['PZ', 'PI'], None, (self.ft.tiny, self.ft.max)) if s > 0 else F(['NZ', 'NI'], (-self.ft.max, -self.ft.tiny), None))
            return ('f', out)
        if re.match(r'^llvm\.x86\..*(rcp|rsqrt)', name):
            return ('f', top_f(ft)) if et.kind == 'fp' else ('top',)
        if name.startswith('llvm.masked.load') or name.startswith('llvm.mem'):
            if name.startswith('llvm.mem'):
                d = V(ops[0])
                if d[0] == 'al':
                    self.mem[d[1]] = ('top',)
                return None
            return ('top',) if et.kind != 'fp' else ('f', top_f(FT(et.bits)))
        fn = self.m.functions.get(name)
        if fn is not None and not fn.get('decl') and name in self.summaries:
            return self.summaries[name](self, [V(o) for o in ops], ty)
        # calls that write through pointer arguments
        for o in ops:
            v = V(o)
            if v[0] == 'al':
                self.mem[v[1]] = ('top',)
        if ty.kind == 'void':
            return None
        if et.kind == 'fp':
            self.unknown.add(name)
            return ('f', top_f(FT(et.bits)))
        return ('top',)
