"""Lane-term obligations: wrapper generation for (op, config, type, variant),
compilation, normalisation, comparison against spec forms / templates."""
import os
import sys
import json
import time
import hashlib
import traceback
from concurrent.futures import ProcessPoolExecutor

from . import terms as T
from . import ir, lanes, build
from catalogue import configs as C

CTYPE = dict((t.name, t.c) for t in C.ALL)
UTYPE = {8: 'uint8_t', 16: 'uint16_t', 32: 'uint32_t', 64: 'uint64_t'}
ARGN = {'b': ['a', 'b', 'c', 'd', 'e', 'f'], 'm': ['m', 'n'], 's': ['s', 't', 'w'], 'k': ['k', 'l'], 'u': ['u', 'v'], 'p': ['p', 'q'], 'P': ['o', 'r'], 'x': ['x', 'y']}
ITYPE = {8: 'int8_t', 16: 'int16_t', 32: 'int32_t', 64: 'int64_t'}


def variants_of(op, ty, cfg=None, tier='quick'):
    if op.variants is None:
        return [{}]
    import inspect
    nargs = len(inspect.signature(op.variants).parameters)
    vs = op.variants(ty) if nargs == 1 else (op.variants(ty, cfg) if nargs == 2 else op.variants(ty, cfg, tier))
    out = []
    seen = set()
    for v in vs:
        k = repr(sorted(v.items()))
        if k not in seen:
            seen.add(k)
            out.append(v)
    return out


def _vstr(x):
    if isinstance(x, (list, tuple)):
        return 'x'.join(str(e) for e in x)
    return str(x)


def wname(op, ty, var):
    s = 'k_%s_%s' % (op.name, ty.name)
    for k in sorted(var):
        s += '_%s%s' % (k, _vstr(var[k]))
    s = ''.join(ch if (ch.isalnum() or ch == '_') else ('m' if ch == '-' else '_') for ch in s)
    if len(s) > 120:
        s = s[:80] + '_h' + hashlib.sha1(s.encode()).hexdigest()[:16]
    return s


def fmt_var(var, lit=None, ty=None):
    f = (lambda k, e: lit(ty, k, e)) if lit else (lambda k, e: str(e))
    return dict((k, (', '.join(f(k, e) for e in v) if isinstance(v, (list, tuple)) else (lit(ty, k, v) if lit else v))) for k, v in var.items())


def _call2(f, ty, var):
    import inspect
    return f(ty, var) if len(inspect.signature(f).parameters) == 2 else f(ty)


def wrapper_line(op, ty, var, cfg=None):
    ct = ty.c
    nl = (cfg.bits // ty.bits) if cfg else 0
    names = []
    decl = []
    body = []
    cnt = {'b': 0, 'm': 0, 's': 0, 'u': 0, 'p': 0, 'P': 0, 'x': 0, 'k': 0}
    for k in op.params:
        if k == 'E':
            for i in range(nl):
                names.append(('e', 'e%d' % i))
                decl.append('%s e%d' % (ct, i))
            continue
        nm = ARGN[k][cnt[k]]
        cnt[k] += 1
        names.append((k, nm))
        if k == 'b':
            decl.append('R_<%s> %s_' % (ct, nm))
            body.append('B_<%s> %s(%s_);' % (ct, nm, nm))
        elif k == 'm':
            decl.append('Q_<%s> %s_' % (ct, nm))
            body.append('M_<%s> %s(%s_);' % (ct, nm, nm))
        elif k == 's':
            decl.append('%s %s' % (ct, nm))
        elif k == 'k':
            decl.append('bool %s' % nm)
        elif k == 'x':
            decl.append('R_<%s> %s_' % (ITYPE[ty.bits], nm))
            body.append('B_<%s> %s(%s_);' % (ITYPE[ty.bits], nm, nm))
        elif k == 'u':
            decl.append('uint64_t %s' % nm)
        elif k == 'p':
            decl.append('const %s* %s' % (_call2(op.ptr_type, ty, var) if getattr(op, 'ptr_type', None) else ct, nm))
        elif k == 'P':
            decl.append('%s* %s' % (_call2(op.ptr_type, ty, var) if getattr(op, 'ptr_type', None) else ct, nm))
    fd = dict(T=ct, TN=ty.name, U=UTYPE[ty.bits], IT=ITYPE[ty.bits], ELIST=', '.join('e%d' % i for i in range(nl)))
    fd.update(fmt_var(var, getattr(op, 'lit', None), ty))
    if op.ret == 'void':
        expr = op.expr.format(**fd)
        return 'extern "C" void %s(%s) { %s %s; }' % (wname(op, ty, var), ', '.join(decl), ' '.join(body), expr), names
    rt = {'b': 'R_<%s>' % ct, 'm': 'Q_<%s>' % ct, 's': ct, 'bool': 'bool', 'u64': 'uint64_t', 'int': 'int', 'size': 'size_t'}.get(op.ret) or op.ret.format(**fd)
    expr = op.expr.format(**fd)
    return 'extern "C" %s %s(%s) { %s return %s; }' % (rt, wname(op, ty, var), ', '.join(decl), ' '.join(body), expr), names


def make_tu(cfg, obls):
    lines = [(build.PRELUDE_EMU % {'arch': cfg.arch, 'bytes': cfg.bits // 8}) if cfg.family == 'emu' else (build.PRELUDE % {'arch': cfg.arch})]
    meta = {}
    for (op, ty, var) in obls:
        l, names = wrapper_line(op, ty, var, cfg)
        lines.append(l)
        meta[wname(op, ty, var)] = (op, ty, var, names)
    return '\n'.join(lines) + '\n', meta


def arg_bvs(cfg, fn, ty, names):
    W = ty.bits
    n = cfg.bits // W
    out = []
    specargs = []
    if len(fn['args']) != len(names):
        raise lanes.Unsupported('argument count %d != %d (ABI split?)' % (len(fn['args']), len(names)))
    for a, (k, nm) in zip(fn['args'], names):
        t = ir.parse_type(a['ty'])
        if k == 'b':
            if t.bits != cfg.bits:
                raise lanes.Unsupported('batch argument passed as %s' % a['ty'])
            lanes_ = [T.atom_bv(nm, i, W) for i in range(n)]
            out.append(T.cat(*lanes_))
            specargs.append(lanes_)
        elif k == 'm':
            bits = [T.atom_bv(nm, i, 1) for i in range(n)]
            if cfg.mask_regs:
                if t.kind != 'int':
                    raise lanes.Unsupported('mask argument passed as %s' % a['ty'])
                out.append(T.cat(*(bits + [T.undef(t.bits - n)] if t.bits > n else bits)))
            else:
                if t.bits != cfg.bits:
                    raise lanes.Unsupported('mask argument passed as %s' % a['ty'])
                out.append(T.cat(*[T.rep(b, W) for b in bits]))
            specargs.append(bits)
        elif k == 'x':
            lanes_ = [T.atom_bv(nm, i, W) for i in range(n)]
            out.append(T.cat(*lanes_))
            specargs.append(lanes_)
        elif k == 'e':
            bv = T.atom_bv(nm, 0, W)
            out.append((T.sext if ty.signed else T.zext)(bv, t.bits) if t.bits > W else bv)
            specargs.append([bv])
        elif k == 'u':
            # contract of from_mask: the mask is an n-bit value (the library asserts mask < 2^n)
            bv = T.cat(*([T.atom_bv(nm, i, 1) for i in range(n)] + [T.const(64 - n, 0)]))
            out.append(bv)
            specargs.append(bv)
        elif k in ('p', 'P'):
            out.append(lanes.Ptr('arg:' + nm, 0))
            specargs.append(nm)
        elif k == 'k':
            bit = T.atom_bv(nm, 0, 1)
            out.append(T.cat(bit, T.const(t.bits - 1, 0)) if t.bits > 1 else bit)
            specargs.append([bit] * n)
        elif k == 's':
            bv = T.atom_bv(nm, 0, W)
            if t.bits > W:   # small integers are promoted to i32 by the ABI (signext/zeroext)
                bv = (T.sext if ty.signed else T.zext)(bv, t.bits)
            out.append(bv)
            specargs.append([bv[:1] if False else T.atom_bv(nm, 0, W)] * n)
    return out, specargs, n


def first_diff(got, want, path=''):
    """locate the innermost differing sub-term; returns (path, got_sub, want_sub)"""
    if got == want:
        return None
    if len(got) == len(want):
        for i, (p, q) in enumerate(zip(got, want)):
            if p == q:
                continue
            if p[0] == 's' and q[0] == 's' and p[2:] == q[2:] and p[1].kind == 'op' and q[1].kind == 'op' \
                    and p[1].name == q[1].name and len(p[1].ops) == len(q[1].ops) and p[1].width == q[1].width:
                for j, (x, y) in enumerate(zip(p[1].ops, q[1].ops)):
                    d = first_diff(x, y, path + '/%s.%d' % (p[1].name, j))
                    if d:
                        return d
            return (path + '[piece %d]' % i, (p,), (q,))
    return (path, got, want)


def src_of(bv):
    for p in bv:
        if p[0] == 's' and p[1].src is not None:
            return ir.src_chain(p[1].src)
        if p[0] == 'r' and p[1][0] == 's' and p[1][1].src is not None:
            return ir.src_chain(p[1][1].src)
    return []


def kernel_lines(ev):
    """distinct innermost source locations (inside include/xsimd/arch) of the analysed instructions"""
    seen = {}
    for inst in ev.insts_seen:
        for (f, l, fn) in inst.get('dbg', []):
            if '/xsimd/arch/' in f or '/xsimd/types/' in f or '/xsimd/memory/' in f or '/xsimd/config/' in f:
                k = '%s:%d' % (f[f.find('xsimd/', f.find('include/')) + 6:], l)
                seen[k] = seen.get(k, 0) + 1
                break
    return sorted(seen, key=lambda k: -seen[k])


def analyse_wrapper(mod, cfg, fn, op, ty, var, names):
    T.reset()
    res = {'op': op.name, 'ty': ty.name, 'var': var, 'cfg': cfg.name}
    try:
        args, specargs, n = arg_bvs(cfg, fn, ty, names)
        in_mem = {}
        for (k, nm) in names:
            if k in ('p', 'P'):
                in_mem['arg:' + nm] = (_call2(op.mem_bits, ty, var) if getattr(op, 'mem_bits', None) else ty.bits)
        ev = lanes.Eval(mod, fn, args, in_mem)
        ev.allow_shared_arms = True
        ev.run()
    except lanes.AssertsFalse as e:
        res.update(status='rejected', why=str(e))
        return res
    except lanes.NotStraightLine as e:
        res.update(status='undecided', why='control flow: %s' % e)
        return res
    except lanes.Unsupported as e:
        res.update(status='undecided', why='unsupported: %s' % e)
        return res
    W = ty.bits
    res['kernel'] = kernel_lines(ev)[:6]
    res['ninst'] = len(ev.insts_seen)
    fm = [c for c in ev.calls if c[0] == 'fast-math']
    if fm:
        res['fastmath'] = True
    ret = ev.ret
    # position uniformity (C13): lane i of the result is the same function of lane i of the operands as lane 0 is of lane 0
    try:
        if ret is not None and not isinstance(ret, (lanes.Ptr, dict)) and n > 1 and T.width(ret) % n == 0 and T.width(ret) // n >= 8:
            from . import dtree
            wl = T.width(ret) // n
            l0 = T.canon(T.slice_(ret, 0, wl))
            bad_u = [i for i in range(1, n) if dtree.rename_lane(T.slice_(ret, i * wl, wl), i) != l0]
            res['uniform'] = not bad_u
            if bad_u:
                res['nonuniform_lanes'] = bad_u[:4]
            if getattr(op, 'whole', False) and getattr(op, 'elementwise', False):
                # lane dependence of an element-wise operation whose spec is a whole-register one (conversions, ldexp)
                for i in range(n):
                    li = T.canon(T.slice_(ret, i * wl, wl))
                    if len(li) == 1 and li[0][0] == 's' and li[0][1].name.startswith('call:llvm.x86.avx512.mask.scalef') and li[0][2] == i * wl:
                        continue            # lane i of a lane-wise hardware instruction kept as one whole-register term (operand lanes are checked by the spec)
                    dep = T.atoms_of(li)
                    bad_dep = [a_ for a_ in dep if a_[1] != i and not a_[0] in ('s', 't')]
                    if bad_dep:
                        res['dep_violation'] = {'lane': i, 'depends_on': sorted(bad_dep)[:4]}
                        break
    except Exception as e:                  # a term the renamer cannot rebuild: no statement
        res['uniform_error'] = repr(e)[:120]
    if getattr(op, 'whole', False):
        return whole_check(res, op, ty, cfg, var, ev, specargs, n)
    if ret is None or isinstance(ret, lanes.Ptr) or isinstance(ret, dict):
        res.update(status='undecided', why='return value shape')
        return res
    labels = set()
    klass = 'P'
    deps_ok = True
    scalar = op.ret in ('s', 'bool')
    for i in range(1 if scalar else n):
        if op.ret == 's':
            got = T.canon(T.slice_(ret, 0, W))
        elif op.ret == 'bool':
            got = T.slice_(ret, 0, 1)
        elif op.ret == 'b':
            got = T.canon(T.slice_(ret, i * W, W))
        elif op.ret == 'm':
            if cfg.mask_regs:
                got = T.slice_(ret, i, 1)
            else:
                got = T.canon(T.slice_(ret, i * W, W))
        else:
            raise AssertionError(op.ret)
        lane_args = [sa[i] for sa in specargs]
        alts = op.spec(ty, *lane_args, **var)
        hit = None
        if alts and alts[0][0] == '__poly__':
            # sum-of-products comparison (C16): the lane term with every rounding erased must be the textbook polynomial
            from catalogue import specs as S_
            want, den = alts[0][2]
            try:
                gt = T.single_term(got)
                if den is not None:
                    if gt is None or gt.name != 'fdiv':
                        raise S_.NotPoly('result is not a quotient')
                    ok = S_.fp_poly(gt.ops[0]) == want and S_.fp_poly(gt.ops[1]) == den
                else:
                    ok = S_.fp_poly(got) == want
                why = 'polynomial differs'
            except S_.NotPoly as e:
                ok, why = False, str(e)
            dep = T.atoms_of(got)
            if [a for a in dep if a[1] != i and not a[0] in ('s', 't')]:
                deps_ok = False
            if not ok:
                res['fp'] = hashlib.sha1(T.fmt(got, 60).encode()).hexdigest()[:12]
                res.update(status='mismatch', lane=i, got=T.fmt(got, 8)[:1500], want='textbook sum of products %s%s' % (sorted(want.items())[:6], ' / %s' % sorted(den.items()) if den else ''),
                           diff_path='', diff_got='%s: %s' % (why, T.fmt(got, 6)[:400]), diff_want='sum-of-products form', chain=src_of(got), deps_ok=deps_ok)
                return res
            labels.add('sum of products')
            continue
        proc_why = None
        for (label, k, want) in alts:
            if k == 'D':
                continue
            if op.ret == 'm' and not cfg.mask_regs:
                want = T.rep(want, W)
            want = T.canon(want)
            if op.ret == 's' and T.width(want) != W:
                continue
            if want == got:
                hit = (label, k)
                break
        if hit is None:
            # alternatives decided by a procedure (catalogue/specs.D), tried only when no form matches structurally
            for (label, k, want) in alts:
                if k != 'D':
                    continue
                verdict, detail = want(got)
                if verdict is True:
                    hit = (label + ' [%s]' % detail, 'P')
                    break
                proc_why = '%s: %s' % (label, detail)
        alts = [x for x in alts if x[1] != 'D']
        if hit is None and getattr(op, 'tree', False):
            # same function up to how the nest of selects is expressed (engine/dtree.py: equal decision trees over the
            # comparison conditions, leaves re-canonicalised)
            from . import dtree
            for (label, k, want) in alts:
                if op.ret == 'm' and not cfg.mask_regs:
                    want = T.rep(want, W)
                if T.width(want) == T.width(got) and dtree.same(got, T.canon(want)):
                    hit = (label + ' (decision-tree equal)', k)
                    break
        # lane dependence (C13), recorded for every wrapper
        dep = T.atoms_of(got)
        bad_dep = [a for a in dep if a[1] != i and not a[0] in ('s', 't')]
        if bad_dep:
            deps_ok = False
            res['dep_violation'] = {'lane': i, 'depends_on': sorted(bad_dep)[:4]}
        if hit is None:
            label, k, want = alts[0]
            if op.ret == 'm' and not cfg.mask_regs:
                want = T.rep(want, W)
            want = T.canon(want)
            d = first_diff(got, want)
            res['fp'] = hashlib.sha1(T.fmt(got, 60).encode()).hexdigest()[:12]
            res.update(status='mismatch', lane=i, got=T.fmt(got, 8)[:1500], want=T.fmt(want, 8)[:1500],
                       diff_path=d[0], diff_got=T.fmt(d[1], 4)[:400], diff_want=T.fmt(d[2], 4)[:400],
                       chain=src_of(d[1]) or src_of(got))
            if proc_why:
                res['diff_want'] = (res['diff_want'] + ' | ' + proc_why)[:700]
            res['deps_ok'] = deps_ok
            return res
        labels.add(hit[0])
        if hit[1] == 'I':
            klass = 'I'
    # upper bits of a k-register result must be zero or don't-care: they are not lanes
    res.update(status=klass, label='|'.join(sorted(labels)), deps_ok=deps_ok)
    if ev.assumed:
        res['assumed'] = len(ev.assumed)
    return res


def whole_check(res, op, ty, cfg, var, ev, specargs, n):
    """operations whose result is not a per-lane map (reductions, mask(), all/any, memory): the spec function
    receives the evaluator and returns (ok, label, class, explanation)"""
    try:
        ok, label, klass, why = op.spec(ty, cfg, n, specargs, ev, **var)
    except lanes.Unsupported as e:
        res.update(status='undecided', why='unsupported: %s' % e)
        return res
    if ok:
        res.update(status=klass, label=label, deps_ok=True)
    else:
        got = ev.ret if (ev.ret is not None and not isinstance(ev.ret, (lanes.Ptr, dict))) else ()
        res.update(status='mismatch', lane=None, got=T.fmt(got, 8)[:1500], want=label, diff_path='', diff_got=why[:600], diff_want=label,
                   chain=src_of(got) if got else [], fp=hashlib.sha1((T.fmt(got, 60) + why).encode()).hexdigest()[:12], deps_ok=True)
    return res


def run_tu(job):
    """worker: (cfgname, group, [(opname, tyname, var)]) -> list of results"""
    cfgname, obl_ids = job
    from catalogue import ops as O
    cfg = C.BY_NAME[cfgname]
    obls = [(O.BY_NAME[o], C.TY_BY_NAME[t], v) for (o, t, v) in obl_ids]
    out = []
    try:
        text, meta = make_tu(cfg, obls)
        syn = build.syntax_check(text, cfg.flags)
        bad = syn['bad']
        if syn['rc'] != 0 and not bad:
            return [{'cfg': cfgname, 'status': 'broken', 'why': 'front end failed without attributable error: ' + syn['stderr_tail'][-800:]}]
        good = [(o, t, v) for (o, t, v) in obls if wname(o, t, v) not in bad]
        for (o, t, v) in obls:
            if wname(o, t, v) in bad:
                out.append({'op': o.name, 'ty': t.name, 'var': v, 'cfg': cfgname, 'status': 'rejected', 'why': bad[wname(o, t, v)][:200]})
        if not good:
            return out
        # clang reports an error inside a template instantiation only once per TU, so a second wrapper that
        # needs the same ill-formed instantiation surfaces only when the first is gone: iterate
        for _round in range(64):
            text, meta = make_tu(cfg, good)
            ll, err = build.compile_tu(text, cfg.flags)
            if ll is not None:
                break
            more = {}
            if err.startswith('ATTRIBUTED:'):
                more = json.loads(err.split('\n', 1)[0][len('ATTRIBUTED:'):])
            if not more:
                return out + [{'cfg': cfgname, 'status': 'broken', 'why': 'compile failed: ' + err[-800:]}]
            for (o, t, v) in good:
                if wname(o, t, v) in more:
                    out.append({'op': o.name, 'ty': t.name, 'var': v, 'cfg': cfgname, 'status': 'rejected', 'why': more[wname(o, t, v)][:200]})
            good = [(o, t, v) for (o, t, v) in good if wname(o, t, v) not in more]
            if not good:
                return out
        else:
            return out + [{'cfg': cfgname, 'status': 'broken', 'why': 'compile failed after 64 rounds of excluding rejected wrappers'}]
        mod = ir.load_ll(ll)
        for name, (o, t, v, names) in meta.items():
            fn = mod.functions.get(name)
            if fn is None:
                out.append({'op': o.name, 'ty': t.name, 'var': v, 'cfg': cfgname, 'status': 'broken', 'why': 'wrapper missing from IR'})
                continue
            try:
                out.append(analyse_wrapper(mod, cfg, fn, o, t, v, names))
            except AssertionError as e:
                if cfg.family != 'emu':
                    raise
                # emulated architectures: batch_bool is an array of bool, a representation the mask model does not cover
                out.append({'op': o.name, 'ty': t.name, 'var': v, 'cfg': cfgname, 'status': 'undecided', 'why': 'unsupported on the emulated architecture: %r' % (e,)})
            except Exception as e:
                out.append({'op': o.name, 'ty': t.name, 'var': v, 'cfg': cfgname, 'status': 'broken',
                            'why': 'engine exception: %r\n%s' % (e, traceback.format_exc()[-1500:])})
    except Exception as e:
        out.append({'cfg': cfgname, 'status': 'broken', 'why': 'worker exception: %r\n%s' % (e, traceback.format_exc()[-1500:])})
    return out


def run_obligations(obls_by_cfg, jobs=16, chunk=400):
    """obls_by_cfg: {cfgname: [(opname, tyname, var)]} -> list of results"""
    work = []
    for cfgname, obls in obls_by_cfg.items():
        for i in range(0, len(obls), chunk):
            work.append((cfgname, obls[i:i + chunk]))
    res = []
    with ProcessPoolExecutor(max_workers=jobs) as ex:
        for r in ex.map(run_tu, work):
            res.extend(r)
    return res
