"""Wrapper translation units: generation, compilation to LLVM IR, caching.

Every call recompiles from /repo's *current* headers: the cache key contains the
SHA-256 of every file under /repo/include, so a changed header invalidates
everything and an unchanged tree re-uses the IR.
"""
import hashlib
import os
import subprocess
import tempfile
import json

REPO = os.environ.get('VERIF_REPO', '/repo')
ROOT = os.path.dirname(os.path.dirname(os.path.abspath(__file__)))
CACHE = os.path.join(ROOT, '.cache')
XIR = os.path.join(ROOT, 'bin', 'xir')

BASE_FLAGS = ['-std=c++11', '-O2', '-gline-tables-only', '-UNDEBUG', '-ffp-contract=off',
              '-Wno-argument-outside-range', '-Wno-unknown-warning-option', '-w',
              '-mllvm', '-unroll-threshold=2000', '-S', '-emit-llvm']

_hh = None


def headers_hash():
    global _hh
    if _hh is None:
        h = hashlib.sha256()
        inc = os.path.join(REPO, 'include')
        for dp, dn, fn in sorted(os.walk(inc)):
            dn.sort()
            for f in sorted(fn):
                p = os.path.join(dp, f)
                h.update(p.encode())
                with open(p, 'rb') as fh:
                    h.update(fh.read())
        _hh = h.hexdigest()
    return _hh


PRELUDE_EMU = r'''
#include <xsimd/xsimd.hpp>
#include <cstdint>
#include <complex>
// the emulated architectures keep a batch in a std::array: the wrappers exchange it as one vector register
typedef %(arch)s A;
template <class T> using V_ = T __attribute__((vector_size(%(bytes)d)));
template <class T> struct R_
{
    V_<T> v;
    R_() = default;
    R_(xsimd::batch<T, A> const& b) noexcept { __builtin_memcpy(&v, &b.data, sizeof v); }
};
template <class T> struct B_ : xsimd::batch<T, A>
{
    B_(R_<T> r) noexcept { __builtin_memcpy(&this->data, &r.v, sizeof r.v); }
};
template <class T> using M_ = xsimd::batch_bool<T, A>;
template <class T> using Q_ = typename xsimd::batch_bool<T, A>::register_type;
template <class T> using C_ = xsimd::batch<std::complex<T>, A>;
extern "C" {
R_<int8_t> ext_f_i8(R_<int8_t>, R_<int8_t>) noexcept; R_<uint8_t> ext_f_u8(R_<uint8_t>, R_<uint8_t>) noexcept;
R_<int16_t> ext_f_i16(R_<int16_t>, R_<int16_t>) noexcept; R_<uint16_t> ext_f_u16(R_<uint16_t>, R_<uint16_t>) noexcept;
R_<int32_t> ext_f_i32(R_<int32_t>, R_<int32_t>) noexcept; R_<uint32_t> ext_f_u32(R_<uint32_t>, R_<uint32_t>) noexcept;
R_<int64_t> ext_f_i64(R_<int64_t>, R_<int64_t>) noexcept; R_<uint64_t> ext_f_u64(R_<uint64_t>, R_<uint64_t>) noexcept;
R_<float> ext_f_f32(R_<float>, R_<float>) noexcept; R_<double> ext_f_f64(R_<double>, R_<double>) noexcept;
}
'''

PRELUDE = r'''
#include <xsimd/xsimd.hpp>
#include <cstdint>
#include <complex>
typedef %(arch)s A;
template <class T> using B_ = xsimd::batch<T, A>;
template <class T> using M_ = xsimd::batch_bool<T, A>;
template <class T> using R_ = typename xsimd::batch<T, A>::register_type;
template <class T> using Q_ = typename xsimd::batch_bool<T, A>::register_type;
template <class T> using C_ = xsimd::batch<std::complex<T>, A>;
extern "C" {
R_<int8_t> ext_f_i8(R_<int8_t>, R_<int8_t>) noexcept; R_<uint8_t> ext_f_u8(R_<uint8_t>, R_<uint8_t>) noexcept;
R_<int16_t> ext_f_i16(R_<int16_t>, R_<int16_t>) noexcept; R_<uint16_t> ext_f_u16(R_<uint16_t>, R_<uint16_t>) noexcept;
R_<int32_t> ext_f_i32(R_<int32_t>, R_<int32_t>) noexcept; R_<uint32_t> ext_f_u32(R_<uint32_t>, R_<uint32_t>) noexcept;
R_<int64_t> ext_f_i64(R_<int64_t>, R_<int64_t>) noexcept; R_<uint64_t> ext_f_u64(R_<uint64_t>, R_<uint64_t>) noexcept;
R_<float> ext_f_f32(R_<float>, R_<float>) noexcept; R_<double> ext_f_f64(R_<double>, R_<double>) noexcept;
}
'''


def compile_tu(text, flags, extra=(), std=None, want='ll'):
    """returns (path_to_ll or None, stderr).  Cached."""
    os.makedirs(CACHE, exist_ok=True)
    fl = list(BASE_FLAGS) + list(flags) + list(extra)
    if std:
        fl[0] = '-std=' + std
    key = hashlib.sha256((headers_hash() + '\0' + text + '\0' + ' '.join(fl)).encode()).hexdigest()[:32]
    ll = os.path.join(CACHE, key + '.ll')
    errp = os.path.join(CACHE, key + '.err')
    if os.path.exists(ll):
        return ll, ''
    if os.path.exists(errp):
        return None, open(errp).read()
    with tempfile.NamedTemporaryFile('w', suffix='.cc', delete=False, dir=CACHE) as f:
        f.write(text)
        src = f.name
    tmp = ll + '.tmp%d' % os.getpid()
    try:
        p = subprocess.run(['clang++'] + fl + ['-ftemplate-backtrace-limit=0', '-I', os.path.join(REPO, 'include'), src, '-o', tmp],
                           stdout=subprocess.PIPE, stderr=subprocess.PIPE, universal_newlines=True)
        if p.returncode != 0:
            # keep the attribution of the diagnostics (the temporary file name is gone after this call)
            bad = attribute_errors(p.stderr, text, src)
            msg = 'ATTRIBUTED:' + json.dumps(bad) + '\n' + p.stderr
            with open(errp, 'w') as f:
                f.write(msg)
            return None, msg
        os.rename(tmp, ll)
        return ll, p.stderr
    finally:
        os.unlink(src)
        if os.path.exists(tmp):
            os.unlink(tmp)


def attribute_errors(stderr, text, src):
    """map clang diagnostics to the one-line wrappers of a TU: an error located on a wrapper line, or a
    note on a wrapper line ("in instantiation of ... requested here") after an error in a header"""
    import re
    bad = {}
    lines = text.split('\n')
    last_err = None
    for l in stderr.split('\n'):
        m = re.match(r'^(.*?):(\d+):(\d+): (fatal error|error|note): (.*)$', l)
        if not m:
            continue
        f_, ln, kind, msg = m.group(1), int(m.group(2)), m.group(4), m.group(5)
        if kind != 'note':
            last_err = msg
        if f_ == src and ln - 1 < len(lines):
            mm = re.search(r'\b([ks]_[A-Za-z0-9_]+)\s*\(', lines[ln - 1])
            if mm:
                bad.setdefault(mm.group(1), last_err or msg)
    return bad


def syntax_check(text, flags, std=None):
    """front-end only; returns list of wrapper names whose definition produced an error."""
    fl = ['-std=' + (std or 'c++11'), '-fsyntax-only', '-ferror-limit=0', '-ftemplate-backtrace-limit=0', '-UNDEBUG', '-Wno-argument-outside-range', '-w'] + list(flags)
    os.makedirs(CACHE, exist_ok=True)
    key = hashlib.sha256((headers_hash() + '\0syn\0' + text + '\0' + ' '.join(fl)).encode()).hexdigest()[:32]
    cp = os.path.join(CACHE, key + '.syn')
    if os.path.exists(cp):
        return json.load(open(cp))
    with tempfile.NamedTemporaryFile('w', suffix='.cc', delete=False, dir=CACHE) as f:
        f.write(text)
        src = f.name
    try:
        p = subprocess.run(['clang++'] + fl + ['-I', os.path.join(REPO, 'include'), src],
                           stdout=subprocess.PIPE, stderr=subprocess.PIPE, universal_newlines=True)
    finally:
        os.unlink(src)
    bad = {}
    # map diagnostics back to wrappers: each wrapper occupies exactly one line of the TU.
    # An error located in the TU, or a note located in the TU ("in instantiation of ... requested
    # here") following an error in a header, marks the wrapper on that line as rejected.
    import re
    lines = text.split('\n')
    last_err = None
    for l in p.stderr.split('\n'):
        m = re.match(r'^(.*?):(\d+):(\d+): (fatal error|error|note): (.*)$', l)
        if not m:
            continue
        f_, ln, kind, msg = m.group(1), int(m.group(2)), m.group(4), m.group(5)
        if kind != 'note':
            last_err = msg
        if f_ == src and ln - 1 < len(lines):
            mm = re.search(r'\b([ks]_[A-Za-z0-9_]+)\s*\(', lines[ln - 1])
            if mm:
                bad.setdefault(mm.group(1), last_err or msg)
    res = {'bad': bad, 'rc': p.returncode, 'stderr_tail': p.stderr[-2000:] if p.returncode and not bad else ''}
    with open(cp, 'w') as f:
        json.dump(res, f)
    return res
