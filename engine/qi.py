"""Rigorous real arithmetic for the kernel-accuracy clause of C10/C11 (nothing here touches floating point):

  QI            closed intervals with dyadic rational end points (integers scaled by 2^-P, outward rounding)
  Poly          univariate polynomials with exact Fraction or QI coefficients
  series        Taylor / power-series enclosures of the elementary functions: a polynomial with rational(-interval)
                coefficients plus a rigorous bound of the tail on |x| <= R
  sup_abs       rigorous upper bound of |p(x)| on an interval (subdivision + centred form)
"""
from fractions import Fraction as Fr

P = 384                      # working precision (bits after the binary point)
ONE = 1 << P


def _fl(fr):                 # floor(fr * 2^P)
    return (fr.numerator << P) // fr.denominator


def _cl(fr):
    return -((-fr.numerator << P) // fr.denominator)


class QI(object):
    __slots__ = ('lo', 'hi')  # scaled integers

    def __init__(self, lo, hi=None, scaled=False):
        if hi is None:
            hi = lo
        if scaled:
            self.lo, self.hi = lo, hi
        else:
            self.lo, self.hi = _fl(Fr(lo)), _cl(Fr(hi))

    @staticmethod
    def of(x):
        return x if isinstance(x, QI) else QI(x)

    def __add__(self, o):
        o = QI.of(o)
        return QI(self.lo + o.lo, self.hi + o.hi, True)
    __radd__ = __add__

    def __neg__(self):
        return QI(-self.hi, -self.lo, True)

    def __sub__(self, o):
        return self + (-QI.of(o))

    def __rsub__(self, o):
        return QI.of(o) - self

    def __mul__(self, o):
        o = QI.of(o)
        c = (self.lo * o.lo, self.lo * o.hi, self.hi * o.lo, self.hi * o.hi)
        return QI(min(c) >> P, -((-max(c)) >> P), True)
    __rmul__ = __mul__

    def inv(self):
        if self.lo <= 0 <= self.hi:
            raise ZeroDivisionError('interval contains zero')
        a, b = (ONE * ONE) // self.hi, -((-ONE * ONE) // self.lo)
        return QI(min(a, b) - 1, max(a, b) + 1, True)

    def __truediv__(self, o):
        return self * QI.of(o).inv()

    def __rtruediv__(self, o):
        return QI.of(o) * self.inv()

    def __pow__(self, n):
        r = QI(1)
        for _ in range(n):
            r = r * self
        return r

    def mag(self):           # upper bound of |x| as a Fraction
        return Fr(max(abs(self.lo), abs(self.hi)), ONE)

    def mig(self):           # lower bound of |x|
        if self.lo <= 0 <= self.hi:
            return Fr(0)
        return Fr(min(abs(self.lo), abs(self.hi)), ONE)

    def lof(self):
        return Fr(self.lo, ONE)

    def hif(self):
        return Fr(self.hi, ONE)

    def mid(self):
        return Fr(self.lo + self.hi, 2 * ONE)

    def hull(self, o):
        return QI(min(self.lo, o.lo), max(self.hi, o.hi), True)

    def widen(self, e):      # add +-e (Fraction >= 0)
        return QI(self.lo - _cl(e), self.hi + _cl(e), True)

    def __repr__(self):
        return '[%.17g, %.17g]' % (float(self.lof()), float(self.hif()))


# ---------------------------------------------------------------- constants to arbitrary precision
def _atanh_series(x, n):
    """2*atanh(x) = 2*sum x^(2k+1)/(2k+1) for rational 0<x<1, with tail bound"""
    s = Fr(0)
    x2 = x * x
    t = x
    for k in range(n):
        s += t / (2 * k + 1)
        t *= x2
    tail = t / (2 * n + 1) / (1 - x2)
    return QI(2 * s, 2 * (s + tail))


_CACHE = {}


def ln2():
    if 'ln2' not in _CACHE:
        _CACHE['ln2'] = _atanh_series(Fr(1, 3), 420)          # ln 2 = 2 atanh(1/3)
    return _CACHE['ln2']


def ln10():
    if 'ln10' not in _CACHE:
        # ln 10 = 3 ln 2 + ln(5/4) = 3 ln 2 + 2 atanh(1/9)
        _CACHE['ln10'] = ln2() * 3 + _atanh_series(Fr(1, 9), 220)
    return _CACHE['ln10']


def pi():
    if 'pi' not in _CACHE:
        # Machin: pi = 16 atan(1/5) - 4 atan(1/239); alternating series: consecutive partial sums bracket the value
        def atan_inv(q, n):
            s = Fr(0)
            x = Fr(1, q)
            x2 = x * x
            t = x
            for k in range(n):
                s += t / (2 * k + 1) if k % 2 == 0 else -t / (2 * k + 1)
                t *= x2
            nxt = t / (2 * n + 1)
            return QI(min(s, s + nxt, s - nxt), max(s, s + nxt, s - nxt))
        _CACHE['pi'] = atan_inv(5, 480) * 16 - atan_inv(239, 150) * 4
    return _CACHE['pi']


def sqrt_qi(x):
    """enclosure of sqrt of a positive rational"""
    x = Fr(x)
    n = (x.numerator << (2 * P)) // x.denominator
    import math
    r = math.isqrt(n)
    return QI(r, r + 1, True)


# ---------------------------------------------------------------- polynomials
class Poly(object):
    """coefficients c[0] + c[1] x + ...; coefficients are Fractions or QIs"""

    def __init__(self, c):
        self.c = list(c)
        while len(self.c) > 1 and self._iszero(self.c[-1]):
            self.c.pop()

    @staticmethod
    def _iszero(x):
        return (not isinstance(x, QI)) and x == 0

    def deg(self):
        return len(self.c) - 1

    def __add__(self, o):
        o = o if isinstance(o, Poly) else Poly([o])
        n = max(len(self.c), len(o.c))
        return Poly([(self.c[i] if i < len(self.c) else 0) + (o.c[i] if i < len(o.c) else 0) for i in range(n)])
    __radd__ = __add__

    def __neg__(self):
        return Poly([-x for x in self.c])

    def __sub__(self, o):
        o = o if isinstance(o, Poly) else Poly([o])
        return self + (-o)

    def __rsub__(self, o):
        return (-self) + o

    def __mul__(self, o):
        if not isinstance(o, Poly):
            return Poly([x * o for x in self.c])
        r = [0] * (len(self.c) + len(o.c) - 1)
        for i, a in enumerate(self.c):
            if self._iszero(a):
                continue
            for j, b in enumerate(o.c):
                if self._iszero(b):
                    continue
                r[i + j] = r[i + j] + a * b
        return Poly(r)
    __rmul__ = __mul__

    def __pow__(self, n):
        r = Poly([Fr(1)])
        for _ in range(n):
            r = r * self
        return r

    def compose(self, q):
        r = Poly([0])
        for a in reversed(self.c):
            r = r * q + a
        return r

    def deriv(self):
        return Poly([self.c[i] * i for i in range(1, len(self.c))] or [0])

    def shift_down(self, k):
        """divide by x^k (the low coefficients must be exactly zero)"""
        for a in self.c[:k]:
            if not self._iszero(a):
                raise ValueError('low-order coefficient is not exactly zero')
        return Poly(self.c[k:] or [0])

    def ev(self, x):
        """Horner evaluation; x a Fraction (exact when all coefficients are Fractions) or a QI"""
        r = 0
        for a in reversed(self.c):
            r = r * x + a
        return r

    def to_qi(self):
        return Poly([QI.of(a) for a in self.c])

    def __repr__(self):
        return 'Poly(deg %d)' % self.deg()


def _mag(x):
    return x.mag() if isinstance(x, QI) else abs(Fr(x))


def _mig(x):
    return x.mig() if isinstance(x, QI) else abs(Fr(x))


def taylor_shift(p, m):
    """coefficients (scaled-integer interval pairs) of p(m + h): Horner-Shaw synthetic division, m an exact Fraction"""
    c = []
    for a in p.c:
        a = QI.of(a)
        c.append([a.lo, a.hi])
    n = len(c)
    num, den = m.numerator, m.denominator
    for k in range(n - 1):
        for j in range(n - 2, k - 1, -1):
            lo, hi = c[j + 1]
            if num >= 0:
                a, b = lo * num, hi * num
            else:
                a, b = hi * num, lo * num
            c[j][0] += a // den
            c[j][1] += -((-b) // den)
    return c


def _pieces(p, lo, hi, pieces):
    """Taylor re-expansion p(m + h) = sum a_k h^k about the midpoint of each sub-interval (exact in the coefficients, so
    without the dependency problem of interval Horner): yields (|a_0| lower bound, |a_0| upper bound, sum_{k>=1} |a_k| r^k)"""
    lo, hi = Fr(lo), Fr(hi)
    for i in range(pieces):
        a = lo + (hi - lo) * i / pieces
        b = lo + (hi - lo) * (i + 1) / pieces
        m, r = (a + b) / 2, (b - a) / 2
        q = taylor_shift(p, m)
        rest = Fr(0)
        rk = Fr(1)
        for k in range(1, len(q)):
            rk *= r
            rest += Fr(max(abs(q[k][0]), abs(q[k][1])), ONE) * rk
        a0 = QI(q[0][0], q[0][1], True)
        yield a0.mig(), a0.mag(), rest


def sup_abs(p, lo, hi, pieces=64):
    """rigorous upper bound (Fraction) of |p(x)| for x in [lo, hi] (p: Poly with Fraction/QI coefficients)"""
    return max(hi0 + rest for (lo0, hi0, rest) in _pieces(p, lo, hi, pieces))


def sup_ratio(num, den, lo, hi, pieces=64, extra=Fr(0)):
    """rigorous upper bound of (|num(x)| + extra |den(x)|) / |den(x)| on [lo, hi], piece by piece
    (extra: a bound of a series tail that multiplies the denominator)"""
    best = Fr(0)
    for (n, d) in zip(_pieces(num, lo, hi, pieces), _pieces(den, lo, hi, pieces)):
        dmin = d[0] - d[2]
        if dmin <= 0:
            raise ZeroDivisionError('denominator may vanish on the domain')
        best = max(best, (n[1] + n[2]) / dmin + extra * (d[1] + d[2]) / dmin)
    return best


def inf_abs(p, lo, hi, pieces=32):
    """rigorous lower bound of |p(x)| on [lo, hi] (0 if a sign change cannot be excluded)"""
    return max(Fr(0), min(lo0 - rest for (lo0, hi0, rest) in _pieces(p, lo, hi, pieces)))


def range_qi(p, lo, hi, pieces=64):
    """rigorous enclosure (QI) of the range of p on [lo, hi]"""
    lo, hi = Fr(lo), Fr(hi)
    out = None
    for i in range(pieces):
        a = lo + (hi - lo) * i / pieces
        b = lo + (hi - lo) * (i + 1) / pieces
        m, r = (a + b) / 2, (b - a) / 2
        q = taylor_shift(p, m)
        rest = Fr(0)
        rk = Fr(1)
        for k in range(1, len(q)):
            rk *= r
            rest += Fr(max(abs(q[k][0]), abs(q[k][1])), ONE) * rk
        c = QI(q[0][0], q[0][1], True).widen(rest)
        out = c if out is None else out.hull(c)
    return out


# ---------------------------------------------------------------- series of the elementary functions
class Series(object):
    """f(x) = poly(x) + tail,  |tail| <= tail_bound for |x| <= R"""

    def __init__(self, poly, tail, R):
        self.poly, self.tail, self.R = poly, tail, Fr(R)


def _geom_tail(first, ratio):
    """sum of a series whose terms are bounded by first * ratio^k, k >= 0, 0 <= ratio < 1"""
    assert 0 <= ratio < 1
    return first / (1 - ratio)


def exp_series(R, scale=None, eps_bits=200):
    """exp(s*x) on |x| <= R; s a QI (default 1)"""
    s = QI(1) if scale is None else scale
    sR = s.mag() * Fr(R)
    c, n = [], 0
    term = Fr(1)                       # (sR)^n / n!
    sk = QI(1)
    fact = 1
    while True:
        c.append(sk * Fr(1, fact))
        n += 1
        fact *= n
        sk = sk * s
        term = term * sR / n
        if term < Fr(1, 1 << eps_bits) and sR / (n + 1) < Fr(1, 2):
            break
    tail = _geom_tail(term, sR / (n + 1))
    return Series(Poly(c), tail, R)


def log1p_over_x_series(R, eps_bits=200):
    """log(1+x)/x = sum (-x)^k/(k+1) on |x| <= R < 1"""
    R = Fr(R)
    assert R < 1
    c, k = [], 0
    t = Fr(1)
    while True:
        c.append(Fr((-1) ** k, k + 1))
        k += 1
        t *= R
        if t / (k + 1) < Fr(1, 1 << eps_bits):
            break
    tail = _geom_tail(t / (k + 1), R)
    return Series(Poly(c), tail, R)


def sin_over_x_series(R, eps_bits=200):
    """sin(x)/x = sum (-1)^k x^(2k)/(2k+1)! as a polynomial in x (even powers)"""
    R = Fr(R)
    c, k = [], 0
    f = 1
    t = Fr(1)
    while True:
        c += [Fr((-1) ** k, f), 0]
        k += 1
        f *= (2 * k) * (2 * k + 1)
        t = R ** (2 * k) / f
        if t < Fr(1, 1 << eps_bits) and R * R / ((2 * k + 2) * (2 * k + 3)) < Fr(1, 2):
            break
    tail = _geom_tail(t, R * R / ((2 * k + 2) * (2 * k + 3)))
    return Series(Poly(c), tail, R)


def cos_series(R, eps_bits=200):
    R = Fr(R)
    c, k = [], 0
    f = 1
    while True:
        c += [Fr((-1) ** k, f), 0]
        k += 1
        f *= (2 * k - 1) * (2 * k)
        t = R ** (2 * k) / f
        if t < Fr(1, 1 << eps_bits) and R * R / ((2 * k + 1) * (2 * k + 2)) < Fr(1, 2):
            break
    tail = _geom_tail(t, R * R / ((2 * k + 1) * (2 * k + 2)))
    return Series(Poly(c), tail, R)


def atan_over_x_series(R, eps_bits=200):
    """atan(x)/x = sum (-1)^k x^(2k)/(2k+1), |x| <= R < 1"""
    R = Fr(R)
    assert R < 1
    c, k = [], 0
    while True:
        c += [Fr((-1) ** k, 2 * k + 1), 0]
        k += 1
        t = R ** (2 * k) / (2 * k + 1)
        if t < Fr(1, 1 << eps_bits):
            break
    tail = _geom_tail(t, R * R)
    return Series(Poly(c), tail, R)


def asin_over_x_series(R, eps_bits=200):
    """asin(x)/x = sum (2k)!/(4^k (k!)^2 (2k+1)) x^(2k), |x| <= R < 1 (positive coefficients, ratio < 1)"""
    R = Fr(R)
    assert R < 1
    c, k = [], 0
    a = Fr(1)                    # (2k)!/(4^k (k!)^2)
    while True:
        c += [a / (2 * k + 1), 0]
        k += 1
        a = a * (2 * k - 1) / (2 * k)
        t = a / (2 * k + 1) * R ** (2 * k)
        if t < Fr(1, 1 << eps_bits):
            break
    tail = _geom_tail(t, R * R)
    return Series(Poly(c), tail, R)


def sinh_over_x_series(R, eps_bits=200):
    """sinh(x)/x = sum x^(2k)/(2k+1)!"""
    R = Fr(R)
    c, k = [], 0
    f = 1
    while True:
        c += [Fr(1, f), 0]
        k += 1
        f *= (2 * k) * (2 * k + 1)
        t = R ** (2 * k) / f
        if t < Fr(1, 1 << eps_bits) and R * R / ((2 * k + 2) * (2 * k + 3)) < Fr(1, 2):
            break
    return Series(Poly(c), _geom_tail(t, R * R / ((2 * k + 2) * (2 * k + 3))), R)


def cosh_series(R, eps_bits=200):
    R = Fr(R)
    c, k = [], 0
    f = 1
    while True:
        c += [Fr(1, f), 0]
        k += 1
        f *= (2 * k - 1) * (2 * k)
        t = R ** (2 * k) / f
        if t < Fr(1, 1 << eps_bits) and R * R / ((2 * k + 1) * (2 * k + 2)) < Fr(1, 2):
            break
    return Series(Poly(c), _geom_tail(t, R * R / ((2 * k + 1) * (2 * k + 2))), R)


def asinh_over_x_series(R, eps_bits=200):
    """asinh(x)/x = sum (-1)^k (2k)!/(4^k (k!)^2 (2k+1)) x^(2k), |x| <= R < 1"""
    R = Fr(R)
    assert R < 1
    c, k = [], 0
    a = Fr(1)
    while True:
        c += [a / (2 * k + 1) * (-1) ** k, 0]
        k += 1
        a = a * (2 * k - 1) / (2 * k)
        t = a / (2 * k + 1) * R ** (2 * k)
        if t < Fr(1, 1 << eps_bits):
            break
    return Series(Poly(c), _geom_tail(t, R * R), R)


def atanh_over_x_series(R, eps_bits=200):
    """atanh(x)/x = sum x^(2k)/(2k+1), |x| <= R < 1"""
    R = Fr(R)
    assert R < 1
    c, k = [], 0
    while True:
        c += [Fr(1, 2 * k + 1), 0]
        k += 1
        t = R ** (2 * k) / (2 * k + 1)
        if t < Fr(1, 1 << eps_bits):
            break
    return Series(Poly(c), _geom_tail(t, R * R), R)


def erf_over_x_series(R, eps_bits=200):
    """erf(x)/x = (2/sqrt(pi)) sum (-1)^k x^(2k)/(k! (2k+1)); coefficients are intervals"""
    R = Fr(R)
    p_ = pi()
    s_lo, s_hi = sqrt_qi(p_.lof()), sqrt_qi(p_.hif())
    two_over = QI(2) / QI(s_lo.lo, s_hi.hi, True)
    c, k = [], 0
    f = 1
    while True:
        c += [two_over * Fr((-1) ** k, f * (2 * k + 1)), 0]
        k += 1
        f *= k
        t = R ** (2 * k) / (f * (2 * k + 1))
        if t < Fr(1, 1 << eps_bits) and R * R / (k + 1) < Fr(1, 2):
            break
    return Series(Poly(c), _geom_tail(t * 2, R * R / (k + 1)), R)


def expm1_over_x_series(R, eps_bits=200):
    """(e^x - 1)/x = sum x^k/(k+1)!"""
    R = Fr(R)
    c, k = [], 0
    f = 1
    while True:
        c.append(Fr(1, f))
        k += 1
        f *= (k + 1)
        t = R ** k / f
        if t < Fr(1, 1 << eps_bits) and R / (k + 2) < Fr(1, 2):
            break
    return Series(Poly(c), _geom_tail(t, R / (k + 2)), R)


# ---------------------------------------------------------------- the scaled complementary error function
def inv_sqrt_pi():
    if 'isp' not in _CACHE:
        p_ = pi()
        s_lo, s_hi = sqrt_qi(p_.lof()), sqrt_qi(p_.hif())
        _CACHE['isp'] = QI(1) / QI(s_lo.lo, s_hi.hi, True)
    return _CACHE['isp']


def erfcx_point(x, eps_bits=300):
    """enclosure of g(x) = exp(x^2) erfc(x) at a rational x >= 1/2: Laplace's continued fraction
         sqrt(pi) g(x) = 1/(x + (1/2)/(x + (2/2)/(x + (3/2)/(x + ...))))
    has positive elements, so consecutive convergents bracket the value; the depth is doubled until they agree to eps_bits"""
    x = Fr(x)
    if x < Fr(1, 2):
        raise ValueError('erfcx_point needs x >= 1/2')
    key = ('erfcx', x, eps_bits)
    if key in _CACHE:
        return _CACHE[key]
    X = QI(x)

    def conv(n):
        t = X
        for k in range(n, 0, -1):
            t = X + QI(Fr(k, 2)) / t
        return QI(1) / t
    n = 64
    while True:
        a, b = conv(n), conv(n + 1)
        h = a.hull(b)
        if h.hi - h.lo < (ONE >> eps_bits) or n > 200000:
            break
        n *= 2
    if h.hi - h.lo >= (ONE >> eps_bits):
        raise ValueError('continued fraction did not converge')
    r = h * inv_sqrt_pi()
    _CACHE[key] = r
    return r


def erfcx_derivs(x, n):
    """[g(x), g'(x), ..., g^(n)(x)] as QIs:  g' = 2 x g - 2/sqrt(pi),  g^(k+1) = 2 x g^(k) + 2 k g^(k-1)"""
    x = Fr(x)
    g = [erfcx_point(x)]
    g.append(g[0] * (2 * x) - inv_sqrt_pi() * 2)
    for k in range(1, n):
        g.append(g[k] * (2 * x) + g[k - 1] * (2 * k))
    return g[:n + 1]


def erfcx_taylor(c, h, n=14):
    """(Poly in t = x - c with QI coefficients, remainder bound) of g on [c - h, c + h], c - h >= 1/2.  g is completely
    monotone ((-1)^k g^(k) > 0 and decreasing in x), so |g^(n+1)| on the piece is at most its value at the left end."""
    c, h = Fr(c), Fr(h)
    d = erfcx_derivs(c, n)
    co, f = [], 1
    for k in range(n + 1):
        if k:
            f *= k
        co.append(d[k] * Fr(1, f))
    dl = erfcx_derivs(c - h, n + 1)
    rem = dl[n + 1].mag() * h ** (n + 1) / (f * (n + 1))
    return Poly(co), rem
