"""Loader for the JSON written by bin/xir, plus LLVM type-string parsing."""
import json
import re
import subprocess
import os

HERE = os.path.dirname(os.path.abspath(__file__))
XIR = os.path.join(os.path.dirname(HERE), 'bin', 'xir')

_ty_cache = {}


class Ty(object):
    __slots__ = ('kind', 'bits', 'n', 'elem', 'elems', 's')
    # kind: int, fp, vec, ptr, void, struct, array, label, other

    def __repr__(self):
        return self.s


def parse_type(s):
    t = _ty_cache.get(s)
    if t is not None:
        return t
    t = Ty()
    t.s = s
    t.n = 0
    t.elem = None
    t.elems = None
    t.bits = 0
    m = re.match(r'^i(\d+)$', s)
    if m:
        t.kind, t.bits = 'int', int(m.group(1))
    elif s in ('float', 'double', 'half', 'x86_fp80', 'fp128', 'bfloat'):
        t.kind = 'fp'
        t.bits = {'float': 32, 'double': 64, 'half': 16, 'x86_fp80': 80, 'fp128': 128, 'bfloat': 16}[s]
    elif s == 'void':
        t.kind = 'void'
    elif s.endswith('*') or s == 'ptr':
        t.kind, t.bits = 'ptr', 64
        if s.endswith('*'):
            t.elem = parse_type(s[:-1].strip()) if not s[:-1].strip().endswith(')') else None
    elif s.startswith('<{') and s.endswith('}>'):
        t.kind = 'struct'
        inner = s[2:-2].strip()
        t.elems = [parse_type(x) for x in _split_top(inner)] if inner else []
        t.bits = sum(e.bits for e in t.elems)
    elif s.startswith('<') and s.endswith('>'):
        m = re.match(r'^<(\d+) x (.*)>$', s)
        t.kind = 'vec'
        t.n = int(m.group(1))
        t.elem = parse_type(m.group(2))
        t.bits = t.n * t.elem.bits
    elif s.startswith('[') and s.endswith(']'):
        m = re.match(r'^\[(\d+) x (.*)\]$', s)
        t.kind = 'array'
        t.n = int(m.group(1))
        t.elem = parse_type(m.group(2))
        t.bits = t.n * t.elem.bits   # NB: ignores padding; only used for packed scalar arrays
    elif s.startswith('{') and s.endswith('}'):
        t.kind = 'struct'
        inner = s[1:-1].strip()
        t.elems = [parse_type(x) for x in _split_top(inner)] if inner else []
        t.bits = sum(e.bits for e in t.elems)   # packed view: only used for {vec,vec}-like aggregates
    elif s == 'label':
        t.kind = 'label'
    else:
        t.kind = 'other'
    _ty_cache[s] = t
    return t


def _split_top(s):
    out, depth, cur = [], 0, ''
    for ch in s:
        if ch in '<[{(':
            depth += 1
        elif ch in '>]})':
            depth -= 1
        if ch == ',' and depth == 0:
            out.append(cur.strip())
            cur = ''
        else:
            cur += ch
    if cur.strip():
        out.append(cur.strip())
    return out


class Module(object):
    def __init__(self, d):
        self.globals = dict((g['name'], g) for g in d['globals'])
        self.functions = dict((f['name'], f) for f in d['functions'])
        for f in d['functions']:
            insts = {}
            for b in f['blocks']:
                for i in b['insts']:
                    insts[i['id']] = i
                    i['bb'] = b['id']
            f['insts'] = insts


def load_ll(path):
    out = subprocess.check_output([XIR, path])
    return Module(json.loads(out))


def src_chain(inst, strip='/repo/include/xsimd/'):
    """innermost-first list of 'file:line' for an instruction"""
    ch = []
    for (f, l, fn) in inst.get('dbg', []):
        i = f.find('include/xsimd/')
        if i >= 0:
            f = f[i + len('include/xsimd/'):]
        ch.append('%s:%d' % (f, l))
    return ch
