"""Constant folding of floating-point sub-terms (used when two lane terms are compared after a branch oracle fixed a
whole-batch decision: constants then flow into arithmetic that LLVM would have folded had it known them).
fadd/fsub/fmul/fdiv/fma of CONSTANT operands are evaluated in IEEE-754 binary32/binary64 (round to nearest even;
binary32 through binary64 arithmetic, which is innocuous for a single +,-,*,/ ); everything else is rebuilt unchanged
through the canonicalising constructors, so comparisons and selects on folded constants simplify as well."""
import struct

from . import terms as T

_FCMP = ('oeq', 'one', 'olt', 'ole', 'ogt', 'oge', 'ueq', 'une', 'ult', 'ule', 'ugt', 'uge', 'ord', 'uno')


def _dec(v, w):
    return struct.unpack('<f', struct.pack('<I', v))[0] if w == 32 else struct.unpack('<d', struct.pack('<Q', v))[0]


def _enc(x, w):
    if w == 32:
        try:
            return struct.unpack('<I', struct.pack('<f', x))[0]
        except OverflowError:
            return 0x7f800000 if x > 0 else 0xff800000
    return struct.unpack('<Q', struct.pack('<d', x))[0]


class Folder(object):
    def __init__(self):
        self.memo = {}

    def fold(self, bv):
        out = []
        for pce in T.canon(bv):
            if pce[0] == 's':
                (_, t, lo, w) = pce
                nb = self.term(t)
                out.append(T.slice_(nb, lo, w))
            elif pce[0] == 'r':
                b = self.fold((pce[1],))
                out.append(T.rep(b, pce[2]) if hasattr(T, 'rep') else (pce,))
            else:
                out.append((pce,))
        return T.canon(T.cat(*out)) if out else bv

    def term(self, t):
        if t.uid in self.memo:
            return self.memo[t.uid]
        r = self._term(t)
        self.memo[t.uid] = r
        return r

    def _term(self, t):
        w = t.width
        same = (('s', t, 0, w),)
        if t.kind == 'arg' or not t.ops:
            return same
        ops = [self.fold(o) if isinstance(o, tuple) else o for o in t.ops]
        n = t.name
        if n in ('fadd', 'fsub', 'fmul', 'fdiv') and w in (32, 64) and all(T.is_const(o) for o in ops):
            a, b = _dec(T.const_val(ops[0]), w), _dec(T.const_val(ops[1]), w)
            try:
                r = {'fadd': lambda: a + b, 'fsub': lambda: a - b, 'fmul': lambda: a * b, 'fdiv': lambda: a / b}[n]()
            except ZeroDivisionError:
                return same
            return T.const(w, _enc(r, w))
        if n == 'fsub' and w in (32, 64) and len(ops) == 2:
            # x - y == x + (-y) bit for bit (IEEE-754): one canonical form, so that n - 2t and n + (-2t) compare equal
            return T.raw_op('fadd', w, ops[0], T.fneg(ops[1]))
        if n == 'sel':
            return T.sel(*ops)
        if n.startswith('f') and n[1:] in _FCMP and w == 1:
            return T.fcmp(n[1:], ops[0], ops[1])
        if n in ('and', 'or', 'xor') and len(ops) == 2:
            return {'and': T.and_, 'or': T.or_, 'xor': T.xor}[n](ops[0], ops[1])
        if n == 'not':
            return T.not_(ops[0])
        if all(T._key(T.canon(o)) == T._key(T.canon(p)) for o, p in zip(ops, t.ops) if isinstance(p, tuple)):
            return same
        return T.raw_op(n, w, *ops, attrs=t.attrs)
