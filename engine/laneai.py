"""Per-lane abstract interpretation of vector functions with whole-batch control flow (C14 mask loops).

The function is interpreted for ONE generic lane of its vector argument x.  The abstract state is a list of CASES;
a case is a closed interval [lo, hi] of x in the element type's own floating-point ordering (-inf .. +inf), or the
single point x = NaN, together with an environment mapping SSA values to

   ('c', v)        a constant of the element type (Python float, exactly rounded to the type)
   ('f', chain)    a monotone function of x: chain is a tuple of ('add', c) / ('neg',) steps applied to x, each step
                   rounded to the element type (so  x - 1 - 1 ...  keeps its own rounding behaviour at 2^24 / 2^53)
   ('m', mask)     a lane mask expression over comparisons of the above with constants
   ('top',)        anything else

Comparisons of a monotone function with a constant are decided on a case by locating the threshold in x by bisection
over the type's bit patterns (the transfer function is evaluated at interval end points in the type's precision);
a case on which a needed mask is not constant is split at the threshold.  Whole-batch branches (any/all/none of a mask)
are nondeterministic for the lane, except that  any(M) false  forces M false on every lane and  all(M) true  forces M
true; a branch is resolved collectively when every case present agrees.  Loops are unrolled abstractly: the loop is
bounded by k when after k iterations no case can have the continuation mask true.

Nothing is executed: no xsimd code runs; the only arithmetic is the checker evaluating  x + c  at interval end points.
"""
import math
import struct

from . import cfg as CFG
from .ir import parse_type

KMAX = 400


class Giveup(Exception):
    pass


# ------------------------------------------------------------------ element type arithmetic
class FT(object):
    def __init__(self, bits):
        self.bits = bits
        self.fmt, self.ifmt = ('<f', '<I') if bits == 32 else ('<d', '<Q')

    def fl(self, v):
        if self.bits == 64 or v != v or v in (math.inf, -math.inf):
            return float(v)
        try:
            return struct.unpack('<f', struct.pack('<f', v))[0]
        except OverflowError:
            return math.inf if v > 0 else -math.inf

    def frombits(self, b):
        return struct.unpack(self.fmt, struct.pack(self.ifmt, b))[0]

    def tobits(self, v):
        return struct.unpack(self.ifmt, struct.pack(self.fmt, v))[0]

    def key(self, v):
        """monotone integer index of a non-NaN value (-inf lowest .. +inf highest; -0 just below +0)"""
        b = self.tobits(v)
        sign = b >> (self.bits - 1)
        mag = b & ((1 << (self.bits - 1)) - 1)
        return -mag - 1 if sign else mag

    def unkey(self, k):
        if k >= 0:
            return self.frombits(k)
        return self.frombits((1 << (self.bits - 1)) | (-k - 1))

    def add(self, a, b):
        return self.fl(a + b)


def eval_chain(ft, chain, x):
    v = x
    for st in chain:
        if st[0] == 'add':
            v = ft.fl(v + st[1])
        elif st[0] == 'neg':
            v = -v
        else:
            raise AssertionError(st)
    return v


def chain_dir(chain):
    d = 1
    for st in chain:
        if st[0] == 'neg':
            d = -d
    return d


TOP = ('top',)


def fcmp_const(pred, a, b):
    un = (a != a) or (b != b)
    o = pred[1:] if pred[0] in 'ou' and pred not in ('ord', 'uno', 'one', 'une', 'oeq', 'ueq') else pred
    base = {'oeq': a == b, 'ogt': a > b, 'oge': a >= b, 'olt': a < b, 'ole': a <= b, 'one': a != b,
            'ueq': a == b, 'ugt': a > b, 'uge': a >= b, 'ult': a < b, 'ule': a <= b, 'une': a != b}
    if pred == 'ord':
        return not un
    if pred == 'uno':
        return un
    if pred == 'true':
        return True
    if pred == 'false':
        return False
    if un:
        return pred[0] == 'u'
    return base[pred]


class Case(object):
    __slots__ = ('lo', 'hi', 'nan', 'env', 'mem', 'active', 'assume')

    def __init__(self, lo, hi, nan, env, mem=None, assume=None):
        self.lo, self.hi, self.nan, self.env, self.mem = lo, hi, nan, env, (mem or {})
        self.active = False
        self.assume = assume or {}     # unknowable lane masks (comparisons of values outside the domain): id -> assumed truth

    def clone(self, lo=None, hi=None):
        return Case(self.lo if lo is None else lo, self.hi if hi is None else hi, self.nan, dict(self.env), dict(self.mem), dict(self.assume))

    def desc(self):
        return 'x = NaN' if self.nan else ('x in [%r, %r]' % (self.lo, self.hi))


class LaneAI(object):
    def __init__(self, module, fn, argidx=0, entry=None):
        """entry: optional (lo, hi, may_be_nan) restriction of the lane input (context of the call sites)"""
        self.entry = entry
        self.call_args = {}     # callee -> [lo, hi, nan] joined over every reachable call site and case
        self.m = module
        self.fn = fn
        self.blocks = dict((b['id'], b) for b in fn['blocks'])
        self.argidx = argidx
        at = parse_type(fn['args'][argidx]['ty'])
        self.ptr_arg = False
        if at.kind == 'ptr':
            # batch passed by reference: the lane input is the vector loaded from the argument
            pt = parse_type(fn['args'][argidx].get('pointee', ''))
            ebits = None
            for b in fn['blocks']:
                for i in b['insts']:
                    if i['op'] == 'load':
                        t = parse_type(i['ty'])
                        if t.kind == 'vec' and t.elem.kind == 'fp':
                            ebits = t.elem.bits
            if ebits is None:
                raise Giveup('argument %d is a pointer and no floating-point vector is loaded' % argidx)
            self.ptr_arg = True
            self.ft = FT(ebits)
        elif at.kind != 'vec' or at.elem.kind != 'fp':
            raise Giveup('argument %d is not a floating-point vector' % argidx)
        else:
            self.ft = FT(at.elem.bits)
        self.loops, self.irreducible, self.succ, self.idom = CFG.natural_loops(fn)
        self.loop_of_header = dict((l.header, l) for l in self.loops)
        self.live_in = self.liveness()
        self.slice = self.control_slice()
        self.precise = True        # cleared once the last loop has been analysed: the tail of the function needs no splitting
        self.results = []      # per loop: dict(header, bound or None, why, active)
        self.notes = []

    # ---- values
    def const_of(self, c):
        ty = parse_type(c['ty'])
        if 'fpbits' in c:
            return ('c', FT(ty.bits).frombits(int(c['fpbits'])))
        if 'zero' in c:
            if ty.kind == 'vec' and ty.elem.kind == 'fp' or ty.kind == 'fp':
                return ('c', 0.0)
            if (ty.kind == 'vec' and ty.elem.bits == 1) or (ty.kind == 'int' and ty.bits == 1):
                return ('m', ('k', False))
            return ('i', 0)
        if 'int' in c:
            if ty.bits == 1:
                return ('m', ('k', bool(int(c['int']))))
            return ('i', int(c['int']))
        if 'elems' in c:
            vs = [self.const_of(e) for e in c['elems']]
            if all(repr(v) == repr(vs[0]) for v in vs):     # repr: NaN constants compare equal to themselves
                if vs[0][0] == 'i' and ty.kind == 'vec':
                    return ('i', vs[0][1])
                return vs[0]
            return TOP
        return TOP

    def val(self, case, o):
        k = o['k']
        if k == 'v':
            return case.env.get(o['id'], TOP)
        if k == 'a':
            if o['i'] == self.argidx:
                if self.ptr_arg:
                    return ('p',)
                return ('c', math.nan) if case.nan else ('f', ())
            return TOP
        if k == 'c':
            return self.const_of(o)
        return TOP

    # ---- masks
    def mask_eval(self, case, m):
        """True / False / None (not constant on this case)"""
        k = m[0]
        if k == 'k':
            return m[1]
        if k == 'unk':
            return case.assume.get(m[1]) if len(m) > 1 else None
        if k == 'not':
            r = self.mask_eval(case, m[1])
            return None if r is None else (not r)
        if k in ('and', 'or', 'xor'):
            a, b = self.mask_eval(case, m[1]), self.mask_eval(case, m[2])
            if k == 'and':
                if a is False or b is False:
                    return False
                return True if (a and b) else None
            if k == 'or':
                if a is True or b is True:
                    return True
                return False if (a is False and b is False) else None
            if a is None or b is None:
                return None
            return a != b
        if k == 'cmp':
            pred, a, b = m[1], m[2], m[3]
            if a[0] == 'j' or b[0] == 'j':
                rs = set()
                for x in (a[1] if a[0] == 'j' else (a,)):
                    for y in (b[1] if b[0] == 'j' else (b,)):
                        rs.add(self.mask_eval(case, ('cmp', pred, x, y)))
                return rs.pop() if len(rs) == 1 else None
            if a[0] == 'c' and b[0] == 'c':
                return fcmp_const(pred, a[1], b[1])
            if a[0] == 'f' and b[0] == 'c':
                if case.nan:
                    return fcmp_const(pred, math.nan, b[1])
                if b[1] != b[1]:
                    return pred[0] == 'u' or pred == 'uno'
                vlo, vhi = eval_chain(self.ft, a[1], case.lo), eval_chain(self.ft, a[1], case.hi)
                rl, rh = fcmp_const(pred, vlo, b[1]), fcmp_const(pred, vhi, b[1])
                if pred in ('oeq', 'ueq', 'one', 'une'):
                    mn, mx = min(vlo, vhi), max(vlo, vhi)
                    if mn == mx:
                        return rl
                    if b[1] < mn or b[1] > mx:
                        return rl
                    return None
                if rl == rh:
                    return rl          # monotone step function with equal end values is constant
                return None
            if a[0] == 'c' and b[0] == 'f':
                sw = {'olt': 'ogt', 'ole': 'oge', 'ogt': 'olt', 'oge': 'ole', 'ult': 'ugt', 'ule': 'uge', 'ugt': 'ult', 'uge': 'ule'}
                return self.mask_eval(case, ('cmp', sw.get(pred, pred), b, a))
            return None
        raise AssertionError(m)

    def atoms(self, case, m, acc):
        """undecided splittable comparisons of m on this case"""
        k = m[0]
        if k in ('not',):
            self.atoms(case, m[1], acc)
        elif k in ('and', 'or', 'xor'):
            self.atoms(case, m[1], acc)
            self.atoms(case, m[2], acc)
        elif k == 'cmp':
            if self.mask_eval(case, m) is None and not case.nan:
                a, b = m[2], m[3]
                if (a[0] == 'f' and b[0] == 'c') or (a[0] == 'c' and b[0] == 'f'):
                    acc.append(m)
        return acc

    def first_unknown(self, case, m):
        k = m[0]
        if k == 'unk':
            return m[1] if (len(m) > 1 and m[1] not in case.assume) else None
        if k == 'not':
            return self.first_unknown(case, m[1])
        if k in ('and', 'or', 'xor'):
            r = self.first_unknown(case, m[1])
            return r if r is not None else self.first_unknown(case, m[2])
        return None

    def split(self, case, atom):
        """split an interval case so that the comparison `atom` is constant on each part"""
        pred, a, b = atom[1], atom[2], atom[3]
        if a[0] == 'c':
            sw = {'olt': 'ogt', 'ole': 'oge', 'ogt': 'olt', 'oge': 'ole', 'ult': 'ugt', 'ule': 'uge', 'ugt': 'ult', 'uge': 'ule'}
            pred, a, b = sw.get(pred, pred), b, a
        ft = self.ft
        c = b[1]
        chain = a[1]
        klo, khi = ft.key(case.lo), ft.key(case.hi)

        def first_true(P):
            """smallest key in [klo, khi] with P(x) true, P monotone false->true; khi+1 if none"""
            if P(ft.unkey(klo)):
                return klo
            if not P(ft.unkey(khi)):
                return khi + 1
            lo, hi = klo, khi          # P(lo) false, P(hi) true
            while hi - lo > 1:
                mid = (lo + hi) // 2
                if P(ft.unkey(mid)):
                    hi = mid
                else:
                    lo = mid
            return hi
        d = chain_dir(chain)
        # cut points: values of x where f(x) crosses c:  region f<c, f==c, f>c  (in x order if d>0, reversed if d<0)
        if d > 0:
            k1 = first_true(lambda x: eval_chain(ft, chain, x) >= c)
            k2 = first_true(lambda x: eval_chain(ft, chain, x) > c)
        else:
            k1 = first_true(lambda x: eval_chain(ft, chain, x) <= c)
            k2 = first_true(lambda x: eval_chain(ft, chain, x) < c)
        cuts = sorted(set([klo, k1, k2, khi + 1]))
        parts = []
        for i in range(len(cuts) - 1):
            lo_k, hi_k = cuts[i], cuts[i + 1] - 1
            if lo_k > hi_k or lo_k < klo or hi_k > khi:
                continue
            parts.append(case.clone(ft.unkey(lo_k), ft.unkey(hi_k)))
        return parts or [case]

    def decide(self, case, m):
        """returns list of (case, bool|None) with m constant (or unknowable) on each"""
        r = self.mask_eval(case, m)
        if r is not None:
            return [(case, r)]
        at = self.atoms(case, m, []) if self.precise else []
        if not at:
            # an unknowable comparison (its operands are outside the domain): fork the case on its truth value; the
            # assumption is remembered so that the same SSA mask is read consistently later on
            u = self.first_unknown(case, m)
            if u is not None and len(case.assume) < 6 and self.precise:
                out = []
                for v in (True, False):
                    cc = case.clone()
                    cc.assume[u] = v
                    out.extend(self.decide(cc, m))
                return out
            return [(case, None)]
        out = []
        parts = self.split(case, at[0])
        if len(parts) == 1:
            return [(case, None)]
        for p in parts:
            out.extend(self.decide(p, m))
        return out

    # ---- instruction semantics (per lane)
    def exec_block(self, cases, bid, pred):
        """executes block bid for the list of cases arriving from `pred`; returns {succ: [cases]} and loop-control info"""
        b = self.blocks[bid]
        cur = [c.clone() for c in self.dedupe(cases, bid, pred)]
        for inst in b['insts']:
            op = inst['op']
            if op == 'phi':
                src = None
                for inc in inst['incoming']:
                    if inc['bb'] == pred:
                        src = inc['v']
                for c in cur:
                    c.env[inst['id']] = self.val(c, src) if src is not None else TOP
                continue
            if op in ('br', 'ret', 'unreachable', 'switch', 'resume', 'invoke'):
                return self.terminator(cur, inst, bid)
            nxt = []
            for c in cur:
                nxt.extend(self.step(c, inst))
            cur = nxt
            if len(cur) > 20000:
                raise Giveup('case explosion')
        raise Giveup('block without terminator')

    def step(self, c, inst):
        op = inst['op']
        iid = inst['id']
        if iid not in self.slice and op not in ('store', 'call', 'invoke'):
            c.env[iid] = TOP
            return [c]
        ops = inst.get('ops', [])
        ft = self.ft
        E = c.env
        if op in ('bitcast', 'freeze'):
            v = self.val(c, ops[0])
            ty, st = parse_type(inst['ty']), None
            if v[0] == 'm' and ty.kind == 'int':
                E[iid] = ('red', v[1])
            elif v[0] == 'red' and ty.kind == 'vec' and ty.elem.bits == 1:
                E[iid] = ('m', v[1])
            else:
                E[iid] = v
            return [c]
        if op in ('fadd', 'fsub'):
            a, b = self.val(c, ops[0]), self.val(c, ops[1])
            if a[0] == 'j' or b[0] == 'j':
                alts = []
                for x in (a[1] if a[0] == 'j' else (a,)):
                    for y in (b[1] if b[0] == 'j' else (b,)):
                        r = self.fadd_forms(x, y, op == 'fsub')
                        if r == TOP:
                            alts = None
                            break
                        if repr(r) not in [repr(z) for z in alts]:
                            alts.append(r)
                    if alts is None:
                        break
                E[iid] = TOP if (alts is None or len(alts) > 6) else (alts[0] if len(alts) == 1 else ('j', tuple(alts)))
                return [c]
            if op == 'fsub':
                if b[0] == 'c':
                    b = ('c', -b[1])
                elif b[0] == 'f':
                    b = ('f', b[1] + (('neg',),))
                else:
                    b = TOP
            if a[0] == 'c' and b[0] == 'c':
                E[iid] = ('c', ft.fl(a[1] + b[1]))
            elif a[0] == 'f' and b[0] == 'c':
                E[iid] = ('f', a[1] + (('add', b[1]),)) if b[1] == b[1] else ('c', math.nan)
            elif a[0] == 'c' and b[0] == 'f':
                E[iid] = ('f', b[1] + (('add', a[1]),)) if a[1] == a[1] else ('c', math.nan)
            else:
                E[iid] = TOP
            return [c]
        if op in ('fmul', 'fdiv'):
            a, b = self.val(c, ops[0]), self.val(c, ops[1])
            if a[0] == 'c' and b[0] == 'c':
                try:
                    E[iid] = ('c', ft.fl(a[1] * b[1] if op == 'fmul' else a[1] / b[1]))
                except ZeroDivisionError:
                    E[iid] = TOP
            else:
                E[iid] = TOP
            return [c]
        if op == 'fneg':
            a = self.val(c, ops[0])
            E[iid] = ('c', -a[1]) if a[0] == 'c' else (('f', a[1] + (('neg',),)) if a[0] == 'f' else TOP)
            return [c]
        if op == 'fcmp':
            a, b = self.val(c, ops[0]), self.val(c, ops[1])
            if a[0] in ('c', 'f', 'j') and b[0] in ('c', 'f', 'j'):
                E[iid] = ('m', ('cmp', inst['pred'], a, b))
            else:
                E[iid] = ('m', ('unk', iid))
            return [c]
        if op in ('and', 'or', 'xor'):
            a, b = self.val(c, ops[0]), self.val(c, ops[1])
            if a[0] == 'm' and b[0] == 'm':
                if op == 'xor' and b[1] == ('k', True):
                    E[iid] = ('m', ('not', a[1]))
                elif op == 'xor' and a[1] == ('k', True):
                    E[iid] = ('m', ('not', b[1]))
                else:
                    E[iid] = ('m', (op, a[1], b[1]))
                return [c]
            if a[0] == 'mv' and b[0] == 'mv':
                E[iid] = ('mv', (op, a[1], b[1]))        # all-ones/zero vector masks: lane-wise boolean algebra
                return [c]
            if op == 'xor' and ((a[0] == 'mv' and b[0] == 'i') or (b[0] == 'mv' and a[0] == 'i')):
                mvv, kk = (a, b) if a[0] == 'mv' else (b, a)
                ty_ = parse_type(inst['ty'])
                ew_ = ty_.elem.bits if ty_.kind == 'vec' else ty_.bits
                if kk[1] == (1 << ew_) - 1:
                    E[iid] = ('mv', ('not', mvv[1]))
                    return [c]
            if op == 'xor' and ((a[0] == 'red' and b[0] == 'i') or (b[0] == 'red' and a[0] == 'i')):
                rr, kk = (a, b) if a[0] == 'red' else (b, a)
                ty_ = parse_type(inst['ty'])
                if kk[1] == (1 << ty_.bits) - 1:
                    E[iid] = ('red', ('not', rr[1]))
                    return [c]
            if a[0] == 'red' and b[0] == 'red':
                E[iid] = ('red', (op, a[1], b[1]))       # k-register algebra: bit i of the result is op of the lane-i bits
                return [c]
            # fabs through the integer view:  and x, 0x7ff..f
            ty = parse_type(inst['ty'])
            ew = ty.elem.bits if ty.kind == 'vec' else ty.bits
            if op == 'and' and ew % ft.bits == 0:
                pat = 0
                for j in range(ew // ft.bits):
                    pat |= ((1 << (ft.bits - 1)) - 1) << (j * ft.bits)      # the |x| mask, for every element of a packed view
                for (x, k) in ((a, b), (b, a)):
                    if k[0] == 'i' and k[1] == pat and x[0] in ('c', 'f', 'j'):
                        return self.do_abs(c, iid, x)
            E[iid] = TOP
            return [c]
        if op == 'select':
            mk, a, b = self.val(c, ops[0]), self.val(c, ops[1]), self.val(c, ops[2])
            return self.select_forms(c, iid, mk, a, b)
        if op == '__never__':
            mk = a = b = None
            E = c.env
            if repr(a) == repr(b):
                E[iid] = a
                return [c]
            if mk[0] != 'm':
                E[iid] = TOP
                return [c]
            out = []
            for (cc, r) in self.decide(c, mk[1]):
                if r is None:
                    if a[0] == 'm' and b[0] == 'm':
                        cc.env[iid] = ('m', ('or', ('and', mk[1], a[1]), ('and', ('not', mk[1]), b[1])))
                    elif a[0] in ('c', 'f', 'j') and b[0] in ('c', 'f', 'j'):
                        alts = []
                        for v in (a, b):
                            for w in (v[1] if v[0] == 'j' else (v,)):
                                if repr(w) not in [repr(z) for z in alts]:
                                    alts.append(w)
                        cc.env[iid] = ('j', tuple(alts)) if len(alts) <= 6 else TOP      # one of the alternatives
                    else:
                        cc.env[iid] = TOP
                else:
                    cc.env[iid] = a if r else b
                out.append(cc)
            return out
        if op == 'icmp':
            a, b = self.val(c, ops[0]), self.val(c, ops[1])
            ty = self.blocks and parse_type(self.type_of(ops[0]))
            if a[0] == 'q' and b == ('i', 0) and inst['pred'] in ('eq', 'ne'):
                # testing the integer result of ptestz/vtestz (1 iff no lane is set) against zero
                flip = {'none': 'any', 'any': 'none', 'all': 'notall', 'notall': 'all'}
                E[iid] = ('q', flip[a[1]] if inst['pred'] == 'eq' else a[1], a[2])
            elif a[0] == 'red' and b[0] == 'i':
                nb = ty.bits
                p = inst['pred']
                if b[1] == 0:
                    E[iid] = ('q', 'none' if p == 'eq' else 'any', a[1]) if p in ('eq', 'ne') else TOP
                elif b[1] == (1 << nb) - 1:
                    E[iid] = ('q', 'all' if p == 'eq' else 'notall', a[1]) if p in ('eq', 'ne') else TOP
                else:
                    E[iid] = TOP
            else:
                E[iid] = TOP
            return [c]
        if op == 'call':
            name = inst.get('callee') or ''
            if name.startswith('llvm.fabs'):
                x = self.val(c, ops[0])
                if x[0] in ('c', 'f', 'j'):
                    return self.do_abs(c, iid, x)
            if name.startswith(('llvm.lifetime', 'llvm.dbg', 'llvm.assume')):
                return [c]
            if name in self.m.functions and not self.m.functions[name].get('decl'):
                # a call to a function defined in the module: record what the lane input of the callee can be
                rng = [None, None, False]
                for o in ops[:1]:
                    v = self.val(c, o)
                    if v[0] == 'al':
                        v = c.mem.get(v[1], TOP)
                    lo, hi, nn = self.range_of(c, v)
                    rng = [lo, hi, nn]
                cur_ = self.call_args.get(name)
                if cur_ is None:
                    self.call_args[name] = rng
                else:
                    if rng[0] is not None:
                        cur_[0] = rng[0] if cur_[0] is None else min(cur_[0], rng[0])
                        cur_[1] = rng[1] if cur_[1] is None else max(cur_[1], rng[1])
                    cur_[2] = cur_[2] or rng[2]
            for o in ops:
                v = self.val(c, o)
                if v[0] == 'al':
                    c.mem[v[1]] = TOP          # the callee may overwrite an escaping local
            m = None
            if name.startswith('llvm.x86.sse41.ptestz') or name.startswith('llvm.x86.avx.ptestz') or name.startswith('llvm.x86.avx.vtestz'):
                a, b = self.val(c, ops[0]), self.val(c, ops[1])
                if a[0] == 'mv' and a == b:
                    E[iid] = ('q', 'none', a[1])     # ZF = ((M & M) == 0)
                    return [c]
            if 'blendv' in name:
                x0, x1, mk = self.val(c, ops[0]), self.val(c, ops[1]), self.val(c, ops[2])
                if mk[0] == 'mv':
                    fake = {'op': 'select', 'id': iid, 'ty': inst['ty'], 'ops': [None, None, None]}
                    return self.select_forms(c, iid, ('m', mk[1]), x1, x0)
            if 'movmsk' in name or 'pmovmskb' in name:
                a = self.val(c, ops[0])
                if a[0] == 'mv':
                    E[iid] = ('red', a[1])
                    return [c]
            E[iid] = TOP
            return [c]
        if op == 'sext':
            a = self.val(c, ops[0])
            E[iid] = ('mv', a[1]) if a[0] == 'm' else TOP      # all-ones / zero vector mask
            return [c]
        if op == 'alloca':
            E[iid] = ('al', iid)
            return [c]
        if op == 'getelementptr':
            v = self.val(c, ops[0])
            E[iid] = v if (v[0] in ('p', 'al') and inst.get('coff', 1) == 0 and not inst.get('voff')) else TOP
            return [c]
        if op == 'load':
            v = self.val(c, ops[0])
            t = parse_type(inst['ty'])
            if v == ('p',) and t.kind == 'vec' and t.elem.kind == 'fp' and t.elem.bits == ft.bits:
                E[iid] = ('c', math.nan) if c.nan else ('f', ())
            elif v[0] == 'al':
                E[iid] = c.mem.get(v[1], TOP)
            else:
                E[iid] = TOP
            return [c]
        if op == 'store':
            v, p = self.val(c, ops[0]), self.val(c, ops[1])
            if p[0] == 'al':
                c.mem[p[1]] = v
            return [c]
        if op in ( 'shufflevector', 'insertelement', 'extractelement', 'zext', 'trunc',
                  'add', 'sub', 'mul', 'shl', 'lshr', 'ashr', 'sitofp', 'uitofp', 'fptosi', 'fptoui', 'fpext', 'fptrunc',
                  'insertvalue', 'extractvalue', 'ptrtoint', 'inttoptr', 'udiv', 'sdiv', 'urem', 'srem', 'frem', 'landingpad'):
            if op == 'shufflevector' and all(x in (0, -1) for x in inst.get('mask', [1])):
                E[iid] = TOP     # splat of a scalar: uniform, unknown
            if parse_type(inst['ty']).kind != 'void':
                E[iid] = TOP
            return [c]
        raise Giveup('opcode %s' % op)

    def range_of(self, case, v):
        """(lo, hi, may_be_nan) of a value form on a case"""
        if v[0] == 'c':
            return (None, None, True) if v[1] != v[1] else (v[1], v[1], False)
        if v[0] == 'f':
            if case.nan:
                return (None, None, True)
            a, b = eval_chain(self.ft, v[1], case.lo), eval_chain(self.ft, v[1], case.hi)
            return (min(a, b), max(a, b), False)
        if v[0] == 'j':
            lo = hi = None
            nn = False
            for w in v[1]:
                l, h, n_ = self.range_of(case, w)
                nn = nn or n_
                if l is not None:
                    lo = l if lo is None else min(lo, l)
                    hi = h if hi is None else max(hi, h)
            return (lo, hi, nn)
        return (-math.inf, math.inf, True)

    def select_forms(self, c, iid, mk, a, b):
        E = c.env
        if repr(a) == repr(b):
            E[iid] = a
            return [c]
        if mk[0] == 'mv':
            mk = ('m', mk[1])
        if mk[0] != 'm':
            E[iid] = TOP
            return [c]

        def is_zero(v):
            return (v[0] == 'c' and v[1] == 0.0 and math.copysign(1.0, v[1]) > 0) or v == ('i', 0)
        # all-ones/zero vector masks selected by a lane mask
        if a[0] == 'mv' and (b[0] == 'mv' or is_zero(b)):
            ma, mb = a[1], (b[1] if b[0] == 'mv' else ('k', False))
            E[iid] = ('mv', ('or', ('and', mk[1], ma), ('and', ('not', mk[1]), mb)))
            return [c]
        if b[0] == 'mv' and is_zero(a):
            E[iid] = ('mv', ('and', ('not', mk[1]), b[1]))
            return [c]
        out = []
        for (cc, r) in self.decide(c, mk[1]):
            if r is None:
                if a[0] == 'm' and b[0] == 'm':
                    cc.env[iid] = ('m', ('or', ('and', mk[1], a[1]), ('and', ('not', mk[1]), b[1])))
                elif a[0] in ('c', 'f', 'j') and b[0] in ('c', 'f', 'j'):
                    alts = []
                    for v in (a, b):
                        for w in (v[1] if v[0] == 'j' else (v,)):
                            if repr(w) not in [repr(z) for z in alts]:
                                alts.append(w)
                    cc.env[iid] = ('j', tuple(alts)) if len(alts) <= 6 else TOP
                else:
                    cc.env[iid] = TOP
            else:
                cc.env[iid] = a if r else b
            out.append(cc)
        return out

    def fadd_forms(self, a, b, sub):
        ft = self.ft
        if sub:
            if b[0] == 'c':
                b = ('c', -b[1])
            elif b[0] == 'f':
                b = ('f', b[1] + (('neg',),))
            else:
                return TOP
        if a[0] == 'c' and b[0] == 'c':
            return ('c', ft.fl(a[1] + b[1]))
        if a[0] == 'f' and b[0] == 'c':
            return ('f', a[1] + (('add', b[1]),)) if b[1] == b[1] else ('c', math.nan)
        if a[0] == 'c' and b[0] == 'f':
            return ('f', b[1] + (('add', a[1]),)) if a[1] == a[1] else ('c', math.nan)
        return TOP

    def type_of(self, o):
        if o['k'] == 'v':
            return self.fn['insts'][o['id']]['ty']
        if o['k'] == 'a':
            return self.fn['args'][o['i']]['ty']
        return o['ty']

    def do_abs(self, c, iid, x):
        if x[0] == 'j':
            # decide the sign of every alternative first (splitting the case), then take |.| of each
            cases = [c]
            for alt in x[1]:
                if alt[0] == 'f':
                    nxt = []
                    for cc in cases:
                        nxt.extend(p for (p, r) in self.decide(cc, ('cmp', 'olt', alt, ('c', 0.0))))
                    cases = nxt
            out = []
            for cc in cases:
                alts = []
                ok = True
                for alt in x[1]:
                    if alt[0] == 'c':
                        r = ('c', abs(alt[1]))
                    elif cc.nan:
                        r = ('c', math.nan)
                    else:
                        s_ = self.mask_eval(cc, ('cmp', 'olt', alt, ('c', 0.0)))
                        if s_ is None:
                            ok = False
                            break
                        r = ('f', alt[1] + (('neg',),)) if s_ else alt
                    if repr(r) not in [repr(z) for z in alts]:
                        alts.append(r)
                cc.env[iid] = TOP if not ok else (alts[0] if len(alts) == 1 else ('j', tuple(alts)))
                out.append(cc)
            return out
        if x[0] == 'c':
            c.env[iid] = ('c', abs(x[1]))
            return [c]
        if c.nan:
            c.env[iid] = ('c', math.nan)
            return [c]
        out = []
        for (cc, r) in self.decide(c, ('cmp', 'olt', x, ('c', 0.0))):
            if r is None:
                cc.env[iid] = TOP
            elif r:
                cc.env[iid] = ('f', x[1] + (('neg',),))
            else:
                cc.env[iid] = x
            out.append(cc)
        return out

    # ---- control
    def terminator(self, cur, inst, bid):
        op = inst['op']
        if op in ('ret', 'unreachable', 'resume'):
            return {}
        if op == 'invoke':
            return {inst['normal']: cur}
        if op == 'switch':
            return dict((s, [c.clone() for c in cur]) for s in set(self.succ[bid]))
        ops = inst['ops']
        if len(ops) == 1:
            return {ops[0]['id']: cur}
        fdest, tdest = ops[1]['id'], ops[2]['id']
        # whole-batch condition?
        conds = [self.val(c, ops[0]) for c in cur]
        out = {tdest: [], fdest: []}
        if cur and all(q[0] == 'q' for q in conds):
            kind = conds[0][1]
            decided = []
            for c, q in zip(cur, conds):
                decided.extend(self.decide(c, q[2]))
            # lane mask value per case: r in True/False/None
            any_true = any(r is not False for (_, r) in decided)        # some lane MAY have its mask true
            all_true = all(r is True for (_, r) in decided)
            any_false = any(r is not True for (_, r) in decided)
            for (c, r) in decided:
                if kind in ('any', 'none'):
                    # any(M): true successor of 'any' / false successor of 'none' is taken when some lane has M
                    yes, no = (tdest, fdest) if kind == 'any' else (fdest, tdest)
                    if r is not False:
                        c.active = True
                        out[yes].append(c)                        # this lane has (may have) M: the batch continues
                    if r is not True:
                        if any_true:
                            out[yes].append(c.clone())            # carried along by another lane
                        out[no].append(c.clone())                 # all lanes inactive
                else:
                    yes, no = (tdest, fdest) if kind == 'all' else (fdest, tdest)
                    if r is not True:
                        out[no].append(c)
                    if r is not False:
                        if any_false:
                            out[no].append(c.clone())
                        cy = c.clone()
                        cy.active = True
                        out[yes].append(cy)
            return out
        for c in cur:
            c.active = True            # not a recognised whole-batch test: nothing is known about either successor
            out[tdest].append(c)
            cf = c.clone()
            cf.active = True
            out[fdest].append(cf)
        return out

    def control_slice(self):
        """SSA values that can influence control flow or the arguments of calls to functions defined in the module
        (backward slice from every branch condition, call argument and value stored to a local).  Everything else --
        the polynomial evaluations, the data results -- is irrelevant to termination and is not tracked."""
        need = set()
        work = []

        def add(o):
            if o['k'] == 'v' and o['id'] not in need:
                need.add(o['id'])
                work.append(o['id'])
        for b in self.fn['blocks']:
            for inst in b['insts']:
                op = inst['op']
                if op == 'br' and len(inst['ops']) == 3:
                    add(inst['ops'][0])
                elif op == 'switch':
                    add(inst['cond'])
                elif op in ('call', 'invoke'):
                    nm = inst.get('callee') or ''
                    if nm in self.m.functions and not self.m.functions[nm].get('decl'):
                        for o in inst['ops']:
                            add(o)
                elif op == 'store':
                    for o in inst['ops']:
                        add(o)
        while work:
            i = work.pop()
            inst = self.fn['insts'][i]
            if inst['op'] == 'phi':
                for inc in inst['incoming']:
                    add(inc['v'])
            else:
                for o in inst.get('ops', []):
                    add(o)
        return need

    # ---- liveness (for merging equivalent cases at block entry)
    def liveness(self):
        use, defs, phiuse = {}, {}, {}
        for b in self.fn['blocks']:
            u, d = set(), set()
            for inst in b['insts']:
                if inst['op'] == 'phi':
                    for inc in inst['incoming']:
                        if inc['v']['k'] == 'v':
                            phiuse.setdefault(inc['bb'], set()).add(inc['v']['id'])
                else:
                    for o in inst.get('ops', []):
                        if o['k'] == 'v' and o['id'] not in d:
                            u.add(o['id'])
                    if inst['op'] == 'switch' and inst['cond']['k'] == 'v' and inst['cond']['id'] not in d:
                        u.add(inst['cond']['id'])
                d.add(inst['id'])
            use[b['id']], defs[b['id']] = u, d
        live_in = dict((b['id'], set()) for b in self.fn['blocks'])
        changed = True
        while changed:
            changed = False
            for b in self.fn['blocks'][::-1]:
                bid = b['id']
                out = set(phiuse.get(bid, ()))
                for s_ in self.succ[bid]:
                    out |= live_in[s_]
                    # phi results of the successor are defined there, not live-in
                new = use[bid] | (out - defs[bid])
                if new != live_in[bid]:
                    live_in[bid] = new
                    changed = True
        # values defined by phis of b are not live-in to b
        for b in self.fn['blocks']:
            for inst in b['insts']:
                if inst['op'] == 'phi':
                    live_in[b['id']].discard(inst['id'])
        return live_in

    def entry_key(self, case, bid, frm):
        lv = self.live_in[bid]
        extra = []
        for inst in self.blocks[bid]['insts']:
            if inst['op'] != 'phi':
                break
            for inc in inst['incoming']:
                if inc['bb'] == frm and inc['v']['k'] == 'v':
                    extra.append(inc['v']['id'])
        ids = sorted(lv | set(extra))
        return (case.nan, case.lo, case.hi, repr([case.env.get(i, TOP) for i in ids]), repr(sorted(case.mem.items())), repr(sorted(case.assume.items())))

    def dedupe(self, cases, bid, frm):
        seen = set()
        out = []
        for c in cases:
            k = self.entry_key(c, bid, frm)
            if k not in seen:
                seen.add(k)
                out.append(c)
        return out

    # ---- driver
    def phi_key(self, case, header):
        ks = []
        for inst in self.blocks[header]['insts']:
            if inst['op'] != 'phi':
                break
            ks.append(case.env.get(inst['id'], TOP))
        return (case.nan, case.lo, case.hi, repr(ks), repr(sorted(case.assume.items())))

    def run(self):
        if self.irreducible:
            raise Giveup('irreducible control flow')
        entry = self.fn['blocks'][0]['id']
        ninf, pinf = -math.inf, math.inf
        if self.entry is None:
            init = [Case(ninf, pinf, False, {}), Case(0.0, 0.0, True, {})]
        else:
            init = []
            if self.entry[0] is not None and self.entry[0] <= self.entry[1]:
                init.append(Case(self.entry[0], self.entry[1], False, {}))
            if self.entry[2]:
                init.append(Case(0.0, 0.0, True, {}))
        # process the loop-collapsed DAG in reverse post-order
        idom, rpo, pred = CFG.dominators(self.fn, self.succ)
        inbox = {}        # (pred, block) -> cases

        def deliver(frm, to, cases):
            if cases:
                inbox.setdefault(to, {}).setdefault(frm, []).extend(cases)
        deliver(None, entry, init)
        inner = set()
        for l in self.loops:
            if l.parent is not None:
                inner |= l.blocks
        done = set()
        pending_loops = sum(1 for l in self.loops if l.parent is None)
        if pending_loops == 0:
            self.precise = False
        for b in rpo:
            if b in done:
                continue
            lp = self.loop_of_header.get(b)
            if lp is not None and lp.parent is None:
                self.run_loop(lp, inbox, deliver)
                done |= lp.blocks
                pending_loops -= 1
                if pending_loops == 0:
                    self.precise = False
                continue
            if any(b in l.blocks for l in self.loops):
                continue       # handled inside run_loop
            for frm, cases in list(inbox.get(b, {}).items()):
                for s, cs in self.exec_block(cases, b, frm).items():
                    deliver(b, s, cs)
            done.add(b)
        return self.results

    def run_loop(self, lp, inbox, deliver):
        if lp.children:
            self.results.append({'header': lp.header, 'bound': None, 'why': 'nested loops are not analysed by the lane interpreter', 'kind': 'nested'})
            for (frm, to) in lp.exits:
                deliver(frm, to, [Case(-math.inf, math.inf, False, {}), Case(0.0, 0.0, True, {})])
            return
        idom, rpo, pred = CFG.dominators(self.fn, self.succ)
        order = [b for b in rpo if b in lp.blocks]
        arriving = inbox.get(lp.header, {})
        state = {}     # pred -> cases entering the header
        for frm, cs in arriving.items():
            if frm not in lp.blocks:
                state.setdefault(frm, []).extend(cs)
        if not state:
            self.results.append({'header': lp.header, 'bound': 0, 'why': 'unreachable', 'kind': 'dead'})
            return
        delivered = set()
        seen_keys = set()
        k = 0
        real_deliver = deliver
        buffered = []

        def deliver(frm, to, cases):        # noqa: F811  (exit states are released only when the loop has been bounded)
            if cases:
                buffered.append((frm, to, cases))

        def flush(ok):
            if ok:
                for (frm, to, cases) in buffered:
                    real_deliver(frm, to, cases)
            else:
                for (frm, to) in lp.exits:
                    real_deliver(frm, to, [Case(-math.inf, math.inf, False, {}), Case(0.0, 0.0, True, {})])
        while True:
            nxt = {}
            local = {lp.header: state}
            for b in order:
                for frm, cases in list(local.get(b, {}).items()):
                    for s, cs in self.exec_block(cases, b, frm).items():
                        if not cs:
                            continue
                        if s == lp.header:
                            nxt.setdefault(b, []).extend(cs)
                        elif s in lp.blocks:
                            local.setdefault(s, {}).setdefault(b, []).extend(cs)
                        else:
                            fresh = []
                            for c in cs:
                                key = (b, s) + self.phi_key(c, lp.header)
                                if key not in delivered:
                                    delivered.add(key)
                                    fresh.append(c)
                            deliver(b, s, fresh)
            total = sum(len(v) for v in nxt.values())
            if total == 0:
                self.results.append({'header': lp.header, 'bound': k, 'kind': 'mask-loop', 'why': 'after %d iterations no lane can satisfy the continuation mask' % k})
                flush(True)
                return
            k += 1
            if k > KMAX:
                act = []
                for cs in nxt.values():
                    act.extend(cs)
                def width(c):
                    if c.nan:
                        return -1.0
                    if c.lo in (math.inf, -math.inf) or c.hi in (math.inf, -math.inf):
                        return math.inf
                    return c.hi - c.lo
                worst = sorted(act, key=lambda c: -width(c))[:3]
                self.results.append({'header': lp.header, 'bound': None, 'kind': 'mask-loop',
                                     'why': 'no constant iteration bound: after %d abstract iterations lanes with %s can still keep the loop running' % (KMAX, ' / '.join(c.desc() for c in worst)),
                                     'active': [c.desc() for c in worst]})
                flush(False)      # over-approximate the exit state so that the rest of the function can still be analysed
                return
            # dedupe; a state that was already processed in an earlier iteration is a fixpoint of the body (a frozen lane):
            # re-executing it yields the same exits and the same continuation, so it is dropped
            state = {}
            this_iter = {}
            for frm, cs in nxt.items():
                for c in cs:
                    key = (frm,) + self.phi_key(c, lp.header)
                    if key in this_iter:
                        this_iter[key].active = this_iter[key].active or c.active      # duplicate within this iteration
                        continue
                    this_iter[key] = c
            for key, c in this_iter.items():
                frm = key[0]
                if True:
                    if key in seen_keys:
                        if c.active:
                            # a lane that may keep the loop running comes back in a state it was already in: no progress
                            self.results.append({'header': lp.header, 'bound': None, 'kind': 'mask-loop', 'active': [c.desc()],
                                                 'why': 'no constant iteration bound: a lane with %s that may satisfy the continuation mask returns to the loop header in an abstract state it was already in (no progress can be shown)' % c.desc()})
                            flush(False)
                            return
                        continue
                    seen_keys.add(key)
                    c.active = False
                    state.setdefault(frm, []).append(c)
            if not state:
                self.results.append({'header': lp.header, 'bound': k, 'kind': 'mask-loop', 'why': 'after %d iterations every lane state is a frozen fixpoint with a false continuation mask' % k})
                flush(True)
                return
