"""Symbolic normalisation of one straight-line LLVM function into BVs (terms.py).

No execution: every SSA value is mapped to a concatenation of slices of terms
over the input atoms.  Control flow is accepted only in the forms listed in
`Eval.run` (assert preconditions, branches on folded constants); anything else
raises NotStraightLine and the caller records the obligation as undecided (or
hands the function to one of the CFG analyses).
"""
import re
from . import terms as T
from .ir import parse_type


class NotStraightLine(Exception):
    pass


class Unsupported(Exception):
    pass


class AssertsFalse(Exception):
    """the library rejects this instantiation with an unconditional assert(false)"""
    pass


class Ptr(object):
    __slots__ = ('base', 'off', 'var')

    def __init__(self, base, off=0, var=()):
        self.base, self.off, self.var = base, off, tuple(var)

    def __repr__(self):
        return 'Ptr(%s%+d%s)' % (self.base, self.off, ''.join('+%s*%d' % (T.fmt(v, 2), s) for v, s in self.var))


# lane-wise x86 intrinsics (each output lane depends only on the same lane of the vector operands;
# per the Intel SDM operation sections).  name-prefix -> canonical op name
X86_LANEWISE = {
    'llvm.x86.sse2.pavg.b': 'x86.pavg', 'llvm.x86.sse2.pavg.w': 'x86.pavg',
    'llvm.x86.avx2.pavg.b': 'x86.pavg', 'llvm.x86.avx2.pavg.w': 'x86.pavg',
    'llvm.x86.avx512.pavg.b.512': 'x86.pavg', 'llvm.x86.avx512.pavg.w.512': 'x86.pavg',
    'llvm.x86.sse2.pmulh.w': 'x86.pmulh', 'llvm.x86.sse2.pmulhu.w': 'x86.pmulhu',
    'llvm.x86.avx2.pmulh.w': 'x86.pmulh', 'llvm.x86.avx2.pmulhu.w': 'x86.pmulhu',
    'llvm.x86.sse.min.ps': 'x86.fmin', 'llvm.x86.sse.max.ps': 'x86.fmax',
    'llvm.x86.sse2.min.pd': 'x86.fmin', 'llvm.x86.sse2.max.pd': 'x86.fmax',
    'llvm.x86.avx.min.ps.256': 'x86.fmin', 'llvm.x86.avx.max.ps.256': 'x86.fmax',
    'llvm.x86.avx.min.pd.256': 'x86.fmin', 'llvm.x86.avx.max.pd.256': 'x86.fmax',
    'llvm.x86.sse.rcp.ps': 'x86.rcp', 'llvm.x86.sse.rsqrt.ps': 'x86.rsqrt',
    'llvm.x86.avx.rcp.ps.256': 'x86.rcp', 'llvm.x86.avx.rsqrt.ps.256': 'x86.rsqrt',
    'llvm.x86.sse2.cvttps2dq': 'x86.cvttps2dq', 'llvm.x86.avx.cvtt.ps2dq.256': 'x86.cvttps2dq',
    'llvm.x86.sse2.cvtps2dq': 'x86.cvtps2dq', 'llvm.x86.avx.cvt.ps2dq.256': 'x86.cvtps2dq',
    'llvm.x86.sse41.round.ps': 'x86.round', 'llvm.x86.sse41.round.pd': 'x86.round',
    'llvm.x86.avx.round.ps.256': 'x86.round', 'llvm.x86.avx.round.pd.256': 'x86.round',
    'llvm.x86.avx2.psllv.d': 'x86.psllv', 'llvm.x86.avx2.psllv.q': 'x86.psllv',
    'llvm.x86.avx2.psllv.d.256': 'x86.psllv', 'llvm.x86.avx2.psllv.q.256': 'x86.psllv',
    'llvm.x86.avx2.psrlv.d': 'x86.psrlv', 'llvm.x86.avx2.psrlv.q': 'x86.psrlv',
    'llvm.x86.avx2.psrlv.d.256': 'x86.psrlv', 'llvm.x86.avx2.psrlv.q.256': 'x86.psrlv',
    'llvm.x86.avx2.psrav.d': 'x86.psrav', 'llvm.x86.avx2.psrav.d.256': 'x86.psrav',
    'llvm.x86.avx512.psllv.d.512': 'x86.psllv', 'llvm.x86.avx512.psllv.q.512': 'x86.psllv',
    'llvm.x86.avx512.psrlv.d.512': 'x86.psrlv', 'llvm.x86.avx512.psrlv.q.512': 'x86.psrlv',
    'llvm.x86.avx512.psrav.d.512': 'x86.psrav', 'llvm.x86.avx512.psrav.q.512': 'x86.psrav',
    'llvm.x86.avx512.psllv.w.512': 'x86.psllv', 'llvm.x86.avx512.psrlv.w.512': 'x86.psrlv',
    'llvm.x86.avx512.psrav.w.512': 'x86.psrav',
    'llvm.x86.avx512.psrav.q.128': 'x86.psrav', 'llvm.x86.avx512.psrav.q.256': 'x86.psrav',
}

# uniform-count shifts: (vector, count) where count is an i32 or the low 64 bits of an xmm
X86_SHIFT = re.compile(r'^llvm\.x86\.(sse2|avx2|avx512)\.(psll|psrl|psra)(i?)\.([wdq])(\.512)?$')

IGNORED_CALLS = ('llvm.lifetime.', 'llvm.dbg.', 'llvm.assume', 'llvm.experimental.noalias', 'llvm.donothing')

LLVM_LANEWISE_FP = ('sqrt', 'floor', 'ceil', 'trunc', 'rint', 'nearbyint', 'round', 'roundeven', 'fma', 'fmuladd',
                    'minnum', 'maxnum', 'exp', 'exp2', 'log', 'log2', 'log10', 'sin', 'cos', 'pow')


class Eval(object):
    def __init__(self, module, fn, args, in_mem=None):
        """args: list aligned with fn['args']: a BV, or a Ptr for pointer arguments.
        in_mem: dict base -> element width in bits, for pointer arguments that are read"""
        self.m = module
        self.fn = fn
        self.env = {}
        self.args = args
        self.in_mem = in_mem or {}
        self.mem = {}         # base -> {byte offset: 8-bit BV}   (written bytes)
        self.alloca = {}      # base -> size
        self.reads = []       # (base, off, size, align, inst) through pointer arguments
        self.writes = []      # (base, off, size, align, inst)
        self.var_access = []  # gathers / scatters: (kind, ptr, size, value/None, inst)
        self.assumed = []     # assert preconditions pruned
        self.ret = None
        self.insts_seen = []
        self.calls = []
        self.oracle = None    # optional: (condition term, br instruction) -> True / False / None

    # ---- values -----------------------------------------------------------
    def cbv(self, c):
        ty = parse_type(c['ty'])
        if 'int' in c:
            return T.const(ty.bits, int(c['int']))
        if 'fpbits' in c:
            return T.const(ty.bits, int(c['fpbits']))
        if 'zero' in c:
            if ty.kind == 'ptr':
                return Ptr('null', 0)
            return T.const(ty.bits, 0)
        if 'undef' in c or 'poison' in c:
            return T.undef(ty.bits)
        if 'elems' in c:
            return T.cat(*[self.cbv(e) for e in c['elems']])
        if 'global' in c:
            return Ptr('global:' + c['global'], 0)
        if 'func' in c:
            return Ptr('func:' + c['func'], 0)
        if 'cexpr' in c:
            if c['cexpr'] == 'getelementptr' and 'coff' in c:
                b = self.cbv(c['ops'][0])
                return Ptr(b.base, b.off + c['coff'])
            if c['cexpr'] in ('bitcast', 'addrspacecast'):
                return self.cbv(c['ops'][0])
        raise Unsupported('constant %r' % (c,))

    def val(self, o):
        k = o['k']
        if k == 'v':
            return self.env[o['id']]
        if k == 'a':
            return self.args[o['i']]
        if k == 'c':
            return self.cbv(o)
        raise Unsupported('operand kind %s' % k)

    def oty(self, o):
        k = o['k']
        if k == 'v':
            return parse_type(self.fn['insts'][o['id']]['ty'])
        if k == 'a':
            return parse_type(self.fn['args'][o['i']]['ty'])
        if k == 'c':
            return parse_type(o['ty'])
        raise Unsupported('operand kind %s' % k)

    # ---- memory -----------------------------------------------------------
    def load(self, p, nbytes, inst):
        if p.var:
            raise Unsupported('variable-offset load')
        base = p.base
        out = []
        if base.startswith('arg:'):
            self.reads.append((base, p.off, nbytes, inst.get('align', 1), inst))
        written = self.mem.get(base, {})
        for i in range(nbytes):
            o = p.off + i
            if o in written:
                out.append(written[o])
            elif base.startswith('alloca:'):
                if o < 0 or o >= self.alloca[base]:
                    raise Unsupported('out-of-bounds stack read %s+%d' % (base, o))
                out.append(T.undef(8))
            elif base.startswith('arg:'):
                ew = self.in_mem.get(base)
                if ew is None:
                    raise Unsupported('read through %s without element width' % base)
                if ew == 1:
                    # array of C++ bool: every byte holds 0 or 1 (any other object representation is UB)
                    out.append(T.cat(T.atom_bv(base[4:], o, 1), T.const(7, 0)))
                    continue
                bit = o * 8
                e, r = bit // ew, bit % ew
                out.append(T.slice_(T.atom_bv(base[4:], e, ew), r, 8))
            elif base.startswith('global:'):
                g = self.m.globals[base[7:]]
                if not g.get('const') or 'init' not in g:
                    raise Unsupported('load from mutable global %s' % base)
                bv = self.global_bv(base[7:])
                out.append(T.slice_(bv, o * 8, 8))
            else:
                raise Unsupported('load from %s' % base)
        return T.cat(*out)

    def lut_load(self, p, nbytes, ty):
        """Load from a constant table with a symbolic index.  The table is analysed as DATA: if every bit of
        the loaded value is, over all 2^k index values, either constant or equal to one index bit (or its
        complement), the load is a pure re-arrangement of the index bits and is returned as such.  Any table
        entry that breaks the pattern makes the analysis fail (-> opaque memload term)."""
        if not p.base.startswith('global:') or len(p.var) != 1:
            return None
        g = self.m.globals.get(p.base[7:])
        if g is None or not g.get('const') or 'init' not in g:
            return None
        idx, scale = p.var[0]
        # the index is enumerated over the assignments of its SYMBOLIC bits only (constant bits are fixed),
        # i.e. exactly over the table entries the code can reach
        syms = []       # distinct 1-bit pieces
        layout = []     # per index bit: ('c', v) or ('s', k)
        for j in range(T.width(idx)):
            b1 = T.slice_(idx, j, 1)
            if T.is_const(b1):
                layout.append(('c', T.const_val(b1)))
            else:
                if len(b1) != 1 or b1[0][0] == 'u':
                    return None
                if b1[0] not in syms:
                    syms.append(b1[0])
                layout.append(('s', syms.index(b1[0])))
        k = len(syms)
        if k == 0 or k > 16:
            return None
        try:
            tab = self.global_bv(p.base[7:])
        except Unsupported:
            return None
        total = T.width(tab) // 8
        if not T.is_const(tab):
            return None
        tv = T.const_val(tab)
        nb = nbytes * 8
        entries = []
        for asg in range(1 << k):
            m = 0
            for j, (kind, v) in enumerate(layout):
                bit = v if kind == 'c' else (asg >> v) & 1
                m |= bit << j
            if m >= (1 << 63):
                return None
            off = p.off + m * scale
            if off < 0 or off + nbytes > total:
                return None
            entries.append((tv >> (off * 8)) & ((1 << nb) - 1))
        self.lut_reads = getattr(self, 'lut_reads', [])
        self.lut_reads.append((p.base, k, nbytes))
        out = []
        for j in range(nb):
            col = [(e >> j) & 1 for e in entries]
            if all(c == col[0] for c in col):
                out.append(T.const(1, col[0]))
                continue
            found = None
            for i in range(k):
                if all(col[m] == ((m >> i) & 1) for m in range(1 << k)):
                    found = (syms[i],)
                    break
                if all(col[m] == 1 - ((m >> i) & 1) for m in range(1 << k)):
                    found = T.not_((syms[i],))
                    break
            if found is None:
                return None
            out.append(found)
        return T.cat(*out)

    def global_bv(self, name):
        key = 'gbv:' + name
        if key not in self.m.__dict__:
            self.m.__dict__[key] = self.cbv_layout(self.m.globals[name]['init'])
        return self.m.__dict__[key]

    def cbv_layout(self, c):
        # arrays / vectors of scalars only (no padding)
        return self.cbv(c)

    def store(self, p, bv, inst):
        if p.var:
            raise Unsupported('variable-offset store')
        nbytes = T.width(bv) // 8
        assert nbytes * 8 == T.width(bv)
        base = p.base
        if base.startswith('arg:'):
            self.writes.append((base, p.off, nbytes, inst.get('align', inst.get('dalign', 1)), inst))
        elif base.startswith('alloca:'):
            if p.off < 0 or p.off + nbytes > self.alloca[base]:
                raise Unsupported('out-of-bounds stack write %s+%d (%d bytes, buffer %d)' % (base, p.off, nbytes, self.alloca[base]))
        else:
            raise Unsupported('store to %s' % base)
        w = self.mem.setdefault(base, {})
        for i in range(nbytes):
            w[p.off + i] = T.slice_(bv, i * 8, 8)

    # ---- main loop -------------------------------------------------------
    def run(self):
        """Straight-line evaluation, extended by IF-CONVERSION of loop-free control flow: at a branch on a non-constant
        condition c both arms are evaluated up to the branch's immediate post-dominator J and the phis of J become
        sel(c, value from the taken arm, value from the other arm).  Arms must not write memory.  Branches whose one
        arm is an assertion failure are pruned (assumed preconditions), branches on folded constants are followed."""
        self._blocks = dict((b['id'], b) for b in self.fn['blocks'])
        self._ipdom = None
        self._visited = set()
        self._phi_override = {}
        self._acyclic = self._cfg_is_acyclic()
        self._revisits = 0
        last = self._exec(self.fn['blocks'][0]['id'], None, None)
        if last is not None or not getattr(self, '_returned', False):
            raise NotStraightLine('function does not end in a single return')
        T.CUR_SRC[0] = None
        return self

    def _cfg_is_acyclic(self):
        from . import cfg as CFG
        try:
            succ = CFG.successors(self.fn)
        except ValueError:
            return False
        state = {}
        stack = [(self.fn['blocks'][0]['id'], iter(succ[self.fn['blocks'][0]['id']]))]
        state[self.fn['blocks'][0]['id']] = 1
        while stack:
            node, it = stack[-1]
            adv = False
            for v in it:
                st = state.get(v, 0)
                if st == 1:
                    return False
                if st == 0:
                    state[v] = 1
                    stack.append((v, iter(succ[v])))
                    adv = True
                    break
            if not adv:
                state[node] = 2
                stack.pop()
        return True

    def _post_dominators(self):
        from . import cfg as CFG
        succ = CFG.successors(self.fn)
        blocks = [b['id'] for b in self.fn['blocks']]
        EXIT = -1
        rs = {}
        for b in blocks:
            if not succ[b]:
                rs.setdefault(EXIT, []).append(b)
            for s_ in succ[b]:
                rs.setdefault(s_, []).append(b)
        order, seen, stack = [], set([EXIT]), [(EXIT, iter(rs.get(EXIT, [])))]
        while stack:
            node, it = stack[-1]
            adv = False
            for v in it:
                if v not in seen:
                    seen.add(v)
                    stack.append((v, iter(rs.get(v, []))))
                    adv = True
                    break
            if not adv:
                order.append(node)
                stack.pop()
        rpo = order[::-1]
        idx = dict((b, i) for i, b in enumerate(rpo))
        rp = {}
        for u in rpo:
            for v in rs.get(u, []):
                if v in idx:
                    rp.setdefault(v, []).append(u)
        ip = {EXIT: EXIT}
        ch = True
        while ch:
            ch = False
            for b in rpo[1:]:
                ps = [p for p in rp.get(b, []) if p in ip]
                if not ps:
                    continue
                new = ps[0]
                for p in ps[1:]:
                    a, c = p, new
                    while a != c:
                        while idx[a] > idx[c]:
                            a = ip[a]
                        while idx[c] > idx[a]:
                            c = ip[c]
                    new = a
                if ip.get(b) != new:
                    ip[b] = new
                    ch = True
        return ip

    def _exec(self, bid, prev, stop):
        """executes from block bid (entered from prev) until `stop` is reached (returns the id of the block that
        jumped to stop) or the function returns (returns None)"""
        blocks = self._blocks
        cur = blocks[bid]
        while True:
            if cur['id'] == stop:
                return prev
            if cur['id'] in self._visited and self._acyclic and self.oracle is None and getattr(self, 'allow_shared_arms', False):
                # (opt-in: engine/lanecheck.py sets allow_shared_arms; the C10-C12 path enumerators rely on the exception)
                # loop-free CFG that is a DAG, not a tree: a block shared by several arms (the common `return lhs + rhs`
                # of the branchy scalar sadd/ssub) is simply evaluated again along the other path -- evaluation is a
                # function of the path, and _if_convert merges the arms at the post-dominator.  Bounded (tiny functions).
                self._revisits += 1
                if self._revisits > 4096:
                    raise NotStraightLine('block %s: too many paths through a shared arm' % cur['name'])
            elif cur['id'] in self._visited:
                # with an oracle that decides every branch the path is a straight line even through a loop: the loop is
                # unrolled along it (max_visits bounds the unrolling)
                self._visits = getattr(self, '_visits', {})
                self._visits[cur['id']] = self._visits.get(cur['id'], 1) + 1
                if self.oracle is None or self._visits[cur['id']] > getattr(self, 'max_visits', 1):
                    raise NotStraightLine('block %s reached twice (loop or shared arm)' % cur['name'])
            self._visited.add(cur['id'])
            nxt = None
            if self.is_assert_block(cur):
                raise AssertsFalse('unconditional assertion failure (instantiation not supported by the library)')
            for inst in cur['insts']:
                op = inst['op']
                if op == 'phi':
                    ov = self._phi_override.get((cur['id'], inst['id']))
                    if ov is not None:
                        self.env[inst['id']] = ov
                        continue
                    for inc in inst['incoming']:
                        if inc['bb'] == prev:
                            self.env[inst['id']] = self.val(inc['v'])
                            break
                    else:
                        raise NotStraightLine('phi without matching predecessor')
                    continue
                if op == 'br':
                    ops = inst['ops']
                    if len(ops) == 1:
                        nxt = ops[0]['id']
                    else:
                        c = self.val(ops[0])
                        # operand order of a conditional br in LLVM: cond, false-dest, true-dest
                        fdest, tdest = ops[1]['id'], ops[2]['id']
                        dec = self.oracle(c, inst) if (self.oracle is not None and not T.is_const(c)) else None
                        if T.is_const(c):
                            nxt = tdest if T.const_val(c) else fdest
                        elif dec is not None:
                            # a caller-supplied decision for this branch (used to analyse one whole-batch tier at a time)
                            self.assumed.append(('is' if dec else 'not', c, inst))
                            nxt = tdest if dec else fdest
                        else:
                            ta, fa = self.is_assert_block(blocks[tdest]), self.is_assert_block(blocks[fdest])
                            if ta and not fa:
                                self.assumed.append(('not', c, inst))
                                nxt = fdest
                            elif fa and not ta:
                                self.assumed.append(('is', c, inst))
                                nxt = tdest
                            else:
                                J = self._if_convert(cur, c, tdest, fdest, inst)
                                if J == stop:
                                    # this region rejoins exactly where the enclosing region does: its merged phi values
                                    # (kept in _phi_override) are what this arm delivers to the enclosing join
                                    return ('merged', J)
                                # the phis of the join block were resolved by _if_convert: continue there
                                return self._exec(J, self._join_pred, stop)
                    break
                if op == 'ret':
                    self.ret = self.val(inst['ops'][0]) if inst['ops'] else None
                    self._returned = True
                    return None
                if op == 'unreachable':
                    raise NotStraightLine('reached unreachable')
                if op == 'switch':
                    raise NotStraightLine('switch')
                self.step(inst)
            if nxt is None:
                raise NotStraightLine('block without terminator handled')
            prev = cur['id']
            cur = blocks[nxt]

    def _if_convert(self, cur, c, tdest, fdest, inst):
        if self._ipdom is None:
            self._ipdom = self._post_dominators()
        J = self._ipdom.get(cur['id'])
        if J is None or J == -1:
            raise NotStraightLine('branch on non-constant condition %s (arms do not rejoin)' % T.fmt(c, 3))
        mem_before = dict((k, dict(v)) for k, v in self.mem.items())
        nw = (len(self.writes), len(self.var_access))
        lastT = cur['id'] if tdest == J else self._exec(tdest, cur['id'], J)
        savedT = dict((k, v) for k, v in self._phi_override.items() if k[0] == J) if isinstance(lastT, tuple) else None
        lastF = cur['id'] if fdest == J else self._exec(fdest, cur['id'], J)
        savedF = dict((k, v) for k, v in self._phi_override.items() if k[0] == J) if isinstance(lastF, tuple) else None
        if lastT is None or lastF is None:
            raise NotStraightLine('an arm of the branch on %s returns' % T.fmt(c, 3))
        if self.mem != mem_before or (len(self.writes), len(self.var_access)) != nw:
            raise NotStraightLine('memory written under a non-constant condition')
        jb = self._blocks[J]
        for ph in jb['insts']:
            if ph['op'] != 'phi':
                break
            vt = vf = None
            if isinstance(lastT, tuple):
                vt = savedT.get((J, ph['id']))
            if isinstance(lastF, tuple):
                vf = savedF.get((J, ph['id']))
            for inc in ph['incoming']:
                if inc['bb'] == lastT and not isinstance(lastT, tuple):
                    vt = self.val(inc['v'])
                if inc['bb'] == lastF and not isinstance(lastF, tuple):
                    vf = self.val(inc['v'])
            if vt is None or vf is None or isinstance(vt, (Ptr, dict)) or isinstance(vf, (Ptr, dict)):
                raise NotStraightLine('phi of the join block cannot be if-converted')
            self._phi_override[(J, ph['id'])] = vt if vt == vf else T.sel(c, vt, vf)
        self._join_pred = lastT if not isinstance(lastT, tuple) else (lastF if not isinstance(lastF, tuple) else cur['id'])
        self.assumed_ifconv = getattr(self, 'assumed_ifconv', 0) + 1
        return J

    def is_assert_block(self, b):
        for i in b['insts']:
            if i['op'] == 'call' and i.get('callee') in ('__assert_fail', 'abort', '__assert_rtn'):
                return True
        return False

    # ---- one instruction -------------------------------------------------
    def step(self, inst):
        op = inst['op']
        iid = inst['id']
        self.insts_seen.append(inst)
        T.CUR_SRC[0] = inst
        ty = parse_type(inst['ty'])
        ops = inst.get('ops', [])
        E = self.env

        def lanes_of(o, k=None):
            bv = self.val(o)
            t = self.oty(o)
            if t.kind == 'vec':
                ew = t.elem.bits
                return [T.slice_(bv, i * ew, ew) for i in range(t.n)]
            return [bv]

        def lanewise(f, *oo):
            ls = [lanes_of(o) for o in oo]
            n = max(len(l) for l in ls)
            ls = [l if len(l) == n else l * n for l in ls]
            return T.cat(*[f(*[l[i] for l in ls]) for i in range(n)])

        if op in ('bitcast', 'addrspacecast'):
            E[iid] = self.val(ops[0])
        elif op in ('add', 'sub', 'mul'):
            E[iid] = lanewise({'add': T.add, 'sub': T.sub, 'mul': T.mul}[op], ops[0], ops[1])
        elif op in ('and', 'or', 'xor'):
            a, b = self.val(ops[0]), self.val(ops[1])
            E[iid] = {'and': T.and_, 'or': T.or_, 'xor': T.xor}[op](a, b)
        elif op in ('shl', 'lshr', 'ashr'):
            def sh(x, n):
                w = T.width(x)
                if T.is_const(n):
                    c = T.const_val(n)
                    if c >= w:
                        return T.undef(w)
                    return {'shl': T.shl_c, 'lshr': T.lshr_c, 'ashr': T.ashr_c}[op](x, c)
                return T.raw_op(op, w, x, n)
            E[iid] = lanewise(sh, ops[0], ops[1])
        elif op in ('udiv', 'sdiv', 'urem', 'srem'):
            E[iid] = lanewise(lambda x, y: T.raw_op(op, T.width(x), x, y), ops[0], ops[1])
        elif op in ('fadd', 'fsub', 'fmul', 'fdiv', 'frem'):
            if inst.get('fmf'):
                self.calls.append(('fast-math', inst))
            E[iid] = lanewise(lambda x, y: T.raw_op(op, T.width(x), x, y), ops[0], ops[1])
        elif op == 'fneg':
            E[iid] = lanewise(T.fneg, ops[0])
        elif op == 'icmp':
            p = inst['pred']
            a, b = self.val(ops[0]), self.val(ops[1])
            if isinstance(a, Ptr) or isinstance(b, Ptr):
                raise Unsupported('pointer comparison')
            E[iid] = lanewise(lambda x, y: T.icmp(p, x, y), ops[0], ops[1])
        elif op == 'fcmp':
            p = inst['pred']
            E[iid] = lanewise(lambda x, y: T.fcmp(p, x, y), ops[0], ops[1])
        elif op == 'select':
            ct = self.oty(ops[0])
            if ct.kind == 'vec':
                E[iid] = lanewise(T.sel, ops[0], ops[1], ops[2])
            else:
                c = self.val(ops[0])
                a, b = self.val(ops[1]), self.val(ops[2])
                if isinstance(a, Ptr) or isinstance(b, Ptr):
                    raise Unsupported('pointer select')
                if ty.kind == 'vec':
                    E[iid] = lanewise(lambda x, y: T.sel(c, x, y), ops[1], ops[2])
                else:
                    E[iid] = T.sel(c, a, b)
        elif op in ('zext', 'sext', 'trunc'):
            ew = ty.elem.bits if ty.kind == 'vec' else ty.bits
            f = {'zext': T.zext, 'sext': T.sext, 'trunc': T.trunc}[op]
            E[iid] = lanewise(lambda x: f(x, ew), ops[0])
        elif op in ('sitofp', 'uitofp', 'fptosi', 'fptoui', 'fpext', 'fptrunc'):
            ew = ty.elem.bits if ty.kind == 'vec' else ty.bits

            def conv(x):
                if op in ('sitofp', 'uitofp') and len(x) == 2 and T.pw(x[0]) == 1 and x[1][0] == 'c' and x[1][2] == 0 \
                        and T.width(x) > 1 and ew in (32, 64):
                    # int -> fp of a value that is 0 or 1: exactly 0.0 or 1.0
                    one = 0x3f800000 if ew == 32 else 0x3ff0000000000000
                    return T.sel((x[0],), T.const(ew, one), T.const(ew, 0))
                return T.raw_op(op, ew, x, attrs=T.width(x))
            E[iid] = lanewise(conv, ops[0])
        elif op == 'shufflevector':
            a, b = self.val(ops[0]), self.val(ops[1])
            st = self.oty(ops[0])
            ew, n = st.elem.bits, st.n
            out = []
            for m in inst['mask']:
                if m < 0:
                    out.append(T.undef(ew))
                elif m < n:
                    out.append(T.slice_(a, m * ew, ew))
                else:
                    out.append(T.slice_(b, (m - n) * ew, ew))
            E[iid] = T.cat(*out)
        elif op == 'extractelement':
            v, idx = self.val(ops[0]), self.val(ops[1])
            st = self.oty(ops[0])
            ew = st.elem.bits
            if T.is_const(idx):
                i = T.const_val(idx)
                E[iid] = T.slice_(v, i * ew, ew) if i < st.n else T.undef(ew)
            else:
                E[iid] = T.raw_op('extractelement', ew, v, idx)
        elif op == 'insertelement':
            v, x, idx = self.val(ops[0]), self.val(ops[1]), self.val(ops[2])
            if isinstance(x, Ptr):
                raise Unsupported('vector of pointers')
            ew = ty.elem.bits
            if not T.is_const(idx):
                raise Unsupported('insertelement with variable index')
            i = T.const_val(idx)
            E[iid] = T.cat(T.slice_(v, 0, i * ew), x, T.slice_(v, (i + 1) * ew, (ty.n - i - 1) * ew))
        elif op == 'extractvalue':
            v = self.val(ops[0])
            st = self.oty(ops[0])
            idx = inst['idx']
            if len(idx) != 1 or st.kind not in ('struct', 'array'):
                raise Unsupported('extractvalue shape')
            elems = st.elems if st.kind == 'struct' else [st.elem] * st.n
            if isinstance(v, dict):
                E[iid] = v[idx[0]]
            else:
                off = sum(e.bits for e in elems[:idx[0]])
                E[iid] = T.slice_(v, off, elems[idx[0]].bits)
        elif op == 'insertvalue':
            v, x = self.val(ops[0]), self.val(ops[1])
            st = ty
            idx = inst['idx']
            if len(idx) != 1 or st.kind not in ('struct', 'array'):
                raise Unsupported('insertvalue shape')
            elems = st.elems if st.kind == 'struct' else [st.elem] * st.n
            if any(e.kind == 'ptr' for e in elems) or isinstance(x, Ptr):
                d = dict(v) if isinstance(v, dict) else {}
                d[idx[0]] = x
                E[iid] = d
            else:
                off = sum(e.bits for e in elems[:idx[0]])
                wv = T.width(v)
                E[iid] = T.cat(T.slice_(v, 0, off), x, T.slice_(v, off + elems[idx[0]].bits, wv - off - elems[idx[0]].bits))
        elif op == 'alloca':
            base = 'alloca:%d' % iid
            self.alloca[base] = inst['alloc_bytes']
            E[iid] = Ptr(base, 0)
        elif op == 'getelementptr':
            p = self.val(ops[0])
            if not isinstance(p, Ptr):
                raise Unsupported('gep on non-pointer')
            if 'coff' not in inst:
                raise Unsupported('gep without offset decomposition')
            var = list(p.var)
            off = p.off + inst['coff']
            for vo in inst['voff']:
                bv = self.val(vo['v'])
                if T.is_const(bv):
                    w = T.width(bv)
                    off += T._sx(T.const_val(bv), w) * vo['scale']
                else:
                    var.append((bv, vo['scale']))
            E[iid] = Ptr(p.base, off, var)
        elif op == 'load':
            p = self.val(ops[0])
            if not isinstance(p, Ptr):
                raise Unsupported('load through computed pointer')
            if ty.kind == 'ptr':
                raise Unsupported('load of pointer')
            if p.var:
                r = self.lut_load(p, inst['bytes'], ty)
                if r is not None:
                    E[iid] = r
                else:
                    self.var_access.append(('load', p, inst['bytes'], None, inst))
                    E[iid] = T.raw_op('memload', ty.bits, *[v for v, s in p.var], attrs=(p.base, p.off, tuple(s for v, s in p.var)))
            else:
                E[iid] = self.load(p, inst['bytes'], inst)
        elif op == 'store':
            v, p = self.val(ops[0]), self.val(ops[1])
            if not isinstance(p, Ptr):
                raise Unsupported('store through computed pointer')
            if isinstance(v, Ptr):
                raise Unsupported('store of pointer')
            if p.var:
                self.var_access.append(('store', p, inst['bytes'], v, inst))
            else:
                self.store(p, v, inst)
        elif op == 'call':
            self.call(inst, ty, ops, lanes_of, lanewise)
        elif op == 'freeze':
            E[iid] = self.val(ops[0])
        elif op == 'ptrtoint':
            p = self.val(ops[0])
            if not isinstance(p, Ptr) or p.var or not p.base.startswith('arg:'):
                raise Unsupported('ptrtoint of %r' % (p,))
            # the numeric address of a pointer argument: an opaque 64-bit input plus the constant offset
            E[iid] = T.slice_(T.add(T.atom_bv('addr_' + p.base[4:], 0, 64), T.const(64, p.off)), 0, ty.bits)
        elif op == 'inttoptr':
            raise Unsupported(op)
        else:
            raise Unsupported('opcode %s' % op)

    def call(self, inst, ty, ops, lanes_of, lanewise):
        E = self.env
        iid = inst['id']
        name = inst.get('callee')
        if name is None:
            raise Unsupported('indirect call / inline asm')
        if name.startswith(IGNORED_CALLS):
            return
        base = re.sub(r'\.(v\d+)?(i\d+|f32|f64|p0i8|p0)(\.(v\d+)?(i\d+|f32|f64|p0i8|p0))*$', '', name)
        if base in ('llvm.fshl', 'llvm.fshr'):
            def fs(a, b, n):
                w = T.width(a)
                if T.is_const(n):
                    return (T.fshl_c if base == 'llvm.fshl' else T.fshr_c)(a, b, T.const_val(n))
                return T.raw_op(base[5:], w, a, b, n)
            E[iid] = lanewise(fs, ops[0], ops[1], ops[2])
        elif base == 'llvm.abs':
            E[iid] = lanewise(T.abs_, ops[0])
        elif base in ('llvm.smin', 'llvm.smax', 'llvm.umin', 'llvm.umax'):
            E[iid] = lanewise(lambda x, y: T.minmax(base[5:], x, y), ops[0], ops[1])
        elif base in ('llvm.sadd.sat', 'llvm.uadd.sat', 'llvm.ssub.sat', 'llvm.usub.sat'):
            E[iid] = lanewise(lambda x, y: T.raw_op(base[5:], T.width(x), x, y), ops[0], ops[1])
        elif base == 'llvm.fabs':
            E[iid] = lanewise(T.fabs, ops[0])
        elif base == 'llvm.copysign':
            E[iid] = lanewise(T.copysign, ops[0], ops[1])
        elif base == 'llvm.bswap':
            def bsw(x):
                n = T.width(x) // 8
                return T.cat(*[T.slice_(x, (n - 1 - i) * 8, 8) for i in range(n)])
            E[iid] = lanewise(bsw, ops[0])
        elif re.match(r'^llvm\.x86\.(sse41\.(pblendvb|blendvps|blendvpd)|avx2\.pblendvb|avx\.blendv\.p[sd]\.256)$', name):
            # blendv(a, b, mask): lane = sign bit of the mask lane ? b : a   (Intel SDM, PBLENDVB/BLENDVPS/BLENDVPD)
            ew = 8 if 'pblendvb' in name else (32 if name.endswith('ps') or 'ps.256' in name else 64)
            a, b, mk = self.val(ops[0]), self.val(ops[1]), self.val(ops[2])
            n = T.width(a) // ew
            E[iid] = T.cat(*[T.sel(T.slice_(mk, (i + 1) * ew - 1, 1), T.slice_(b, i * ew, ew), T.slice_(a, i * ew, ew)) for i in range(n)])
        elif re.match(r'^llvm\.x86\.avx512\.mask\.pmov\.(db|dw|qb|qw|qd|wb)\.(128|256|512)$', name):
            # VPMOV* down-converting move with write mask: lane = mask ? trunc(src lane) : passthru lane
            kind = name.split('.')[5]
            sw = {'d': 32, 'q': 64, 'w': 16}[kind[0]]
            dw = {'b': 8, 'w': 16, 'd': 32}[kind[1]]
            src, pas, mk = self.val(ops[0]), self.val(ops[1]), self.val(ops[2])
            n = T.width(src) // sw
            outl = [T.sel(T.slice_(mk, i, 1), T.slice_(src, i * sw, dw), T.slice_(pas, i * dw, dw)) for i in range(n)]
            tot = ty.bits
            E[iid] = T.cat(*(outl + [T.const(tot - n * dw, 0)]))
        elif re.match(r'^llvm\.x86\.avx512\.(max|min)\.p[sd]\.512$', name):
            if T.const_val(self.val(ops[2])) != 4:
                raise Unsupported('%s with explicit rounding/SAE' % name)
            nm = 'x86.f' + name.split('.')[3]
            E[iid] = lanewise(lambda x, y: T.raw_op(nm, T.width(x), x, y), ops[0], ops[1])
        elif re.match(r'^llvm\.x86\.avx512\.mask\.cvttps2u?dq\.(128|256|512)$', name):
            # VCVTTPS2DQ / VCVTTPS2UDQ (truncating float -> int32 / uint32) with write mask, current rounding ignored (truncation)
            if len(ops) > 3 and T.const_val(self.val(ops[3])) != 4:
                raise Unsupported('%s with SAE' % name)
            nm = 'x86.cvttps2udq' if 'udq' in name else 'x86.cvttps2dq'
            src, pas, mk = self.val(ops[0]), self.val(ops[1]), self.val(ops[2])
            n = T.width(src) // 32
            E[iid] = T.cat(*[T.sel(T.slice_(mk, i, 1), T.raw_op(nm, 32, T.slice_(src, i * 32, 32)), T.slice_(pas, i * 32, 32)) for i in range(n)])
        elif re.match(r'^llvm\.x86\.avx512\.mask\.cvtps2dq\.(128|256|512)$', name):
            # VCVTPS2DQ (float -> int32 in the current rounding mode: operand 3 = 4 means MXCSR) with write mask
            if len(ops) > 3 and T.const_val(self.val(ops[3])) != 4:
                raise Unsupported('%s with explicit rounding' % name)
            src, pas, mk = self.val(ops[0]), self.val(ops[1]), self.val(ops[2])
            n = T.width(src) // 32
            E[iid] = T.cat(*[T.sel(T.slice_(mk, i, 1), T.raw_op('x86.cvtps2dq', 32, T.slice_(src, i * 32, 32)), T.slice_(pas, i * 32, 32)) for i in range(n)])
        elif re.match(r'^llvm\.x86\.avx512\.mask\.rndscale\.p[sd]\.(128|256|512)$', name):
            # VRNDSCALE with scale 0 (imm[7:4] = 0) is ROUNDPS/PD with imm[3:0]; write-masked
            imm = T.const_val(self.val(ops[1]))
            if len(ops) > 4 and T.const_val(self.val(ops[4])) != 4:
                raise Unsupported('%s with SAE' % name)
            if imm >> 4:
                raise Unsupported('rndscale with a non-zero scale')
            ew = 32 if '.ps.' in name else 64
            src, pas, mk = self.val(ops[0]), self.val(ops[2]), self.val(ops[3])
            n = T.width(src) // ew
            E[iid] = T.cat(*[T.sel(T.slice_(mk, i, 1), T.raw_op('x86.round', ew, T.slice_(src, i * ew, ew), attrs=(imm,)), T.slice_(pas, i * ew, ew)) for i in range(n)])
        elif re.match(r'^llvm\.x86\.(sse41|avx)\.ptest(z|c|nzc)(\.256)?$', name):
            a, b = self.val(ops[0]), self.val(ops[1])
            kind = re.search(r'ptest(z|c|nzc)', name).group(1)
            w = T.width(a)
            z = T.icmp('eq', T.and_(a, b), T.const(w, 0))            # ZF
            c = T.icmp('eq', T.and_(T.not_(a), b), T.const(w, 0))    # CF
            r = {'z': z, 'c': c, 'nzc': T.and_(T.not_(z), T.not_(c))}[kind]
            E[iid] = T.zext(r, ty.bits)
        elif re.match(r'^llvm\.x86\.avx\.vtest(z|c|nzc)\.p[sd](\.256)?$', name):
            a, b = self.val(ops[0]), self.val(ops[1])
            kind = re.search(r'vtest(z|c|nzc)', name).group(1)
            ew = 32 if '.ps' in name else 64
            n = T.width(a) // ew
            sa = T.cat(*[T.slice_(a, (i + 1) * ew - 1, 1) for i in range(n)])
            sb = T.cat(*[T.slice_(b, (i + 1) * ew - 1, 1) for i in range(n)])
            z = T.icmp('eq', T.and_(sa, sb), T.const(n, 0))
            c = T.icmp('eq', T.and_(T.not_(sa), sb), T.const(n, 0))
            r = {'z': z, 'c': c, 'nzc': T.and_(T.not_(z), T.not_(c))}[kind]
            E[iid] = T.zext(r, ty.bits)
        elif re.match(r'^llvm\.x86\.(ssse3\.phadd\.[wd]\.128|avx2\.phadd\.[wd]|ssse3\.phsub\.[wd]\.128|avx2\.phsub\.[wd])$', name):
            a, b = self.val(ops[0]), self.val(ops[1])
            ew = 16 if re.search(r'\.w(\.|$)', name) else 32
            f = T.add if 'phadd' in name else T.sub
            per = 128 // ew
            out = []
            for l in range(T.width(a) // 128):
                for src in (a, b):
                    for k in range(per // 2):
                        out.append(f(T.slice_(src, l * 128 + (2 * k) * ew, ew), T.slice_(src, l * 128 + (2 * k + 1) * ew, ew)))
            E[iid] = T.cat(*out)
        elif re.match(r'^llvm\.x86\.(sse3|avx)\.(hadd|hsub)\.p[sd](\.256)?$', name):
            # HADDPS/PD: within each 128-bit lane [a0+a1, a2+a3, b0+b1, b2+b3] (pd: [a0+a1, b0+b1])
            a, b = self.val(ops[0]), self.val(ops[1])
            ew = 32 if '.ps' in name else 64
            opn = 'fadd' if 'hadd' in name else 'fsub'
            per = 128 // ew
            out = []
            for l in range(T.width(a) // 128):
                for src in (a, b):
                    for k in range(per // 2):
                        x = T.slice_(src, l * 128 + (2 * k) * ew, ew)
                        y = T.slice_(src, l * 128 + (2 * k + 1) * ew, ew)
                        out.append(T.raw_op(opn, ew, x, y))
            E[iid] = T.cat(*out)
        elif name.startswith('llvm.masked.store.'):
            v, p, mk = self.val(ops[0]), self.val(ops[1]), self.val(ops[3])
            vt = self.oty(ops[0])
            ew = vt.elem.bits
            for i in range(vt.n):
                mb = T.slice_(mk, i, 1)
                if T.is_const(mb) and T.const_val(mb) == 0:
                    continue
                q = Ptr(p.base, p.off + i * ew // 8, p.var)
                fake = dict(inst)
                fake['align'] = 1
                x = T.slice_(v, i * ew, ew)
                if not T.is_const(mb):
                    try:
                        old = self.load(q, ew // 8, {'align': 1, 'masked_probe': True})
                        if q.base.startswith('arg:'):
                            self.reads.pop()
                    except Unsupported:
                        old = T.undef(ew)
                    x = T.sel(mb, x, old)
                    fake['masked'] = T.fmt(mb, 2)
                self.store(q, x, fake)
        elif name.startswith('llvm.masked.load.'):
            p, mk, pas = self.val(ops[0]), self.val(ops[2]), self.val(ops[3])
            ew = ty.elem.bits
            out = []
            for i in range(ty.n):
                mb = T.slice_(mk, i, 1)
                if T.is_const(mb) and T.const_val(mb) == 0:
                    out.append(T.slice_(pas, i * ew, ew))
                    continue
                if not T.is_const(mb):
                    raise Unsupported('masked load with symbolic mask')
                out.append(self.load(Ptr(p.base, p.off + i * ew // 8, p.var), ew // 8, {'align': 1}))
            E[iid] = T.cat(*out)
        elif name in ('llvm.x86.sse3.ldu.dq', 'llvm.x86.avx.ldu.dq.256'):
            p = self.val(ops[0])
            E[iid] = self.load(p, ty.bits // 8, {'align': 1})       # LDDQU: unaligned load of the whole register
        elif re.match(r'^llvm\.x86\.avx2\.gather\.(d|q)\.(d|q|ps|pd)(\.256)?$', name):
            # (src, base, index, mask vector (sign bit), scale)
            src, p, idx, mk, sc = self.val(ops[0]), self.val(ops[1]), self.val(ops[2]), self.val(ops[3]), T.const_val(self.val(ops[4]))
            it = self.oty(ops[2])
            ew = ty.elem.bits
            iw = it.elem.bits
            out = []
            for i in range(ty.n):
                mb = T.slice_(mk, (i + 1) * ew - 1, 1)
                if not T.is_const(mb):
                    raise Unsupported('gather with symbolic mask')
                if T.const_val(mb) == 0 or i >= it.n:
                    out.append(T.slice_(src, i * ew, ew) if T.const_val(mb) == 0 else T.const(ew, 0))
                    continue
                ix = T.sext(T.slice_(idx, i * iw, iw), 64)
                self.var_access.append(('load', Ptr(p.base, p.off, list(p.var) + [(ix, sc)]), ew // 8, None, inst))
                out.append(T.raw_op('memload', ew, ix, attrs=(p.base, p.off, (sc,))))
            E[iid] = T.cat(*out)
        elif re.match(r'^llvm\.x86\.avx512\.mask\.gather\.', name) or re.match(r'^llvm\.x86\.avx512\.mask\.gather3', name):
            # (src, base, index, mask<n x i1>, scale): lane = mask ? mem[base + sext(index lane)*scale] : src lane
            src, p, idx, mk, sc = self.val(ops[0]), self.val(ops[1]), self.val(ops[2]), self.val(ops[3]), T.const_val(self.val(ops[4]))
            it = self.oty(ops[2])
            ew = ty.elem.bits
            out = []
            for i in range(ty.n):
                mb = T.slice_(mk, i, 1)
                if not T.is_const(mb):
                    raise Unsupported('gather with symbolic mask')
                if T.const_val(mb) == 0:
                    out.append(T.slice_(src, i * ew, ew))
                    continue
                ix = T.sext(T.slice_(idx, i * it.elem.bits, it.elem.bits), 64)
                q = Ptr(p.base, p.off, list(p.var) + [(ix, sc)])
                self.var_access.append(('load', q, ew // 8, None, inst))
                out.append(T.raw_op('memload', ew, ix, attrs=(p.base, p.off, (sc,))))
            E[iid] = T.cat(*out)
        elif re.match(r'^llvm\.x86\.avx512\.mask\.scatter', name):
            # (base, mask<n x i1>, index, value, scale)
            p, mk, idx, v, sc = self.val(ops[0]), self.val(ops[1]), self.val(ops[2]), self.val(ops[3]), T.const_val(self.val(ops[4]))
            it, vt = self.oty(ops[2]), self.oty(ops[3])
            ew = vt.elem.bits
            for i in range(vt.n):
                mb = T.slice_(mk, i, 1)
                if not T.is_const(mb):
                    raise Unsupported('scatter with symbolic mask')
                if T.const_val(mb) == 0:
                    continue
                ix = T.sext(T.slice_(idx, i * it.elem.bits, it.elem.bits), 64)
                self.var_access.append(('store', Ptr(p.base, p.off, list(p.var) + [(ix, sc)]), ew // 8, T.slice_(v, i * ew, ew), inst))
        elif self.const_permute(inst, name, ops, ty):
            pass
        elif re.match(r'^llvm\.x86\.avx512\.mask\.(compress|expand)\.', name):
            src, pas, mk = self.val(ops[0]), self.val(ops[1]), self.val(ops[2])
            if not T.is_const(mk):
                self.opaque(inst, ty, ops, name)
                return
            ew = ty.elem.bits
            n = ty.n
            m = T.const_val(mk)
            sel_ = [i for i in range(n) if (m >> i) & 1]
            out = []
            if '.compress.' in name:
                # VPCOMPRESS: selected source lanes packed contiguously from lane 0, remaining lanes from passthru
                for k in range(n):
                    out.append(T.slice_(src, sel_[k] * ew, ew) if k < len(sel_) else T.slice_(pas, k * ew, ew))
            else:
                # VPEXPAND: consecutive source lanes written to the selected positions, others from passthru
                j = 0
                for i in range(n):
                    if (m >> i) & 1:
                        out.append(T.slice_(src, j * ew, ew))
                        j += 1
                    else:
                        out.append(T.slice_(pas, i * ew, ew))
            E[iid] = T.cat(*out)
        elif base in ('llvm.ctpop', 'llvm.bitreverse'):
            E[iid] = lanewise(lambda x: T.raw_op(base[5:], T.width(x), x), ops[0])
        elif base in ('llvm.ctlz', 'llvm.cttz'):
            E[iid] = lanewise(lambda x: T.raw_op(base[5:], T.width(x), x), ops[0])
        elif base.startswith('llvm.') and base[5:] in LLVM_LANEWISE_FP:
            if inst.get('fmf'):
                self.calls.append(('fast-math', inst))
            nm = base[5:]
            E[iid] = lanewise(lambda *xs: T.raw_op(nm, T.width(xs[0]), *xs), *ops)
        elif base.startswith('llvm.vector.reduce.'):
            red = base[len('llvm.vector.reduce.'):]
            vec = ops[-1]
            ls = lanes_of(vec)
            w = T.width(ls[0])
            opn = {'add': 'add', 'mul': 'mul', 'and': 'and', 'or': 'or', 'xor': 'xor', 'smax': 'smax', 'smin': 'smin',
                   'umax': 'umax', 'umin': 'umin'}.get(red)
            if red in ('fadd', 'fmul'):
                # start value op (lane0 op (lane1 ...)) in some association order; -0.0 is the exact additive identity
                st = self.val(ops[0])
                acc = None
                if not (red == 'fadd' and T.is_const(st) and T.const_val(st) == 1 << (w - 1)):
                    acc = st
                for x in ls:
                    acc = x if acc is None else T.raw_op(red, w, acc, x)
                E[iid] = acc
                return
            if opn is None:
                raise Unsupported(name)
            acc = ls[0]
            for x in ls[1:]:
                acc = T.op(opn, w, acc, x)
            E[iid] = acc
        elif base in ('llvm.memcpy', 'llvm.memmove'):
            d, s, n = self.val(ops[0]), self.val(ops[1]), self.val(ops[2])
            if not T.is_const(n):
                raise Unsupported('memcpy with variable length')
            nb = T.const_val(n)
            if nb:
                fake = dict(inst)
                fake['align'] = inst.get('salign', 1)
                bv = self.load(s, nb, fake)
                fake2 = dict(inst)
                fake2['align'] = inst.get('dalign', 1)
                self.store(d, bv, fake2)
        elif base == 'llvm.memset':
            d, v, n = self.val(ops[0]), self.val(ops[1]), self.val(ops[2])
            if not T.is_const(n):
                raise Unsupported('memset with variable length')
            nb = T.const_val(n)
            fake = dict(inst)
            fake['align'] = inst.get('dalign', 1)
            if nb:
                self.store(d, T.cat(*([v] * nb)), fake)
        elif name in X86_LANEWISE:
            nm = X86_LANEWISE[name]
            vec_ops = [o for o in ops if self.oty(o).kind == 'vec']
            imm = tuple(T.const_val(self.val(o)) for o in ops if self.oty(o).kind != 'vec')
            E[iid] = lanewise(lambda *xs: T.raw_op(nm, T.width(xs[0]), *xs, attrs=(imm if imm else None)), *vec_ops)
        elif X86_SHIFT.match(name):
            m = X86_SHIFT.match(name)
            kind, imm, wch = m.group(2), m.group(3), m.group(4)
            ew = {'w': 16, 'd': 32, 'q': 64}[wch]
            x = self.val(ops[0])
            cnt = self.val(ops[1])
            n = T.width(x) // ew
            if not imm:
                cnt = T.slice_(cnt, 0, 64)
            if T.is_const(cnt):
                c = T.const_val(cnt)
                f = {'psll': T.shl_c, 'psrl': T.lshr_c, 'psra': lambda a, k: T.ashr_c(a, min(k, ew - 1))}[kind]
                E[iid] = T.cat(*[f(T.slice_(x, i * ew, ew), c) for i in range(n)])
            else:
                E[iid] = T.cat(*[T.raw_op('x86.' + kind, ew, T.slice_(x, i * ew, ew), cnt) for i in range(n)])
        elif re.match(r'^llvm\.x86\.(sse2\.pmovmskb\.128|avx2\.pmovmskb|sse\.movmsk\.ps|sse2\.movmsk\.pd|avx\.movmsk\.p[sd]\.256)$', name):
            ls = lanes_of(ops[0])
            E[iid] = T.cat(*([T.topbit(l) for l in ls] + [T.const(ty.bits - len(ls), 0)]))
        elif name.startswith('ext_f_'):
            # the opaque binary functor handed to xsimd::reduce: declared lane-wise by the wrapper generator
            ew = int(name[7:])
            a, b = self.val(ops[0]), self.val(ops[1])
            n = T.width(a) // ew
            E[iid] = T.cat(*[T.raw_op('lanewise:ext_f', ew, T.slice_(a, i * ew, ew), T.slice_(b, i * ew, ew)) for i in range(n)])
        elif name.startswith('llvm.'):
            # unknown intrinsic: opaque whole-value term (sound: nothing is assumed about it)
            self.opaque(inst, ty, ops, name)
        else:
            self.opaque(inst, ty, ops, name)

    def const_permute(self, inst, name, ops, ty):
        """x86 permutes whose index operand is a compile-time constant: pure re-slicing (Intel SDM operation
        sections of PSHUFB, VPERMILPS/PD, VPERMD/PS, VPERMB/W/D/Q, VPERMI2*).  Returns False if not applicable."""
        E = self.env
        iid = inst['id']
        m = re.match(r'^llvm\.x86\.(ssse3\.pshuf\.b\.128|avx2\.pshuf\.b|avx512\.pshuf\.b\.512)$', name)
        if m:
            a, idx = self.val(ops[0]), self.val(ops[1])
            if not T.is_const(idx):
                return False
            iv = T.const_val(idx)
            n = T.width(a) // 8
            out = []
            for i in range(n):
                c = (iv >> (8 * i)) & 0xff
                base_ = (i // 16) * 16
                out.append(T.const(8, 0) if c & 0x80 else T.slice_(a, (base_ + (c & 15)) * 8, 8))
            E[iid] = T.cat(*out)
            return True
        m = re.match(r'^llvm\.x86\.(avx|avx512)\.vpermilvar\.(ps|pd)(\.256|\.512)?$', name)
        if m:
            a, idx = self.val(ops[0]), self.val(ops[1])
            if not T.is_const(idx):
                return False
            iv = T.const_val(idx)
            ew = 32 if m.group(2) == 'ps' else 64
            n = T.width(a) // ew
            per = 128 // ew
            out = []
            for i in range(n):
                c = (iv >> (ew * i)) & ((1 << ew) - 1)
                k = (c & 3) if ew == 32 else ((c >> 1) & 1)
                out.append(T.slice_(a, ((i // per) * per + k) * ew, ew))
            E[iid] = T.cat(*out)
            return True
        m = re.match(r'^llvm\.x86\.avx2\.perm(d|ps)$', name)
        if m:
            a, idx = self.val(ops[0]), self.val(ops[1])
            if not T.is_const(idx):
                return False
            iv = T.const_val(idx)
            E[iid] = T.cat(*[T.slice_(a, (((iv >> (32 * i)) & 7)) * 32, 32) for i in range(8)])
            return True
        m = re.match(r'^llvm\.x86\.avx512\.permvar\.(qi|hi|si|di|sf|df)\.(128|256|512)$', name)
        if m:
            a, idx = self.val(ops[0]), self.val(ops[1])
            if not T.is_const(idx):
                return False
            iv = T.const_val(idx)
            ew = {'qi': 8, 'hi': 16, 'si': 32, 'di': 64, 'sf': 32, 'df': 64}[m.group(1)]
            n = T.width(a) // ew
            E[iid] = T.cat(*[T.slice_(a, (((iv >> (ew * i)) & (n - 1))) * ew, ew) for i in range(n)])
            return True
        m = re.match(r'^llvm\.x86\.avx512\.vpermi2var\.(qi|hi|d|q|ps|pd)\.(128|256|512)$', name)
        if m:
            a, idx, b = self.val(ops[0]), self.val(ops[1]), self.val(ops[2])
            if not T.is_const(idx):
                return False
            iv = T.const_val(idx)
            ew = {'qi': 8, 'hi': 16, 'd': 32, 'q': 64, 'ps': 32, 'pd': 64}[m.group(1)]
            n = T.width(a) // ew
            out = []
            for i in range(n):
                c = (iv >> (ew * i)) & (2 * n - 1)
                out.append(T.slice_(b if c & n else a, (c & (n - 1)) * ew, ew))
            E[iid] = T.cat(*out)
            return True
        return False

    def opaque(self, inst, ty, ops, name):
        vals = []
        for o in ops:
            v = self.val(o)
            if isinstance(v, Ptr):
                raise Unsupported('call %s with pointer argument' % name)
            vals.append(v)
        self.calls.append(('opaque', inst))
        if ty.kind == 'void':
            return
        if ty.kind not in ('int', 'fp', 'vec'):
            raise Unsupported('call %s returning %s' % (name, ty.s))
        self.env[inst['id']] = T.raw_op('call:' + name, ty.bits, *vals)
