"""The real function a floating-point lane term denotes when every rounding is erased (C10/C11 kernel clause).

A lane term (engine/terms.py) is read as a rational function over the rationals in *atoms*: the argument lanes and every
maximal sub-term that is not floating-point arithmetic (a rounding to integer, an int->float conversion, a float
rebuilt from integer bit manipulation, ...).  fadd/fsub/fmul/fdiv/fma/fneg and constants are interpreted exactly;
a select in arithmetic position splits the function into cases.  Nothing is evaluated in floating point.
"""
import struct
from fractions import Fraction as Fr

from . import terms as T


class NotReal(Exception):
    pass


# ---------------------------------------------------------------- multivariate polynomials: {monomial: Fraction}, monomial = ((atom, power), ...)
def p_const(c):
    return {(): Fr(c)} if c != 0 else {}


def p_atom(i):
    return {((i, 1),): Fr(1)}


def p_add(p, q, k=1):
    r = dict(p)
    for m, c in q.items():
        v = r.get(m, 0) + k * c
        if v == 0:
            r.pop(m, None)
        else:
            r[m] = v
    return r


def _mmul(m1, m2):
    d = dict(m1)
    for a, e in m2:
        d[a] = d.get(a, 0) + e
    return tuple(sorted(d.items()))


def p_mul(p, q):
    r = {}
    for m1, c1 in p.items():
        for m2, c2 in q.items():
            m = _mmul(m1, m2)
            v = r.get(m, 0) + c1 * c2
            if v == 0:
                r.pop(m, None)
            else:
                r[m] = v
    return r


def p_atoms(p):
    s = set()
    for m in p:
        for a, e in m:
            s.add(a)
    return s


def p_subst(p, atom, q):
    """substitute the polynomial q for atom"""
    out = {}
    pw = {0: p_const(1)}
    for m, c in p.items():
        e = dict(m).get(atom, 0)
        rest = tuple((a, k) for a, k in m if a != atom)
        if e not in pw:
            for j in range(1, e + 1):
                if j not in pw:
                    pw[j] = p_mul(pw[j - 1], q)
        out = p_add(out, p_mul({rest: c}, pw[e]))
    return out


def p_univariate(p, atom):
    """coefficient list in `atom`; raises if another atom occurs"""
    deg = 0
    for m in p:
        for a, e in m:
            if a != atom:
                raise NotReal('unexpected atom %r in a univariate position' % (a,))
            deg = max(deg, e)
    c = [Fr(0)] * (deg + 1)
    for m, v in p.items():
        c[dict(m).get(atom, 0)] = v
    return c


class RF(object):
    """num / den"""

    def __init__(self, num, den=None):
        self.num, self.den = num, (den if den is not None else p_const(1))
        if not self.num:
            self.den = p_const(1)          # the zero function: keep no denominator (it would survive sums as a common factor)

    def __add__(self, o):
        if self.den == o.den:
            return RF(p_add(self.num, o.num), self.den)
        return RF(p_add(p_mul(self.num, o.den), p_mul(o.num, self.den)), p_mul(self.den, o.den))

    def __neg__(self):
        return RF(p_add({}, self.num, -1), self.den)

    def __sub__(self, o):
        return self + (-o)

    def __mul__(self, o):
        return RF(p_mul(self.num, o.num), p_mul(self.den, o.den))

    def __truediv__(self, o):
        if not o.num:
            raise NotReal('division by the zero function')
        return RF(p_mul(self.num, o.den), p_mul(self.den, o.num))

    def atoms(self):
        return p_atoms(self.num) | p_atoms(self.den)

    def subst(self, atom, q):
        return RF(p_subst(self.num, atom, q), p_subst(self.den, atom, q))

    def subst_rf(self, atom, P, Qd):
        """substitute the rational function P/Qd for atom (the common power of Qd cancels between num and den)"""
        def hom(p):
            deg = max([dict(m).get(atom, 0) for m in p] or [0])
            return deg
        n = max(hom(self.num), hom(self.den))
        pw_p, pw_q = {0: p_const(1)}, {0: p_const(1)}
        for j in range(1, n + 1):
            pw_p[j] = p_mul(pw_p[j - 1], P)
            pw_q[j] = p_mul(pw_q[j - 1], Qd)

        def conv(p):
            out = {}
            for m, c in p.items():
                e = dict(m).get(atom, 0)
                rest = tuple((a, k) for a, k in m if a != atom)
                out = p_add(out, p_mul({rest: c}, p_mul(pw_p[e], pw_q[n - e])))
            return out
        return RF(conv(self.num), conv(self.den))


def fconst(bv):
    w = T.width(bv)
    v = T.const_val(bv)
    x = struct.unpack('<f', struct.pack('<I', v))[0] if w == 32 else struct.unpack('<d', struct.pack('<Q', v))[0]
    if x != x or x in (float('inf'), float('-inf')):
        raise NotReal('non-finite constant')
    return Fr(x)


class Extract(object):
    """lane term -> list of cases [(conditions, RF)]; atoms are numbered, self.atoms[i] is the lane term of atom i"""
    ARITH = ('fadd', 'fsub', 'fmul', 'fdiv', 'fma', 'fmuladd')

    def __init__(self, max_cases=64):
        self.atoms = []
        self.index = {}
        self.max_cases = max_cases
        self.memo = {}

    def atom(self, bv):
        k = T._key(bv)
        if k not in self.index:
            self.index[k] = len(self.atoms)
            self.atoms.append(bv)
        return self.index[k]

    def cases(self, bv, depth=0):
        """[(conds, RF)] with conds a tuple of (condition term key, taken?)"""
        if depth > 200:
            raise NotReal('too deep')
        bv = T.canon(bv)
        k = T._key(bv)
        if k in self.memo:
            return self.memo[k]
        r = self._cases(bv, depth)
        if len(r) > self.max_cases:
            raise NotReal('more than %d select cases' % self.max_cases)
        self.memo[k] = r
        return r

    def _cases(self, bv, depth):
        if T.is_const(bv):
            try:
                return [((), RF(p_const(fconst(bv))))]
            except NotReal:
                return [((), RF(p_atom(self.atom(bv))))]        # +-inf / NaN: an atom (special-value cases are C12's)
        t = T.single_term(bv)
        if t is None and len(bv) == 1 and bv[0][0] == 's' and bv[0][1].name.startswith('call:llvm.x86.avx512.mask.scalef') and bv[0][2] % bv[0][3] == 0:
            # VSCALEFPS/PD lane: a * 2^floor(b) (exact scaling): the value operand stays arithmetic, the scale becomes an atom
            (_, tc, lo, w) = bv[0]
            msk = tc.ops[3] if len(tc.ops) > 3 else None
            if msk is None or not T.is_const(msk) or T.const_val(msk) != (1 << T.width(msk)) - 1:
                raise NotReal('masked scalef')
            a_l, b_l = T.slice_(tc.ops[0], lo, w), T.slice_(tc.ops[1], lo, w)
            sc = RF(p_atom(self.atom(T.raw_op('pow2floor', w, b_l))))
            return [(c, f * sc) for (c, f) in self.cases(a_l, depth + 1)]
        if t is None:
            rs = self._refuse_select(bv)
            if rs is not None:
                (c_, A_, B_) = rs
                d = self.decide(c_, depth)
                if d is not None:
                    return self.cases(A_ if d else B_, depth + 1)
                ck = T._key(T.canon(c_))
                self.conds = getattr(self, 'conds', {})
                self.conds[ck] = c_
                out = []
                for (arm, taken) in ((A_, True), (B_, False)):
                    for (c, f) in self.cases(arm, depth + 1):
                        m = _merge_conds([c, ((ck, taken),)])
                        if m is not None:
                            out.append((m, f))
                return out
            sa = self._sign_assembly(bv, depth)
            if sa is not None:
                (full, signs) = sa
                out = []
                for (c, f) in self.cases(full, depth + 1):
                    for (c2, neg_) in signs:
                        m = _merge_conds([c, c2])
                        if m is not None:
                            out.append((m, -f if neg_ else f))
                return out
            if len(bv) >= 2 and bv[-1] == ('c', 1, 1):
                # [magnitude bits ++ 1]: the negative of [magnitude bits ++ 0]
                return [(c, -f) for (c, f) in self.cases(T.cat(T.slice_(bv, 0, T.width(bv) - 1), T.const(1, 0)), depth + 1)]
            cf = self._cofactor_cases(bv, depth)
            if cf is not None:
                return cf
            inner = T.canon(T.fneg(bv))
            ti = T.single_term(inner)
            if ti is not None and (ti.kind == 'arg' or ti.name in self.ARITH or ti.name == 'sel' or True):
                # a negation [x[0:W-1] ++ not x[W-1]]
                if ti is not None and self._negation_of(bv, inner):
                    return [(c, -f) for (c, f) in self.cases(inner, depth + 1)]
            return [((), RF(p_atom(self.atom(bv))))]
        if t.kind == 'arg':
            return [((), RF(p_atom(self.atom(bv))))]
        n = t.name
        if n.startswith(('sitofp', 'uitofp')) and len(t.ops) == 1 and T.is_const(T.canon(t.ops[0])):
            o = T.canon(t.ops[0])
            v = T.const_val(o)
            if n.startswith('sitofp') and v >> (T.width(o) - 1):
                v -= 1 << T.width(o)
            return [((), RF(p_const(v)))]
        if n.startswith(('fpext', 'fptrunc')) and len(t.ops) == 1:
            return self.cases(t.ops[0], depth + 1)     # a widening is exact, a narrowing is a rounding (erased)
        if n in self.ARITH:
            sub = [self.cases(o, depth + 1) for o in t.ops]
            out = []
            for combo in _product(sub):
                conds = _merge_conds([c for (c, f) in combo])
                if conds is None:
                    continue                       # contradictory choices of the same select condition
                fs = [f for (c, f) in combo]
                if n == 'fadd':
                    v = fs[0] + fs[1]
                elif n == 'fsub':
                    v = fs[0] - fs[1]
                elif n == 'fmul':
                    v = fs[0] * fs[1]
                elif n == 'fdiv':
                    v = fs[0] / fs[1]
                else:
                    v = fs[0] * fs[1] + fs[2]
                out.append((conds, v))
                if len(out) > self.max_cases:
                    raise NotReal('more than %d select cases' % self.max_cases)
            return out
        if n == 'sel':
            d = self.decide(t.ops[0], depth)
            if d is not None:
                return self.cases(t.ops[1] if d else t.ops[2], depth + 1)
            ck = T._key(t.ops[0])
            out = []
            for (c, f) in self.cases(t.ops[1], depth + 1):
                m = _merge_conds([c, ((ck, True),)])
                if m is not None:
                    out.append((m, f))
            for (c, f) in self.cases(t.ops[2], depth + 1):
                m = _merge_conds([c, ((ck, False),)])
                if m is not None:
                    out.append((m, f))
            self.conds = getattr(self, 'conds', {})
            self.conds[ck] = t.ops[0]
            return out
        return [((), RF(p_atom(self.atom(bv))))]

    def _own_sign(self, P, w):
        """P holds the low w-1 bits of a value: (the full value, its own sign bit), or None"""
        P = T.canon(P)
        if T.is_const(P):
            return T.cat(P, T.const(1, 0)), T.const(1, 0)
        if len(P) == 1 and P[0][0] == 's':
            (_, t, lo, ww) = P[0]
            if lo == 0 and ww == w - 1 and t.width == w:
                full = (('s', t, 0, w),)
                return full, T.slice_(full, w - 1, 1)
            if lo == 0 and ww == t.width == w - 1 and t.name == 'sel':
                a, b = self._own_sign(t.ops[1], w), self._own_sign(t.ops[2], w)
                if a is not None and b is not None:
                    return T.sel(t.ops[0], a[0], b[0]), T.sel(t.ops[0], a[1], b[1])
        return None

    CMPS = ('oeq', 'one', 'olt', 'ole', 'ogt', 'oge', 'ueq', 'une', 'ult', 'ule', 'ugt', 'uge')

    def _bit_real(self, bv, depth=0):
        """cases [(conds, 0/1)] of a one-bit term for the REAL reading of the result: the sign bit of a square root is 0
        (it is set only for sqrt(-0) = -0, the same real number, and for NaN, which is not a real result); a floating
        comparison is a case split; None if some part stays open"""
        bv = T.canon(bv)
        if T.is_const(bv):
            return [((), T.const_val(bv) & 1)]
        if len(bv) != 1 or bv[0][0] != 's' or depth > 12:
            return None
        (_, t, lo, ww) = bv[0]
        if ww != 1:
            return None
        if t.name.startswith(('sqrt', 'call:llvm.sqrt', 'x86.sqrt', 'llvm.sqrt', 'x86.sse.sqrt', 'x86.sse2.sqrt', 'x86.avx.sqrt')) and lo == t.width - 1:
            return [((), 0)]
        if t.width != 1:
            return None
        if t.name.startswith('f') and t.name[1:] in self.CMPS:
            d = self.decide(bv, depth)
            if d is not None:
                return [((), int(d))]
            ck = T._key(bv)
            self.conds = getattr(self, 'conds', {})
            self.conds[ck] = bv
            return [(((ck, True),), 1), (((ck, False),), 0)]
        if t.name in ('and', 'or', 'xor', 'sel') or t.name == 'not':
            subs = [self._bit_real(o, depth + 1) for o in t.ops]
            if any(x is None for x in subs):
                # and(0, ?) / or(1, ?) with an unconditional known operand
                known = [x for x in subs if x is not None and len(x) == 1 and x[0][0] == ()]
                if t.name == 'and' and any(x[0][1] == 0 for x in known):
                    return [((), 0)]
                if t.name == 'or' and any(x[0][1] == 1 for x in known):
                    return [((), 1)]
                return None
            out = {}
            for combo in _product(subs):
                cm = _merge_conds([c for (c, v) in combo])
                if cm is None:
                    continue
                vs = [v for (c, v) in combo]
                v = {'and': lambda: vs[0] & vs[1], 'or': lambda: vs[0] | vs[1], 'xor': lambda: vs[0] ^ vs[1], 'not': lambda: 1 - vs[0],
                     'sel': lambda: vs[1] if vs[0] else vs[2]}[t.name]()
                out[cm] = v
            if len(out) > 16:
                return None
            vals = set(out.values())
            if len(vals) == 1:
                return [((), vals.pop())]
            return sorted(out.items())
        return None

    @staticmethod
    def _xor_flat(bv):
        bv = T.canon(bv)
        t = T.single_term(bv)
        if t is not None and t.name == 'xor' and t.width == 1:
            return Extract._xor_flat(t.ops[0]) + Extract._xor_flat(t.ops[1])
        return [bv]

    def _sign_assembly(self, bv, depth=0):
        """[magnitude bits of V ++ (sign of V) xor s] with s decided by _bit_real: [(conds, V, negate?)]"""
        w = T.width(bv)
        if w < 2:
            return None
        own = self._own_sign(T.slice_(bv, 0, w - 1), w)
        if own is None:
            return None
        full, sg = own
        full = T.canon(full)
        if T.single_term(full) is None and not T.is_const(full) and self._refuse_select(full) is None:
            return None
        if T._key(full) == T._key(T.canon(bv)):
            return None
        ops = {}
        for x in self._xor_flat(T.slice_(bv, w - 1, 1)) + self._xor_flat(sg):
            k = T._key(x)
            if k in ops:
                del ops[k]
            else:
                ops[k] = x
        acc = [((), 0)]
        for x in ops.values():
            r = self._bit_real(x, depth)
            if r is None:
                return None
            nxt = {}
            for (c1, v1) in acc:
                for (c2, v2) in r:
                    cm = _merge_conds([c1, c2])
                    if cm is not None:
                        nxt[cm] = v1 ^ v2
            acc = sorted(nxt.items())
            if len(acc) > 16:
                return None
        return full, acc

    SQRT_NAMES = ('sqrt', 'call:llvm.sqrt', 'x86.sqrt', 'llvm.sqrt', 'x86.sse.sqrt', 'x86.sse2.sqrt', 'x86.avx.sqrt')

    def _first_condition(self, bv, depth=0):
        """a floating comparison that steers a select / sign logic among the pieces of bv (not inside arithmetic)"""
        for p in bv:
            if p[0] == 'r':
                c = self._first_condition((p[1],), depth + 1)
                if c is not None:
                    return c
            if p[0] != 's':
                continue
            t = p[1]
            if t.width == 1 and t.name.startswith('f') and t.name[1:] in self.CMPS:
                return t
            if t.name == 'sel' and depth < 8:
                for o in t.ops:
                    c = self._first_condition(T.canon(o), depth + 1)
                    if c is not None:
                        return c
            if t.width == 1 and t.name in ('and', 'or', 'xor', 'not') and depth < 8:
                for o in t.ops:
                    c = self._first_condition(T.canon(o), depth + 1)
                    if c is not None:
                        return c
        return None

    def _cofactor(self, bv, ct, nct, val, memo, depth=0):
        """bv with the comparison term ct := val (its negation nct := 1 - val) and the sign bit of a square root := 0
        (REAL reading, see _bit_real); only select / bit logic is descended into, arithmetic operands are left alone"""
        out = []
        for p in T.canon(bv):
            if p[0] in 'cu':
                out.append((p,))
            elif p[0] == 'r':
                out.append(T.rep(self._cofactor((p[1],), ct, nct, val, memo, depth + 1), p[2]))
            else:
                (_, t, lo, w) = p
                if t.name.startswith(self.SQRT_NAMES) and lo == t.width - 1 and w == 1:
                    out.append(T.const(1, 0))
                    continue
                if t.uid not in memo:
                    if t is ct:
                        nb = T.const(1, val)
                    elif nct is not None and t is nct:
                        nb = T.const(1, 1 - val)
                    elif (t.name == 'sel' or (t.width == 1 and t.name in ('and', 'or', 'xor', 'not'))) and depth < 24:
                        ops = [self._cofactor(o, ct, nct, val, memo, depth + 1) for o in t.ops]
                        nb = T.op(t.name, t.width, *ops)
                    else:
                        nb = (('s', t, 0, t.width),)
                    memo[t.uid] = T.canon(nb)
                out.append(T.slice_(memo[t.uid], lo, w))
        return T.canon(T.cat(*out))

    def _cofactor_cases(self, bv, depth):
        """Shannon expansion of a bit-level assembly over one of its steering comparisons"""
        ct = self._first_condition(bv)
        if ct is None or depth > 150:
            return None
        cbv = (('s', ct, 0, 1),)
        nb = T._neg_cmp(ct)
        nct = T.single_term(T.canon(nb)) if nb is not None else None
        arms = []
        for val in (1, 0):
            a = self._cofactor(bv, ct, nct, val, {})
            if T._key(a) == T._key(bv):
                return None
            arms.append(a)
        d = self.decide(cbv, depth)
        if d is not None:
            return self.cases(arms[0] if d else arms[1], depth + 1)
        ck = T._key(cbv)
        self.conds = getattr(self, 'conds', {})
        self.conds[ck] = cbv
        out = []
        for (arm, taken) in ((arms[0], True), (arms[1], False)):
            for (c, f) in self.cases(arm, depth + 1):
                m = _merge_conds([c, ((ck, taken),)])
                if m is not None:
                    out.append((m, f))
        return out

    @staticmethod
    def _refuse_select(bv):
        """a full-width select that the normaliser distributed over bit fields: [sel(c, A[0:k], B[0:k]) ++ ...] == sel(c, A, B)"""
        w = T.width(bv)
        p0 = bv[0]
        if p0[0] != 's' or p0[1].name != 'sel' or p0[2] != 0 or p0[3] != p0[1].width:
            return None
        c_, x_, y_ = p0[1].ops
        k = p0[1].width

        def widen(arm):
            arm = T.canon(arm)
            if len(arm) == 1 and arm[0][0] == 's' and arm[0][2] == 0 and arm[0][1].width == w:
                return (('s', arm[0][1], 0, w),)
            if len(arm) == 1 and arm[0][0] == 's' and arm[0][1].kind == 'arg' and arm[0][2] == 0 and arm[0][1].width == w:
                return (('s', arm[0][1], 0, w),)
            return None
        def cands(arm):
            full = widen(arm)
            out = [full, T.cat(arm, T.const(w - k, 0))]
            if w - k == 1:
                out.append(T.cat(arm, T.const(1, 1)))            # -|.|
                if full is not None:
                    out.append(T.fneg(full))                      # the negated term
            return out
        cands_a, cands_b = cands(x_), cands(y_)
        for A_ in cands_a:
            for B_ in cands_b:
                if A_ is None or B_ is None:
                    continue
                if T._key(T.canon(T.sel(c_, A_, B_))) == T._key(bv):
                    return (c_, T.canon(A_), T.canon(B_))
        return None

    def cases_abs(self, bv, depth=0):
        """cases of the value up to its sign: a result assembled as [magnitude bits ++ separately computed sign bit]
        (z ^ sign_bit, copysign) is read through its magnitude bits"""
        bv = T.canon(bv)
        w = T.width(bv)
        if T.single_term(bv) is not None or T.is_const(bv):
            return self.cases(bv, depth)
        lowbits = T.canon(T.slice_(bv, 0, w - 1))
        if len(lowbits) == 1 and lowbits[0][0] == 's':
            (_, t, lo, ww) = lowbits[0]
            if lo == 0 and ww == w - 1 and t.width == w:
                return self.cases((('s', t, 0, w),), depth + 1)          # the low bits of a full-width arithmetic term
            if lo == 0 and ww == t.width == w - 1 and t.name == 'sel':
                d = self.decide(t.ops[0], depth)
                arms = []
                for (arm, taken) in ((t.ops[1], True), (t.ops[2], False)):
                    if d is not None and d != taken:
                        continue
                    full = T.cat(arm, T.const(1, 0))
                    sub = self.cases_abs(self._widen_slice(arm, w), depth + 1)
                    ck = T._key(t.ops[0])
                    self.conds = getattr(self, 'conds', {})
                    self.conds[ck] = t.ops[0]
                    for (c, f) in sub:
                        m = _merge_conds([c, ((ck, taken),)]) if d is None else c
                        if m is not None:
                            arms.append((m, f))
                return arms
        return self.cases(bv, depth)

    @staticmethod
    def _widen_slice(arm, w):
        """arm is the low w-1 bits of some w-bit term: give that term back (or the arm with a zero sign bit)"""
        arm = T.canon(arm)
        if len(arm) == 1 and arm[0][0] == 's' and arm[0][2] == 0 and arm[0][1].width == w:
            return (('s', arm[0][1], 0, w),)
        return T.cat(arm, T.const(1, 0))

    def decide(self, cbv, depth):
        """truth value of a 1-bit condition when it compares two constant-valued arithmetic terms (exact rationals), else None"""
        cbv = T.canon(cbv)
        if T.is_const(cbv):
            return bool(T.const_val(cbv))
        t = T.single_term(cbv)
        if t is None or not t.name.startswith('f') or t.name[1:] not in ('oeq', 'one', 'olt', 'ole', 'ogt', 'oge', 'ueq', 'une', 'ult', 'ule', 'ugt', 'uge'):
            return None
        vals = []
        for o in t.ops:
            try:
                cs = self.cases(o, depth + 1)
            except NotReal:
                return None
            if len(cs) != 1 or cs[0][1].atoms():
                return None
            f = cs[0][1]
            num = f.num.get((), Fr(0))
            den = f.den.get((), Fr(0))
            if den == 0:
                return None
            vals.append(num / den)
        a, b = vals
        return {'eq': a == b, 'ne': a != b, 'lt': a < b, 'le': a <= b, 'gt': a > b, 'ge': a >= b}[t.name[2:]]

    @staticmethod
    def _negation_of(bv, inner):
        return T._key(T.canon(T.fneg(inner))) == T._key(bv)


def _product(lists):
    if not lists:
        yield ()
        return
    for x in lists[0]:
        for rest in _product(lists[1:]):
            yield (x,) + rest


def _merge_conds(cs):
    d = {}
    for c in cs:
        for (k, v) in c:
            if d.get(k, v) != v:
                return None
            d[k] = v
    return tuple(sorted(d.items(), key=lambda kv: repr(kv[0])))
