"""Octagon case analysis for two-operand integer lane terms written as a nest of selects over comparisons
(the branchy scalar sadd/ssub of xsimd_scalar.hpp after if-conversion).

Question decided: is the W-bit lane term `got`, as a function of the two W-bit signed operands x (atom a) and y
(atom b), equal to clamp(x (+|-) y) to [MIN, MAX] -- for every operand pair?

Method (abstract interpretation, no enumeration of values, no solver):
  * a region is an OCTAGON over the exact integers x, y: bounds on x, y, x+y, x-y (Mine's domain for two variables,
    closed by the usual tightening rules);
  * every select condition is read as a disjunction of conjunctions of octagonal constraints on the exact values
    (a comparison of two sub-terms that evaluate to exact linear forms c1*x + c2*y + k); a constraint that is not
    octagonal is dropped on both sides (the region only grows: sound for proving);
  * a sub-term (modular sum, zero/sign extension, top-bit replacement) is given an exact linear form only when the
    region proves that the modular operation does not wrap differently on different points of the region (a single
    multiple of 2^w brings the whole range of the form into the signed range);
  * at a leaf the region is split by x(+|-)y > MAX, < MIN, in range; on each non-empty part the leaf's linear form
    must be the constant MAX, the constant MIN, resp. the form x (+|-) y itself (or a constant the part pins the
    sum to).
Any sub-term outside this fragment gives "not established" (None), never "equal".
"""
from . import terms as T

FORMS = ((1, 0), (0, 1), (1, 1), (1, -1))
INF = float('inf')


class Region(object):
    def __init__(self, W):
        lo, hi = -(1 << (W - 1)), (1 << (W - 1)) - 1
        self.lo = {(1, 0): lo, (0, 1): lo, (1, 1): 2 * lo, (1, -1): lo - hi}
        self.hi = {(1, 0): hi, (0, 1): hi, (1, 1): 2 * hi, (1, -1): hi - lo}

    def copy(self):
        r = Region.__new__(Region)
        r.lo, r.hi = dict(self.lo), dict(self.hi)
        return r

    def close(self):
        """tightening to a fixpoint; returns False when the region is empty"""
        L, U = self.lo, self.hi
        X, Y, S, D = FORMS
        for _ in range(64):
            before = (tuple(sorted(L.items())), tuple(sorted(U.items())))
            U[S] = min(U[S], U[X] + U[Y]); L[S] = max(L[S], L[X] + L[Y])
            U[D] = min(U[D], U[X] - L[Y]); L[D] = max(L[D], L[X] - U[Y])
            U[X] = min(U[X], (U[S] + U[D]) // 2, U[S] - L[Y], U[D] + U[Y])
            L[X] = max(L[X], -((-(L[S] + L[D])) // 2), L[S] - U[Y], L[D] + L[Y])
            U[Y] = min(U[Y], (U[S] - L[D]) // 2, U[S] - L[X], U[X] - L[D])
            L[Y] = max(L[Y], -((-(L[S] - U[D])) // 2), L[S] - U[X], L[X] - U[D])
            if any(L[f] > U[f] for f in FORMS):
                return False
            if before == (tuple(sorted(L.items())), tuple(sorted(U.items()))):
                break
        return True

    def add_le(self, cx, cy, c):
        """conjoin cx*x + cy*y <= c; non-octagonal constraints are dropped (over-approximation). -> non-empty?"""
        if cx == 0 and cy == 0:
            return 0 <= c
        g = max(abs(cx), abs(cy))
        if abs(cx) in (0, g) and abs(cy) in (0, g):
            cx, cy, c = cx // g, cy // g, c // g if g > 0 else c    # integers: floor division tightens soundly
            for f in FORMS:
                if (cx, cy) == f:
                    self.hi[f] = min(self.hi[f], c)
                    return self.close()
                if (-cx, -cy) == f:
                    self.lo[f] = max(self.lo[f], -c)
                    return self.close()
        return self.close()

    def range_of(self, lf):
        cx, cy, k = lf
        for f in FORMS:
            if (cx, cy) == f:
                return self.lo[f] + k, self.hi[f] + k
            if (-cx, -cy) == f:
                return -self.hi[f] + k, -self.lo[f] + k
        X, Y = FORMS[0], FORMS[1]
        xs = (cx * self.lo[X], cx * self.hi[X])
        ys = (cy * self.lo[Y], cy * self.hi[Y])
        return min(xs) + min(ys) + k, max(xs) + max(ys) + k


class NotInFragment(Exception):
    pass


class NeedSplit(Exception):
    def __init__(self, lf, thr):
        Exception.__init__(self, 'split')
        self.lf, self.thr = lf, thr


class Analyser(object):
    def __init__(self, a, b, W, sign):
        self.ta = T.single_term(a)
        self.tb = T.single_term(b)
        if self.ta is None or self.tb is None:
            raise NotInFragment('operands are not whole atoms')
        self.W = W
        self.sign = sign            # +1: x + y, -1: x - y
        self.leaves = 0
        self.paths = 0

    # ---- exact values ---------------------------------------------------
    def _fit(self, lf, w, R):
        """the signed reading of the w-bit pattern congruent to lf: lf + m*2^w with one m for the whole region"""
        lo, hi = R.range_of(lf)
        half = 1 << (w - 1)
        m = -((lo + half) // (1 << w))
        if lo + m * (1 << w) >= -half and hi + m * (1 << w) < half:
            return (lf[0], lf[1], lf[2] + m * (1 << w))
        if (abs(lf[0]), abs(lf[1])) in ((1, 0), (0, 1), (1, 1)):
            # the wrap point cuts the region in two: analyse both parts (walk() catches this)
            raise NeedSplit(lf, half - 1 - m * (1 << w))
        raise NotInFragment('a modular sum may wrap inside the region')

    def _var(self, t):
        if t is self.ta:
            return (1, 0, 0)
        if t is self.tb:
            return (0, 1, 0)
        return None

    def value(self, bv, R):
        """signed reading of the pattern bv as an exact linear form over the region"""
        bv = T.canon(bv)
        w = T.width(bv)
        if T.is_const(bv):
            v = T.const_val(bv)
            return (0, 0, v - (1 << w) if v >> (w - 1) else v)
        if len(bv) == 1 and bv[0][0] == 's':
            p = bv[0]
            t = p[1]
            if p[2] == 0 and p[3] == t.width:
                v = self._var(t)
                if v is not None:
                    return v
                if t.kind == 'op' and t.name == 'sum':
                    k, coefs = t.attrs
                    acc = [0, 0, k]
                    for o, c in zip(t.ops, coefs):
                        if c >> (w - 1):
                            c -= 1 << w
                        lf = self.value(o, R)
                        acc[0] += c * lf[0]; acc[1] += c * lf[1]; acc[2] += c * lf[2]
                    return self._fit(tuple(acc), w, R)
                if t.kind == 'op' and t.name in ('smin', 'smax'):
                    raise NotInFragment('min/max leaf')
            raise NotInFragment('term %s' % T.fmt(bv, 2))
        # extensions / top-bit replacement of one variable:  [v[0+:n] ++ rest]
        p0 = bv[0]
        if p0[0] == 's' and p0[2] == 0 and self._var(p0[1]) is not None:
            t = p0[1]
            v = self._var(t)
            n = p0[3]
            W = t.width
            rest = bv[1:]
            lo, hi = R.range_of(v)
            if n == W:
                # zero extension / sign extension
                if all(q[0] == 'c' and q[2] == 0 for q in rest):
                    if lo >= 0:
                        return v
                    if hi < 0:
                        return (v[0], v[1], v[2] + (1 << W))
                    raise NotInFragment('zero extension of a value of unknown sign')
                if len(rest) == 1 and rest[0][0] == 'r' and rest[0][1] == ('s', t, W - 1, 1):
                    return v
                if len(rest) == 1 and rest[0] == ('s', t, W - 1, 1) and w == W + 1:
                    return v
            if n == W - 1 and w == W and len(rest) == 1 and rest[0][0] == 'c' and rest[0][1] == 1:
                bit = rest[0][2]
                half = 1 << (W - 1)
                if lo >= 0:          # low bits are the value itself
                    return (v[0], v[1], v[2] - half) if bit else v
                if hi < 0:           # low bits are value + 2^(W-1)
                    return v if bit else (v[0], v[1], v[2] + half)
                raise NotInFragment('top bit replaced on a value of unknown sign')
        # zero / sign extension of an arbitrary narrower sub-term (integer promotion of 8- and 16-bit operands)
        for n in (8, 16, 32):
            if n >= w:
                break
            low, high = T.canon(T.slice_(bv, 0, n)), T.canon(T.slice_(bv, n, w - n))
            if T.is_const(high) and T.const_val(high) == 0:
                v = self.value(low, R)
                lo, hi = R.range_of(v)
                if lo >= 0:
                    return v
                if hi < 0:
                    return (v[0], v[1], v[2] + (1 << n))
                if (abs(v[0]), abs(v[1])) in ((1, 0), (0, 1), (1, 1)):
                    raise NeedSplit(v, -1)
                raise NotInFragment('zero extension of a value of unknown sign')
            if high == T.canon(T.rep(T.topbit(low), w - n)):
                return self.value(low, R)
        raise NotInFragment('bit pattern %s' % T.fmt(bv, 2))

    # ---- conditions -> DNF of constraint lists ---------------------------
    def cond(self, c, R, want):
        """list of alternatives; an alternative is a list of (cx, cy, c) meaning cx*x + cy*y <= c"""
        c = T.canon(c)
        if T.width(c) != 1:
            raise NotInFragment('condition wider than one bit')
        if T.is_const(c):
            return [[]] if bool(T.const_val(c)) == want else []
        p = c[0]
        if p[0] != 's':
            raise NotInFragment('condition piece')
        t = p[1]
        v = self._var(t)
        if v is not None and p[2] == t.width - 1:
            # sign bit: value < 0
            return [[(v[0], v[1], -1)]] if want else [[(-v[0], -v[1], 0)]]
        if t.kind != 'op' or t.width != 1:
            raise NotInFragment('condition %s' % T.fmt(c, 2))
        if t.name == 'not':
            return self.cond(t.ops[0], R, not want)
        if t.name in ('and', 'or'):
            conj = (t.name == 'and') == want
            parts = [self.cond(o, R, want) for o in t.ops]
            if conj:
                out = [[]]
                for alts in parts:
                    out = [x + y for x in out for y in alts]
                return out
            return [a for alts in parts for a in alts]
        preds = {'slt': 'slt', 'sgt': 'sgt', 'sle': 'sle', 'sge': 'sge', 'eq': 'eq', 'ne': 'ne'}
        if t.name in preds:
            A = self.value(t.ops[0], R)
            B = self.value(t.ops[1], R)
            dx, dy, dk = A[0] - B[0], A[1] - B[1], A[2] - B[2]     # A - B
            lt = [(dx, dy, -dk - 1)]          # A - B <= -1
            le = [(dx, dy, -dk)]
            gt = [(-dx, -dy, dk - 1)]
            ge = [(-dx, -dy, dk)]
            table = {'slt': (lt, ge), 'sle': (le, gt), 'sgt': (gt, le), 'sge': (ge, lt)}
            if t.name in table:
                return [table[t.name][0 if want else 1]]
            if (t.name == 'eq') == want:
                return [le + ge]
            return [lt, gt]
        raise NotInFragment('predicate %s' % t.name)

    def refine(self, R, alt):
        r = R.copy()
        for (cx, cy, c) in alt:
            if not r.add_le(cx, cy, c):
                return None
        return r

    # ---- the nest ----------------------------------------------------------
    def walk(self, bv, R, depth=0):
        try:
            return self._walk(bv, R)
        except NeedSplit as sp:
            if depth > 12:
                raise NotInFragment('too many wrap points')
            cx, cy, k = sp.lf
            for alt in ([(cx, cy, sp.thr - k)], [(-cx, -cy, k - sp.thr - 1)]):
                r = self.refine(R, alt)
                if r is not None:
                    bad = self.walk(bv, r, depth + 1)
                    if bad:
                        return bad
            return None

    def _walk(self, bv, R):
        bv = T.canon(bv)
        t = T.single_term(bv)
        if t is not None and t.kind == 'op' and t.name == 'sel':
            c, x, y = t.ops
            for want, arm in ((True, x), (False, y)):
                for alt in self.cond(c, R, want):
                    r = self.refine(R, alt)
                    if r is not None:
                        bad = self.walk(arm, r)
                        if bad:
                            return bad
            return None
        return self.leaf(bv, R)

    def leaf(self, bv, R):
        self.leaves += 1
        W = self.W
        MAX, MIN = (1 << (W - 1)) - 1, -(1 << (W - 1))
        S = (1, self.sign, 0)
        parts = (('the exact result exceeds MAX', [(-1, -self.sign, -MAX - 1)], (0, 0, MAX)),
                 ('the exact result is below MIN', [(1, self.sign, MIN - 1)], (0, 0, MIN)),
                 ('the exact result is representable', [(1, self.sign, MAX), (-1, -self.sign, -MIN)], S))
        for what, alt, expect in parts:
            r = self.refine(R, alt)
            if r is None:
                continue
            self.paths += 1
            lf = self.value(bv, r)
            if lf == expect:
                continue
            if expect is S and lf[0] == 0 and lf[1] == 0:
                lo, hi = r.range_of(S)
                if lo == hi == lf[2]:
                    continue
            return 'where %s (region x in [%d, %d], y in [%d, %d]) the kernel yields %s, expected %s' % (
                what, r.lo[FORMS[0]], r.hi[FORMS[0]], r.lo[FORMS[1]], r.hi[FORMS[1]], _show(lf), _show(expect))
        return None


def _show(lf):
    s = []
    if lf[0]:
        s.append('%+d*x' % lf[0])
    if lf[1]:
        s.append('%+d*y' % lf[1])
    if lf[2] or not s:
        s.append('%+d' % lf[2])
    return ' '.join(s)


def saturating(got, a, b, W, sign):
    """-> (True, stats) | (False, reason) | (None, reason: outside the fragment)"""
    try:
        an = Analyser(a, b, W, sign)
        R = Region(W)
        R.close()
        bad = an.walk(got, R)
        if bad:
            return False, bad
        return True, '%d leaves, %d leaf regions' % (an.leaves, an.paths)
    except NotInFragment as e:
        return None, 'outside the octagon fragment: %s' % e
