"""Octagon case analysis for two-operand integer lane terms written as a nest of selects over comparisons
(the branchy scalar sadd/ssub of xsimd_scalar.hpp after if-conversion).

Question decided: is the W-bit lane term `got`, as a function of the two W-bit signed operands x (atom a) and y
(atom b), equal to clamp(x (+|-) y) to [MIN, MAX] -- for every operand pair?

Method (abstract interpretation, no enumeration of values, no solver):
  * a region is an OCTAGON over the exact integers x, y: bounds on x, y, x+y, x-y (Mine's domain for two variables,
    closed by the usual tightening rules);
  * every select condition is read as a disjunction of conjunctions of octagonal constraints on the exact values
    (a comparison of two sub-terms that evaluate to exact linear forms c1*x + c2*y + k); a constraint that is not
    octagonal is dropped on both sides (the region only grows: sound for proving);
  * a sub-term (modular sum, zero/sign extension, top-bit replacement) is given an exact linear form only when the
    region proves that the modular operation does not wrap differently on different points of the region (a single
    multiple of 2^w brings the whole range of the form into the signed range);
  * at a leaf the region is split by x(+|-)y > MAX, < MIN, in range; on each non-empty part the leaf's linear form
    must be the constant MAX, the constant MIN, resp. the form x (+|-) y itself (or a constant the part pins the
    sum to).
Any sub-term outside this fragment gives "not established" (None), never "equal".
"""
from . import terms as T

FORMS = ((1, 0), (0, 1), (1, 1), (1, -1))
INF = float('inf')


class Region(object):
    def __init__(self, W, unsigned=False):
        lo, hi = (0, (1 << W) - 1) if unsigned else (-(1 << (W - 1)), (1 << (W - 1)) - 1)
        self.lo = {(1, 0): lo, (0, 1): lo, (1, 1): 2 * lo, (1, -1): lo - hi}
        self.hi = {(1, 0): hi, (0, 1): hi, (1, 1): 2 * hi, (1, -1): hi - lo}

    def copy(self):
        r = Region.__new__(Region)
        r.lo, r.hi = dict(self.lo), dict(self.hi)
        return r

    def close(self):
        """tightening to a fixpoint; returns False when the region is empty"""
        L, U = self.lo, self.hi
        X, Y, S, D = FORMS
        for _ in range(64):
            before = (tuple(sorted(L.items())), tuple(sorted(U.items())))
            U[S] = min(U[S], U[X] + U[Y]); L[S] = max(L[S], L[X] + L[Y])
            U[D] = min(U[D], U[X] - L[Y]); L[D] = max(L[D], L[X] - U[Y])
            U[X] = min(U[X], (U[S] + U[D]) // 2, U[S] - L[Y], U[D] + U[Y])
            L[X] = max(L[X], -((-(L[S] + L[D])) // 2), L[S] - U[Y], L[D] + L[Y])
            U[Y] = min(U[Y], (U[S] - L[D]) // 2, U[S] - L[X], U[X] - L[D])
            L[Y] = max(L[Y], -((-(L[S] - U[D])) // 2), L[S] - U[X], L[X] - U[D])
            if any(L[f] > U[f] for f in FORMS):
                return False
            if before == (tuple(sorted(L.items())), tuple(sorted(U.items()))):
                break
        return True

    def add_le(self, cx, cy, c):
        """conjoin cx*x + cy*y <= c; non-octagonal constraints are dropped (over-approximation). -> non-empty?"""
        if cx == 0 and cy == 0:
            return 0 <= c
        g = max(abs(cx), abs(cy))
        if abs(cx) in (0, g) and abs(cy) in (0, g):
            cx, cy, c = cx // g, cy // g, c // g if g > 0 else c    # integers: floor division tightens soundly
            for f in FORMS:
                if (cx, cy) == f:
                    self.hi[f] = min(self.hi[f], c)
                    return self.close()
                if (-cx, -cy) == f:
                    self.lo[f] = max(self.lo[f], -c)
                    return self.close()
        return self.close()

    def range_of(self, lf):
        cx, cy, k = lf
        for f in FORMS:
            if (cx, cy) == f:
                return self.lo[f] + k, self.hi[f] + k
            if (-cx, -cy) == f:
                return -self.hi[f] + k, -self.lo[f] + k
        X, Y = FORMS[0], FORMS[1]
        xs = (cx * self.lo[X], cx * self.hi[X])
        ys = (cy * self.lo[Y], cy * self.hi[Y])
        return min(xs) + min(ys) + k, max(xs) + max(ys) + k


class NotInFragment(Exception):
    pass


class NeedSplit(Exception):
    def __init__(self, lf, thr):
        Exception.__init__(self, 'split')
        self.lf, self.thr = lf, thr


def _octagonal(lf):
    return (abs(lf[0]), abs(lf[1])) in ((1, 0), (0, 1), (1, 1))


class Analyser(object):
    """unsigned=False: operands and every pattern are read as two's-complement signed values;
    unsigned=True: as unsigned values (uadd.sat / usub.sat)."""

    def __init__(self, a, b, W, sign, unsigned=False):
        self.ta = T.single_term(a)
        self.tb = T.single_term(b)
        if self.ta is None or self.tb is None:
            raise NotInFragment('operands are not whole atoms')
        self.W = W
        self.sign = sign            # +1: x + y, -1: x - y
        self.unsigned = unsigned
        self.leaves = 0
        self.paths = 0

    def rng(self, w):
        return (0, (1 << w) - 1) if self.unsigned else (-(1 << (w - 1)), (1 << (w - 1)) - 1)

    # ---- exact values ---------------------------------------------------
    def _fit(self, lf, w, R):
        """the reading of the w-bit pattern congruent to lf: lf + m*2^w with one m for the whole region"""
        lo, hi = R.range_of(lf)
        rlo, rhi = self.rng(w)
        m = -((lo - rlo) // (1 << w))
        if lo + m * (1 << w) >= rlo and hi + m * (1 << w) <= rhi:
            return (lf[0], lf[1], lf[2] + m * (1 << w))
        if _octagonal(lf):
            # the wrap point cuts the region in two: analyse both parts (walk() catches this)
            raise NeedSplit(lf, rhi - m * (1 << w))
        raise NotInFragment('a modular sum may wrap inside the region')

    def _var(self, t):
        if t is self.ta:
            return (1, 0, 0)
        if t is self.tb:
            return (0, 1, 0)
        return None

    def _top_known(self, v, n, R):
        """is the top bit of the n-bit pattern with reading v set?  True / False, or a split request"""
        lo, hi = R.range_of(v)
        if self.unsigned:
            half = 1 << (n - 1)
            if lo >= half:
                return True
            if hi < half:
                return False
            thr = half - 1
        else:
            if hi < 0:
                return True
            if lo >= 0:
                return False
            thr = -1
        if _octagonal(v):
            raise NeedSplit(v, thr)
        raise NotInFragment('top bit of a value of unknown sign')

    def value(self, bv, R):
        """reading of the pattern bv as an exact linear form over the region"""
        bv = T.canon(bv)
        w = T.width(bv)
        if T.is_const(bv):
            v = T.const_val(bv)
            return (0, 0, v - (1 << w) if (v >> (w - 1)) and not self.unsigned else v)
        if len(bv) == 1 and bv[0][0] == 's':
            p = bv[0]
            t = p[1]
            if p[2] == 0 and p[3] == t.width:
                v = self._var(t)
                if v is not None:
                    return v
                if t.kind == 'op' and t.name == 'sum':
                    k, coefs = t.attrs
                    acc = [0, 0, k]
                    for o, c in zip(t.ops, coefs):
                        if c >> (w - 1):
                            c -= 1 << w
                        lf = self.value(o, R)
                        acc[0] += c * lf[0]; acc[1] += c * lf[1]; acc[2] += c * lf[2]
                    return self._fit(tuple(acc), w, R)
                if t.kind == 'op' and t.name == 'not':
                    lf = self.value(t.ops[0], R)
                    return self._fit((-lf[0], -lf[1], -lf[2] - 1), w, R)
            raise NotInFragment('term %s' % T.fmt(bv, 2))
        # top bit of a W-bit sub-term replaced by a constant or flipped:  [X[0+:W-1] ++ bit]
        if len(bv) == 2 and bv[0][0] == 's' and bv[0][2] == 0 and bv[0][3] == bv[0][1].width - 1 == w - 1 and T.pw(bv[1]) == 1:
            t = bv[0][1]
            top = bv[1]
            v = self.value((('s', t, 0, w),), R)
            half = 1 << (w - 1)
            mode = None
            if top[0] == 'c':
                mode = 'set' if top[2] else 'clear'
            elif top[0] == 's' and top[1].kind == 'op' and top[1].name == 'not' and T.canon(top[1].ops[0]) == (('s', t, w - 1, 1),):
                mode = 'flip'
            if mode:
                isset = self._top_known(v, w, R)
                if mode == 'flip':
                    mode = 'clear' if isset else 'set'
                if (mode == 'set') == isset:
                    return v
                # setting the top bit adds 2^(w-1) to the pattern: unsigned reading +half, signed reading -half (and conversely)
                d = half if (mode == 'set') == self.unsigned else -half
                return (v[0], v[1], v[2] + d)
        # zero / sign extension of a narrower sub-term (integer promotion of 8- and 16-bit operands)
        for n in (8, 16, 32, 64):
            if n >= w:
                break
            low, high = T.canon(T.slice_(bv, 0, n)), T.canon(T.slice_(bv, n, w - n))
            zx = T.is_const(high) and T.const_val(high) == 0
            sx = (high == T.canon(T.rep(T.topbit(low), w - n))) or (w - n == 1 and high == T.canon(T.topbit(low)))
            if not (zx or sx):
                continue
            v = self.value(low, R)
            if zx == self.unsigned:
                return v                 # the extension that matches the reading
            isset = self._top_known(v, n, R)
            if not isset:
                return v
            # zero extension of a negative signed value: + 2^n; sign extension of an unsigned value with the top bit: + 2^w - 2^n
            return (v[0], v[1], v[2] + ((1 << n) if zx else (1 << w) - (1 << n)))
        raise NotInFragment('bit pattern %s' % T.fmt(bv, 2))

    # ---- conditions -> DNF of constraint lists ---------------------------
    def cond(self, c, R, want):
        """list of alternatives; an alternative is a list of (cx, cy, c) meaning cx*x + cy*y <= c"""
        c = T.canon(c)
        if T.width(c) != 1:
            raise NotInFragment('condition wider than one bit')
        if T.is_const(c):
            return [[]] if bool(T.const_val(c)) == want else []
        p = c[0]
        if p[0] != 's':
            raise NotInFragment('condition piece')
        t = p[1]
        if p[2] == t.width - 1 and t.width > 1:
            # top bit of a variable or of any sub-term with an exact value on this region
            v = self.value((('s', t, 0, t.width),), R)
            if self.unsigned:
                half = 1 << (t.width - 1)
                return [[(-v[0], -v[1], v[2] - half)]] if want else [[(v[0], v[1], half - 1 - v[2])]]
            return [[(v[0], v[1], -1 - v[2])]] if want else [[(-v[0], -v[1], v[2])]]
        if t.kind != 'op' or t.width != 1:
            raise NotInFragment('condition %s' % T.fmt(c, 2))
        if t.name == 'xor' and len(t.ops) == 2:
            a1, a0 = self.cond(t.ops[0], R, True), self.cond(t.ops[0], R, False)
            b1, b0 = self.cond(t.ops[1], R, True), self.cond(t.ops[1], R, False)
            pairs = ((a1, b0), (a0, b1)) if want else ((a1, b1), (a0, b0))
            return [x + y for (A, B) in pairs for x in A for y in B]
        if t.name == 'not':
            return self.cond(t.ops[0], R, not want)
        if t.name in ('and', 'or'):
            conj = (t.name == 'and') == want
            parts = [self.cond(o, R, want) for o in t.ops]
            if conj:
                out = [[]]
                for alts in parts:
                    out = [x + y for x in out for y in alts]
                return out
            return [a for alts in parts for a in alts]
        pre = 'u' if self.unsigned else 's'
        if t.name in ('eq', 'ne', pre + 'lt', pre + 'gt', pre + 'le', pre + 'ge'):
            A = self.value(t.ops[0], R)
            B = self.value(t.ops[1], R)
            dx, dy, dk = A[0] - B[0], A[1] - B[1], A[2] - B[2]     # A - B
            lt = [(dx, dy, -dk - 1)]          # A - B <= -1
            le = [(dx, dy, -dk)]
            gt = [(-dx, -dy, dk - 1)]
            ge = [(-dx, -dy, dk)]
            table = {'lt': (lt, ge), 'le': (le, gt), 'gt': (gt, le), 'ge': (ge, lt)}
            if t.name[1:] in table and t.name not in ('eq', 'ne'):
                return [table[t.name[1:]][0 if want else 1]]
            if (t.name == 'eq') == want:
                return [le + ge]
            return [lt, gt]
        raise NotInFragment('predicate %s' % t.name)

    def refine(self, R, alt):
        r = R.copy()
        for (cx, cy, c) in alt:
            if not r.add_le(cx, cy, c):
                return None
        return r

    # ---- the nest ----------------------------------------------------------
    def walk(self, bv, R, depth=0):
        try:
            return self._walk(bv, R)
        except NeedSplit as sp:
            if depth > 16:
                raise NotInFragment('too many wrap points')
            cx, cy, k = sp.lf
            for alt in ([(cx, cy, sp.thr - k)], [(-cx, -cy, k - sp.thr - 1)]):
                r = self.refine(R, alt)
                if r is not None:
                    bad = self.walk(bv, r, depth + 1)
                    if bad:
                        return bad
            return None

    def _branch(self, c, arms, R):
        for want, arm in ((True, arms[0]), (False, arms[1])):
            for alt in self.cond(c, R, want):
                r = self.refine(R, alt)
                if r is not None:
                    bad = self.walk(arm, r)
                    if bad:
                        return bad
        return None

    def _as_sel(self, t):
        """(condition, value if true, value if false) of a select or of a min/max in the reading of this analysis"""
        if t is None or t.kind != 'op':
            return None
        if t.name == 'sel':
            return t.ops
        pre = 'u' if self.unsigned else 's'
        if t.name in (pre + 'min', pre + 'max') and len(t.ops) == 2:
            a, b = t.ops
            return (T.icmp(pre + ('lt' if t.name.endswith('min') else 'gt'), a, b), a, b)
        return None

    def _walk(self, bv, R):
        bv = T.canon(bv)
        t = T.single_term(bv)
        sv = self._as_sel(t)
        if sv is not None:
            c, x, y = sv
            return self._branch(c, (x, y), R)
        if t is not None and t.kind == 'op' and t.name == 'sum':
            # sum(..., sel(c, X, Y), ...) = sel(c, sum(..., X, ...), sum(..., Y, ...))
            k, coefs = t.attrs
            for j, o in enumerate(t.ops):
                to = T.single_term(T.canon(o))
                sv = self._as_sel(to)
                if sv is not None and to.width == t.width:
                    c, x, y = sv

                    def rebuild(repl):
                        acc = T.const(t.width, k)
                        for i, (oo, cf) in enumerate(zip(t.ops, coefs)):
                            acc = T.add(acc, T.mul(repl if i == j else oo, T.const(t.width, cf)))
                        return acc
                    return self._branch(c, (rebuild(x), rebuild(y)), R)
        return self.leaf(bv, R)

    def leaf(self, bv, R):
        self.leaves += 1
        W = self.W
        MIN, MAX = self.rng(W)
        S = (1, self.sign, 0)
        parts = (('the exact result exceeds MAX', [(-1, -self.sign, -MAX - 1)], (0, 0, MAX)),
                 ('the exact result is below MIN', [(1, self.sign, MIN - 1)], (0, 0, MIN)),
                 ('the exact result is representable', [(1, self.sign, MAX), (-1, -self.sign, -MIN)], S))
        for what, alt, expect in parts:
            r = self.refine(R, alt)
            if r is None:
                continue
            self.paths += 1
            lf = self.value(bv, r)
            if lf == expect:
                continue
            if expect is S and lf[0] == 0 and lf[1] == 0:
                lo, hi = r.range_of(S)
                if lo == hi == lf[2]:
                    continue
            return 'where %s (region x in [%d, %d], y in [%d, %d]) the kernel yields %s, expected %s' % (
                what, r.lo[FORMS[0]], r.hi[FORMS[0]], r.lo[FORMS[1]], r.hi[FORMS[1]], _show(lf), _show(expect))
        return None


def _show(lf):
    s = []
    if lf[0]:
        s.append('%+d*x' % lf[0])
    if lf[1]:
        s.append('%+d*y' % lf[1])
    if lf[2] or not s:
        s.append('%+d' % lf[2])
    return ' '.join(s)


def saturating(got, a, b, W, sign, unsigned=False):
    """-> (True, stats) | (False, reason) | (None, reason: outside the fragment)"""
    try:
        an = Analyser(a, b, W, sign, unsigned)
        R = Region(W, unsigned)
        R.close()
        bad = an.walk(got, R)
        if bad:
            return False, bad
        return True, '%d leaves, %d leaf regions' % (an.leaves, an.paths)
    except NotInFragment as e:
        return None, 'outside the octagon fragment: %s' % e
