"""Compile-time witnesses (DESIGN 2.6): the C++ type checker is the decision procedure.

A witness is a C++ constant boolean expression over /repo's headers.  All witnesses of one
configuration are written, one per line, as  static_assert((EXPR), "W<idx>");  into a single
translation unit that is type-checked with  clang++ -fsyntax-only -ferror-limit=0 .  Nothing is
executed or even code-generated.  Verdict per witness:
  holds     -- no diagnostic on its line
  fails     -- "static_assert failed" on its line  (the relation is false for the current headers)
  ill       -- another error attributed to its line (the construct no longer type-checks)
"""
import hashlib
import json
import os
import re
import subprocess
import tempfile

from . import build

ALLX86 = ['-msse2', '-msse3', '-mssse3', '-msse4.1', '-msse4.2', '-mavx', '-mavx2', '-mfma', '-mfma4',
          '-mavx512f', '-mavx512cd', '-mavx512dq', '-mavx512bw', '-mavx512ifma', '-mavx512vbmi',
          '-mavx512vbmi2', '-mavx512vnni', '-mavxvnni', '-mavx512er', '-mavx512pf', '-DXSIMD_WITH_EMULATED=1']


class W(object):
    __slots__ = ('key', 'expr', 'what', 'neg')

    def __init__(self, key, expr, what, neg=False):
        # neg: a NEGATIVE witness -- the expression must NOT type-check (compile-fail witness)
        self.key, self.expr, self.what, self.neg = key, expr, what, neg


def run(prelude, witnesses, flags, std='c++11', extra_lines=()):
    """returns {key: ('holds'|'fails'|'ill', message)} and the clang command line"""
    lines = [prelude]
    lines.extend(extra_lines)
    first = sum(l.count('\n') + 1 for l in lines)
    for i, w in enumerate(witnesses):
        assert '\n' not in w.expr
        lines.append('static_assert((%s), "W%d");' % (w.expr, i))
    text = '\n'.join(lines) + '\n'
    fl = ['-std=' + std, '-fsyntax-only', '-ferror-limit=0', '-ftemplate-backtrace-limit=0', '-fconstexpr-steps=100000000',
          '-fconstexpr-depth=4096', '-ftemplate-depth=4096', '-fbracket-depth=4096', '-UNDEBUG', '-w'] + list(flags)
    os.makedirs(build.CACHE, exist_ok=True)
    key = hashlib.sha256((build.headers_hash() + '\0wit\0' + text + '\0' + ' '.join(fl)).encode()).hexdigest()[:32]
    cp = os.path.join(build.CACHE, key + '.wit')
    cmd = 'clang++ %s -I %s/include <witness TU>' % (' '.join(fl), build.REPO)
    if os.path.exists(cp):
        d = json.load(open(cp))
    else:
        with tempfile.NamedTemporaryFile('w', suffix='.cc', delete=False, dir=build.CACHE) as f:
            f.write(text)
            src = f.name
        try:
            p = subprocess.run(['clang++'] + fl + ['-I', os.path.join(build.REPO, 'include'), src],
                               stdout=subprocess.PIPE, stderr=subprocess.PIPE, universal_newlines=True)
        finally:
            os.unlink(src)
        d = {'rc': p.returncode, 'diag': []}
        last = None
        for l in p.stderr.split('\n'):
            m = re.match(r'^(.*?):(\d+):(\d+): (fatal error|error|note): (.*)$', l)
            if not m:
                continue
            f_, ln, kind, msg = m.group(1), int(m.group(2)), m.group(4), m.group(5)
            if kind != 'note':
                last = msg
            if f_ == src:
                d['diag'].append([ln, kind, msg if kind != 'note' else (last or msg)])
            elif kind != 'note':
                d['diag'].append([0, kind, '%s:%d: %s' % (f_[f_.find('xsimd/'):] if 'xsimd/' in f_ else f_, ln, msg)])
        d['stderr_tail'] = p.stderr[-3000:]
        with open(cp, 'w') as f:
            json.dump(d, f)
    res = {}
    bad = {}
    unattributed = []
    pending = None
    for ln, kind, msg in d['diag']:
        if ln == 0:
            pending = msg
            continue
        idx = ln - 1 - first
        if idx < 0 or idx >= len(witnesses):
            if kind != 'note':
                unattributed.append('line %d: %s' % (ln, msg))
            continue
        if 'static_assert failed' in msg and ('"W%d"' % idx) in msg:
            bad.setdefault(idx, ('fails', msg[:600]))
        else:
            bad.setdefault(idx, ('ill', (pending or msg)[:600]))
        pending = None
    for i, w in enumerate(witnesses):
        st = bad.get(i, ('holds', ''))
        if w.neg:
            # compile-fail witness: it holds iff the expression is ill-formed (or the assertion is false)
            st = ('holds', st[1]) if st[0] in ('ill', 'fails') else ('fails', 'the construct type-checks although it must be rejected')
        res[w.key] = st
    if d['rc'] != 0 and not bad:
        unattributed.append(d.get('stderr_tail', '')[-800:])
    return res, cmd, unattributed
