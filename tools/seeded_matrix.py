#!/usr/bin/env python3
"""Runs every kept seeded change (/verif/seeded/<id>/patch.diff) against the checks: applies it to a scratch worktree of /repo (VERIF_REPO), runs the quick
check of the property it breaks (plus the related checks listed below), reverts, restores the evidence, and records the
outcome in seeded/<id>/meta.json (checks_run / detected_by) and in seeded/MATRIX.md.
Usage: python3 tools/seeded_matrix.py [id ...]      (development tool; never part of a registered check)"""
import json
import os
import shutil
import subprocess
import sys
import tempfile

ROOT = os.path.dirname(os.path.dirname(os.path.abspath(__file__)))
# other checks worth running on a change made for a given property (same anchors)
RELATED = {'C01': ['C13', 'C17'], 'C02': ['C13', 'C17'], 'C03': ['C19', 'C12'], 'C04': ['C16'], 'C05': ['C19'], 'C06': [], 'C07': ['C17'], 'C08': ['C17', 'C12', 'C06'],
           'C09': [], 'C10': ['C11', 'C12', 'C13', 'C14'], 'C11': ['C10', 'C12', 'C13', 'C14'], 'C12': ['C14', 'C03'], 'C13': ['C01', 'C06', 'C07', 'C14', 'C10', 'C11'], 'C14': ['C03', 'C12', 'C17'],
           'C15': ['C20'], 'C16': ['C05'], 'C17': ['C01', 'C02', 'C03', 'C08'], 'C18': [], 'C19': ['C05', 'C03'], 'C20': ['C15']}


def sh(cmd, **kw):
    return subprocess.run(cmd, shell=True, stdout=subprocess.PIPE, stderr=subprocess.STDOUT, universal_newlines=True, **kw)


def main():
    claimed = set(c['property_id'] for c in json.load(open(os.path.join(ROOT, 'MANIFEST.json')))['checks'])
    ids = sys.argv[1:] or sorted(d for d in os.listdir(os.path.join(ROOT, 'seeded')) if os.path.isdir(os.path.join(ROOT, 'seeded', d)))
    WT = os.environ.get('SEED_WT', '/tmp/wt_base')       # a scratch worktree of /repo at HEAD (never /repo itself)
    scratch = tempfile.mkdtemp(prefix='seedrun_')
    env = dict(os.environ, VERIF_REPO=WT, VERIF_SCRATCH=scratch)
    head = sh('git -C /repo rev-parse HEAD').stdout.strip()
    if sh('git -C %s rev-parse HEAD' % WT).stdout.strip() != head or sh('git -C %s diff --quiet' % WT).returncode:
        print('scratch worktree %s is not a clean checkout of /repo HEAD' % WT)
        return 2
    rows = []
    for mid in ids:
        d = os.path.join(ROOT, 'seeded', mid)
        meta = json.load(open(os.path.join(d, 'meta.json')))
        prop = meta.get('breaks_property') or mid.split('-')[0]
        checks = [p for p in [prop] + RELATED.get(prop, []) if p in claimed]
        if sh('git -C %s apply %s' % (WT, os.path.join(d, 'patch.diff'))).returncode:
            print('%s: PATCH DOES NOT APPLY' % mid)
            rows.append((mid, prop, 'patch does not apply to the current tree', []))
            continue
        ran, det = [], []
        try:
            for p in checks:
                r = sh('python3 %s/check.py %s --tier quick' % (ROOT, p), env=env)
                lines = [l for l in r.stdout.splitlines() if 'conda' not in l]
                vio = [l.strip() for l in lines if l.startswith('   ') and ':' in l][:2]
                broken = [l for l in lines if 'ANALYSIS-BROKEN' in l or 'BROKEN' in l][:1]
                ran.append('python3 /verif/check.py %s --tier quick -> exit %d' % (p, r.returncode))
                if r.returncode == 1:
                    det.append({'check': p, 'first_report': (vio[0] if vio else '')[:300]})
                elif r.returncode != 0:
                    det.append({'check': p, 'first_report': 'analysis broken (exit %d): %s' % (r.returncode, (broken[0] if broken else '')[:200])})
                print('%s %s exit=%d %s' % (mid, p, r.returncode, (vio[0] if vio else '')[:160]))
                sys.stdout.flush()
        finally:
            sh('git -C %s checkout -- .' % WT)
        meta['checks_run'] = ran
        meta['detected_by'] = det if det else 'none of the registered checks'
        json.dump(meta, open(os.path.join(d, 'meta.json'), 'w'), indent=1)
        rows.append((mid, prop, det, ran))
    shutil.rmtree(scratch, ignore_errors=True)
    return 0


if __name__ == '__main__':
    sys.exit(main())
