#!/bin/sh
# usage: try_patch.sh <patch.diff> <PROP> [PROP...]   -- applies a seeded change to /repo, runs the checks, reverts
p="$1"; shift
cd /repo || exit 2
if ! git diff --quiet; then echo "repo dirty"; exit 2; fi
if ! git apply "$p"; then echo "PATCH DOES NOT APPLY: $p"; exit 3; fi
for prop in "$@"; do
  echo "--- $prop on $p"
  python3 /verif/check.py "$prop" --tier quick 2>&1 | grep -v conda | grep -v "^KNOWN-FINDING" | cut -c1-400 | head -8
  echo "exit=$?"
done
git -C /repo checkout -- . 
