#!/bin/sh
# usage: try_patch.sh <patch.diff> <PROP> [PROP...]   -- applies a seeded change to /repo, runs the checks, reverts.
# The evidence files are saved before and restored afterwards (evidence must come from the unchanged tree).
p="$1"; shift
cd /repo || exit 2
if ! git diff --quiet; then echo "repo dirty"; exit 2; fi
if ! git apply "$p"; then echo "PATCH DOES NOT APPLY: $p"; exit 3; fi
sav=$(mktemp -d); cp -a /verif/evidence/. "$sav"/
for prop in "$@"; do
  echo "--- $prop on $p"
  python3 /verif/check.py "$prop" --tier quick > "$sav/.out" 2>&1; rc=$?
  grep -v conda "$sav/.out" | grep -v "^KNOWN-FINDING" | cut -c1-400 | head -8
  echo "exit=$rc"
done
git -C /repo checkout -- .
cp -a "$sav"/*.json /verif/evidence/; rm -rf "$sav"
