#!/bin/sh
# usage: try_patch.sh <patch.diff> <PROP> [PROP...]   -- applies a seeded change to a SCRATCH worktree of /repo (never to
# /repo itself), runs the quick checks against it (VERIF_REPO / VERIF_SCRATCH: evidence and replay files go to a temporary
# directory, so /verif/evidence always comes from /repo), reverts.
p="$1"; shift
WT=${TRY_WT:-/tmp/wt_try}
head=$(git -C /repo rev-parse HEAD)
if [ ! -d "$WT" ]; then git -C /repo worktree add --detach "$WT" "$head" >/dev/null 2>&1 || exit 2; fi
cd "$WT" || exit 2
git checkout -q --detach "$head" 2>/dev/null; git checkout -q -- . 2>/dev/null
if ! git apply "$p"; then echo "PATCH DOES NOT APPLY: $p"; exit 3; fi
sav=$(mktemp -d)
for prop in "$@"; do
  echo "--- $prop on $p"
  VERIF_REPO="$WT" VERIF_SCRATCH="$sav" python3 /verif/check.py "$prop" --tier quick > "$sav/.out" 2>&1; rc=$?
  grep -v conda "$sav/.out" | grep -v "^KNOWN-FINDING" | cut -c1-400 | head -8
  echo "exit=$rc"
done
git -C "$WT" checkout -q -- .
rm -rf "$sav"
