#!/bin/sh
# usage: confirm_pair.sh <agent-worktree> <PROP> <seed-id-1> <seed-id-2>
# Confirms a sub-agent's two seeded changes in the scratch worktree /tmp/wt_base (kept at /repo's HEAD): each patch applies alone to
# /repo's HEAD; each demo passes on the clean tree and fails with its own change applied alone; the whole test suite is
# rebuilt and run ONCE with both changes applied together (they touch different code; one full rebuild of 61 TUs instead of two).
# On success each change is stored as /verif/seeded/<seed-id>/ (patch.diff, demo.cpp, demo.cmd, meta.json skeleton).
src="$1"; prop="$2"; id1="$3"; id2="$4"
B=${BASE:-/tmp/wt_base}
log=/tmp/confirm_${id1}_${id2}.log
: > $log
cd $B || exit 2
git checkout -q --detach "$(git -C /repo rev-parse HEAD)" 2>>$log
git checkout -q -- . 2>>$log
for k in 1 2; do
  if ! git apply --check "$src/mutant$k.diff" 2>>$log; then echo "mutant$k: PATCH DOES NOT APPLY" | tee -a $log; exit 3; fi
  cp "$src/demo$k.cpp" $B/demo$k.cpp
  cmd=$(cat "$src/demo$k.cmd")
  (cd $B && sh -c "$cmd") >>$log 2>&1; eval rc0_$k=$?
  git apply "$src/mutant$k.diff"
  (cd $B && sh -c "$cmd") >>$log 2>&1; eval rc1_$k=$?
  git checkout -q -- .
done
git apply "$src/mutant1.diff" && git apply "$src/mutant2.diff" || { echo "patches do not combine" | tee -a $log; git checkout -q -- .; exit 3; }
(nice cmake --build _build -j${JOBS:-8} 2>&1 | tail -2; ctest --test-dir _build -j8 --timeout 900 2>&1 | grep -E "tests passed|tests failed") >>$log 2>&1
suite=$(grep -c "100% tests passed" $log)
git checkout -q -- .
rm -f $B/demo1 $B/demo2 $B/demo1.cpp $B/demo2.cpp
k=1
for id in $id1 $id2; do
  eval rc0=\$rc0_$k; eval rc1=\$rc1_$k
  if [ "$rc0" = 0 ] && [ "$rc1" != 0 ] && [ "$suite" -ge 1 ]; then
    d=/verif/seeded/$id; mkdir -p $d
    cp "$src/mutant$k.diff" $d/patch.diff; cp "$src/demo$k.cpp" $d/demo.cpp; cp "$src/demo$k.cmd" $d/demo.cmd
    printf '{\n "breaks_property": "%s",\n "confirmed": "patch applied alone to scratch worktree /tmp/wt_base at /repo HEAD %s; demo rc=%s without the change, rc=%s with it; full test suite rebuilt (cmake --build) and run (ctest) with this change and %s applied together: 100%% tests passed",\n "needs_to_manifest": "",\n "checks_run": "",\n "detected_by": ""\n}\n' "$prop" "$(git -C /repo rev-parse --short HEAD)" "$rc0" "$rc1" "$([ $k = 1 ] && echo $id2 || echo $id1)" > $d/meta.json
    echo "$id: CONFIRMED (clean rc=$rc0, mutant rc=$rc1, suite passes)" | tee -a $log
  else
    echo "$id: NOT CONFIRMED (clean rc=$rc0, mutant rc=$rc1, suite-pass-lines=$suite)" | tee -a $log
  fi
  k=2
done
