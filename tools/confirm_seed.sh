#!/bin/sh
# usage: confirm_seed.sh <agent-worktree> <k> <seed-id> <PROP>
# Confirms a sub-agent's seeded change independently, in the scratch worktree /tmp/wt_base (kept at /repo's HEAD):
#   1. the patch applies to /repo's HEAD, 2. the demo passes without it, 3. the whole test suite builds and passes with it,
#   4. the demo fails with it.  On success the change is stored as /verif/seeded/<seed-id>/ (patch.diff, demo.cpp, demo.cmd, meta.json skeleton).
src="$1"; k="$2"; id="$3"; prop="$4"
B=${BASE:-/tmp/wt_base}
log=/tmp/confirm_$id.log
: > $log
cd $B || exit 2
git checkout -q --detach "$(git -C /repo rev-parse HEAD)" 2>>$log
git checkout -q -- . 2>>$log
if ! git apply --check "$src/mutant$k.diff" 2>>$log; then echo "$id: PATCH DOES NOT APPLY" | tee -a $log; exit 3; fi
cp "$src/demo$k.cpp" $B/demo$k.cpp
cmd=$(cat "$src/demo$k.cmd")
(cd $B && sh -c "$cmd") >>$log 2>&1; rc0=$?
echo "demo on clean tree: rc=$rc0" >>$log
git apply "$src/mutant$k.diff"
(cmake --build _build -j12 2>&1 | tail -2; ctest --test-dir _build -j8 --timeout 900 2>&1 | grep -E "tests passed|tests failed") >>$log 2>&1
suite=$(grep -c "100% tests passed" $log)
(cd $B && sh -c "$cmd") >>$log 2>&1; rc1=$?
echo "demo with the change: rc=$rc1" >>$log
git checkout -q -- .
rm -f $B/demo$k $B/demo$k.cpp
if [ "$rc0" = 0 ] && [ "$rc1" != 0 ] && [ "$suite" -ge 1 ]; then
  d=/verif/seeded/$id; mkdir -p $d
  cp "$src/mutant$k.diff" $d/patch.diff; cp "$src/demo$k.cpp" $d/demo.cpp; cp "$src/demo$k.cmd" $d/demo.cmd
  printf '{\n "breaks_property": "%s",\n "confirmed": "patch applied to scratch worktree /tmp/wt_base at /repo HEAD %s; demo rc=%s without the change, rc=%s with it; full test suite rebuilt (cmake --build) and run (ctest) with the change: 100%% tests passed",\n "needs_to_manifest": "",\n "checks_run": "",\n "detected_by": ""\n}\n' "$prop" "$(git -C /repo rev-parse --short HEAD)" "$rc0" "$rc1" > $d/meta.json
  echo "$id: CONFIRMED (clean rc=$rc0, mutant rc=$rc1, suite passes)" | tee -a $log
else
  echo "$id: NOT CONFIRMED (clean rc=$rc0, mutant rc=$rc1, suite-pass-lines=$suite)" | tee -a $log
fi
