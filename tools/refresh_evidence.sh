#!/bin/sh
# re-runs every registered quick check on the (unchanged) tree so that the committed evidence comes from a clean run
cd /verif
if ! git -C /repo diff --quiet; then echo "repo dirty"; exit 2; fi
for p in $(python3 -c "import json;print(' '.join(c['property_id'] for c in json.load(open('/verif/MANIFEST.json'))['checks']))" 2>/dev/null); do
  python3 check.py $p --tier quick 2>&1 | grep -v conda | grep -v KNOWN-FINDING | tail -1 | cut -c1-200
done
python3-vt tools/validate.py 2>&1 | grep -v conda
