#!/usr/bin/env python3
"""development helper: validates MANIFEST.json and every evidence file against the schemas (run with python3-vt)"""
import json, jsonschema, glob, sys
jsonschema.validate(json.load(open('/verif/MANIFEST.json')), json.load(open('/root/.vp/MANIFEST.schema.json')))
es = json.load(open('/root/.vp/EVIDENCE.schema.json'))
m = json.load(open('/verif/MANIFEST.json'))
for c in m['checks']:
    try:
        jsonschema.validate(json.load(open(c['evidence_file'])), es)
    except Exception as e:
        print('INVALID', c['evidence_file'], str(e)[:300]); sys.exit(1)
print('manifest + %d evidence files valid' % len(m['checks']))
