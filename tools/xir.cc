// xir: dump an LLVM module (.ll / .bc) as JSON for the Python analyses in /verif/engine.
// It performs no analysis and no transformation: every instruction, operand,
// constant, flag, shuffle mask, callee and debug-location inlining chain is
// written out as the compiler produced it.
//
// build: see /verif/setup.sh
#include "llvm/IR/Constants.h"
#include "llvm/IR/DataLayout.h"
#include "llvm/IR/DebugInfoMetadata.h"
#include "llvm/IR/Function.h"
#include "llvm/IR/GlobalVariable.h"
#include "llvm/IR/InlineAsm.h"
#include "llvm/IR/Instructions.h"
#include "llvm/IR/IntrinsicInst.h"
#include "llvm/IR/LLVMContext.h"
#include "llvm/IR/Module.h"
#include "llvm/IR/Operator.h"
#include "llvm/IRReader/IRReader.h"
#include "llvm/Support/SourceMgr.h"
#include "llvm/Support/raw_ostream.h"
#include <map>
#include <string>

using namespace llvm;

static std::string esc(StringRef s)
{
    std::string o;
    for (unsigned char c : s)
    {
        if (c == '"' || c == '\\')
        {
            o += '\\';
            o += (char)c;
        }
        else if (c < 0x20 || c >= 0x7f)
        {
            char b[8];
            snprintf(b, sizeof b, "\\u%04x", c);
            o += b;
        }
        else
            o += (char)c;
    }
    return o;
}

static std::string tystr(Type* t)
{
    std::string s;
    raw_string_ostream os(s);
    t->print(os, false, true);
    return os.str();
}

struct Dumper
{
    raw_ostream& out;
    const DataLayout& DL;
    std::map<const Value*, unsigned> ids;
    Dumper(raw_ostream& o, const DataLayout& dl)
        : out(o)
        , DL(dl)
    {
    }

    void constant(const Constant* c)
    {
        Type* t = c->getType();
        out << "{\"k\":\"c\",\"ty\":\"" << esc(tystr(t)) << "\",";
        if (auto* ci = dyn_cast<ConstantInt>(c))
        {
            SmallString<40> s;
            ci->getValue().toStringUnsigned(s);
            out << "\"int\":\"" << s << "\"}";
        }
        else if (auto* cf = dyn_cast<ConstantFP>(c))
        {
            SmallString<40> s;
            cf->getValueAPF().bitcastToAPInt().toStringUnsigned(s);
            out << "\"fpbits\":\"" << s << "\"}";
        }
        else if (isa<ConstantAggregateZero>(c) || isa<ConstantPointerNull>(c))
        {
            out << "\"zero\":true}";
        }
        else if (isa<PoisonValue>(c))
        {
            out << "\"poison\":true}";
        }
        else if (isa<UndefValue>(c))
        {
            out << "\"undef\":true}";
        }
        else if (auto* cds = dyn_cast<ConstantDataSequential>(c))
        {
            out << "\"elems\":[";
            for (unsigned i = 0; i < cds->getNumElements(); ++i)
            {
                if (i)
                    out << ",";
                constant(cds->getElementAsConstant(i));
            }
            out << "]}";
        }
        else if (isa<ConstantVector>(c) || isa<ConstantArray>(c) || isa<ConstantStruct>(c))
        {
            out << "\"elems\":[";
            for (unsigned i = 0; i < c->getNumOperands(); ++i)
            {
                if (i)
                    out << ",";
                constant(cast<Constant>(c->getOperand(i)));
            }
            out << "]}";
        }
        else if (auto* gv = dyn_cast<GlobalVariable>(c))
        {
            out << "\"global\":\"" << esc(gv->getName()) << "\"}";
        }
        else if (auto* fn = dyn_cast<Function>(c))
        {
            out << "\"func\":\"" << esc(fn->getName()) << "\"}";
        }
        else if (auto* ce = dyn_cast<ConstantExpr>(c))
        {
            out << "\"cexpr\":\"" << ce->getOpcodeName() << "\",";
            if (auto* gep = dyn_cast<GEPOperator>(ce))
            {
                APInt off(DL.getIndexSizeInBits(gep->getPointerAddressSpace()), 0);
                if (gep->accumulateConstantOffset(DL, off))
                    out << "\"coff\":" << off.getSExtValue() << ",";
            }
            out << "\"ops\":[";
            for (unsigned i = 0; i < ce->getNumOperands(); ++i)
            {
                if (i)
                    out << ",";
                constant(ce->getOperand(i));
            }
            out << "]}";
        }
        else
        {
            std::string s;
            raw_string_ostream os(s);
            c->print(os);
            out << "\"other\":\"" << esc(os.str()) << "\"}";
        }
    }

    void operand(const Value* v)
    {
        if (auto* a = dyn_cast<Argument>(v))
            out << "{\"k\":\"a\",\"i\":" << a->getArgNo() << "}";
        else if (auto* bb = dyn_cast<BasicBlock>(v))
            out << "{\"k\":\"b\",\"id\":" << ids[bb] << "}";
        else if (isa<Instruction>(v))
            out << "{\"k\":\"v\",\"id\":" << ids[v] << "}";
        else if (auto* c = dyn_cast<Constant>(v))
            constant(c);
        else if (auto* ia = dyn_cast<InlineAsm>(v))
            out << "{\"k\":\"asm\",\"asm\":\"" << esc(ia->getAsmString()) << "\",\"cons\":\"" << esc(ia->getConstraintString()) << "\"}";
        else if (isa<MetadataAsValue>(v))
            out << "{\"k\":\"md\"}";
        else
            out << "{\"k\":\"?\"}";
    }

    void dbg(const Instruction& I)
    {
        const DebugLoc& dl = I.getDebugLoc();
        out << ",\"dbg\":[";
        bool first = true;
        for (const DILocation* loc = dl.get(); loc; loc = loc->getInlinedAt())
        {
            if (!first)
                out << ",";
            first = false;
            StringRef fn;
            if (auto* sp = loc->getScope()->getSubprogram())
                fn = sp->getLinkageName().empty() ? sp->getName() : sp->getLinkageName();
            out << "[\"" << esc(loc->getFilename()) << "\"," << loc->getLine() << ",\"" << esc(fn) << "\"]";
        }
        out << "]";
    }

    void function(const Function& F)
    {
        ids.clear();
        unsigned n = 0;
        for (auto& bb : F)
        {
            ids[&bb] = n++;
        }
        n = 0;
        for (auto& bb : F)
            for (auto& I : bb)
                ids[&I] = n++;
        out << "{\"name\":\"" << esc(F.getName()) << "\",\"ret\":\"" << esc(tystr(F.getReturnType())) << "\",\"args\":[";
        for (auto& a : F.args())
        {
            if (a.getArgNo())
                out << ",";
            out << "{\"name\":\"" << esc(a.getName()) << "\",\"ty\":\"" << esc(tystr(a.getType())) << "\"";
            if (a.hasByValAttr())
                out << ",\"byval\":\"" << esc(tystr(a.getParamByValType())) << "\"";
            if (a.hasStructRetAttr())
                out << ",\"sret\":\"" << esc(tystr(a.getParamStructRetType())) << "\"";
            if (a.getType()->isPointerTy())
                out << ",\"pointee\":\"" << esc(tystr(a.getType()->getPointerElementType())) << "\"";
            if (auto al = a.getParamAlign())
                out << ",\"align\":" << al->value();
            out << "}";
        }
        out << "],\"decl\":" << (F.isDeclaration() ? "true" : "false");
        out << ",\"blocks\":[";
        bool fb = true;
        for (auto& bb : F)
        {
            if (!fb)
                out << ",";
            fb = false;
            out << "{\"id\":" << ids[&bb] << ",\"name\":\"" << esc(bb.getName()) << "\",\"insts\":[";
            bool fi = true;
            for (auto& I : bb)
            {
                if (!fi)
                    out << ",";
                fi = false;
                out << "\n{\"id\":" << ids[&I] << ",\"op\":\"" << I.getOpcodeName() << "\",\"ty\":\"" << esc(tystr(I.getType())) << "\"";
                if (auto* cmp = dyn_cast<CmpInst>(&I))
                    out << ",\"pred\":\"" << CmpInst::getPredicateName(cmp->getPredicate()) << "\"";
                if (auto* sv = dyn_cast<ShuffleVectorInst>(&I))
                {
                    out << ",\"mask\":[";
                    bool f = true;
                    for (int m : sv->getShuffleMask())
                    {
                        if (!f)
                            out << ",";
                        f = false;
                        out << m;
                    }
                    out << "]";
                }
                if (auto* ev = dyn_cast<ExtractValueInst>(&I))
                {
                    out << ",\"idx\":[";
                    bool f = true;
                    for (unsigned m : ev->indices())
                    {
                        if (!f)
                            out << ",";
                        f = false;
                        out << m;
                    }
                    out << "]";
                }
                if (auto* iv = dyn_cast<InsertValueInst>(&I))
                {
                    out << ",\"idx\":[";
                    bool f = true;
                    for (unsigned m : iv->indices())
                    {
                        if (!f)
                            out << ",";
                        f = false;
                        out << m;
                    }
                    out << "]";
                }
                if (auto* al = dyn_cast<AllocaInst>(&I))
                {
                    out << ",\"align\":" << al->getAlign().value() << ",\"alloc_ty\":\"" << esc(tystr(al->getAllocatedType())) << "\"";
                    if (auto sz = al->getAllocationSizeInBits(DL))
                        out << ",\"alloc_bytes\":" << (*sz / 8);
                }
                if (auto* ld = dyn_cast<LoadInst>(&I))
                    out << ",\"align\":" << ld->getAlign().value() << ",\"volatile\":" << (ld->isVolatile() ? "true" : "false")
                        << ",\"bytes\":" << DL.getTypeStoreSize(ld->getType()).getFixedSize();
                if (auto* st = dyn_cast<StoreInst>(&I))
                    out << ",\"align\":" << st->getAlign().value() << ",\"volatile\":" << (st->isVolatile() ? "true" : "false")
                        << ",\"bytes\":" << DL.getTypeStoreSize(st->getValueOperand()->getType()).getFixedSize();
                if (auto* gep = dyn_cast<GetElementPtrInst>(&I))
                {
                    unsigned bw = DL.getIndexSizeInBits(gep->getPointerAddressSpace());
                    MapVector<Value*, APInt> var;
                    APInt coff(bw, 0);
                    if (cast<GEPOperator>(gep)->collectOffset(DL, bw, var, coff))
                    {
                        out << ",\"coff\":" << coff.getSExtValue() << ",\"voff\":[";
                        bool f = true;
                        for (auto& kv : var)
                        {
                            if (!f)
                                out << ",";
                            f = false;
                            out << "{\"v\":";
                            operand(kv.first);
                            out << ",\"scale\":" << kv.second.getSExtValue() << "}";
                        }
                        out << "]";
                    }
                    out << ",\"inbounds\":" << (gep->isInBounds() ? "true" : "false");
                }
                if (auto* ob = dyn_cast<OverflowingBinaryOperator>(&I))
                {
                    if (ob->hasNoSignedWrap())
                        out << ",\"nsw\":true";
                    if (ob->hasNoUnsignedWrap())
                        out << ",\"nuw\":true";
                }
                if (auto* pe = dyn_cast<PossiblyExactOperator>(&I))
                    if (pe->isExact())
                        out << ",\"exact\":true";
                if (auto* fp = dyn_cast<FPMathOperator>(&I))
                {
                    FastMathFlags f = fp->getFastMathFlags();
                    if (f.any())
                    {
                        std::string s;
                        raw_string_ostream os(s);
                        f.print(os);
                        out << ",\"fmf\":\"" << esc(os.str()) << "\"";
                    }
                }
                if (auto* cb = dyn_cast<CallBase>(&I))
                {
                    if (Function* cf = cb->getCalledFunction())
                    {
                        out << ",\"callee\":\"" << esc(cf->getName()) << "\"";
                        if (cf->isIntrinsic())
                            out << ",\"intrinsic\":true";
                    }
                    else if (auto* ia = dyn_cast<InlineAsm>(cb->getCalledOperand()))
                    {
                        out << ",\"asm\":\"" << esc(ia->getAsmString()) << "\",\"cons\":\"" << esc(ia->getConstraintString()) << "\"";
                    }
                    else
                        out << ",\"indirect\":true";
                    out << ",\"nargs\":" << cb->arg_size();
                    if (auto* mi = dyn_cast<MemIntrinsic>(cb))
                    {
                        if (auto a = mi->getDestAlign())
                            out << ",\"dalign\":" << a->value();
                        if (auto* mt = dyn_cast<MemTransferInst>(mi))
                            if (auto a = mt->getSourceAlign())
                                out << ",\"salign\":" << a->value();
                    }
                }
                if (auto* inv = dyn_cast<InvokeInst>(&I))
                    out << ",\"normal\":" << ids[inv->getNormalDest()] << ",\"unwind\":" << ids[inv->getUnwindDest()];
                if (auto* phi = dyn_cast<PHINode>(&I))
                {
                    out << ",\"incoming\":[";
                    for (unsigned i = 0; i < phi->getNumIncomingValues(); ++i)
                    {
                        if (i)
                            out << ",";
                        out << "{\"bb\":" << ids[phi->getIncomingBlock(i)] << ",\"v\":";
                        operand(phi->getIncomingValue(i));
                        out << "}";
                    }
                    out << "]";
                }
                else if (auto* sw = dyn_cast<SwitchInst>(&I))
                {
                    out << ",\"cond\":";
                    operand(sw->getCondition());
                    out << ",\"default\":" << ids[sw->getDefaultDest()] << ",\"cases\":[";
                    bool f = true;
                    for (auto& c : sw->cases())
                    {
                        if (!f)
                            out << ",";
                        f = false;
                        SmallString<40> s;
                        c.getCaseValue()->getValue().toStringSigned(s);
                        out << "{\"val\":\"" << s << "\",\"bb\":" << ids[c.getCaseSuccessor()] << "}";
                    }
                    out << "]";
                }
                else
                {
                    out << ",\"ops\":[";
                    unsigned nops = I.getNumOperands();
                    if (auto* cb = dyn_cast<CallBase>(&I))
                        nops = cb->arg_size();
                    for (unsigned i = 0; i < nops; ++i)
                    {
                        if (i)
                            out << ",";
                        operand(I.getOperand(i));
                    }
                    out << "]";
                }
                dbg(I);
                out << "}";
            }
            out << "]}";
        }
        out << "]}";
    }
};

int main(int argc, char** argv)
{
    if (argc < 2)
    {
        errs() << "usage: xir file.ll [function-name-prefix]\n";
        return 2;
    }
    LLVMContext ctx;
    SMDiagnostic err;
    std::unique_ptr<Module> M = parseIRFile(argv[1], err, ctx);
    if (!M)
    {
        err.print("xir", errs());
        return 2;
    }
    std::string prefix = argc > 2 ? argv[2] : "";
    raw_ostream& out = outs();
    Dumper d(out, M->getDataLayout());
    out << "{\"globals\":[";
    bool first = true;
    for (auto& g : M->globals())
    {
        if (!first)
            out << ",";
        first = false;
        out << "\n{\"name\":\"" << esc(g.getName()) << "\",\"ty\":\"" << esc(tystr(g.getValueType())) << "\",\"const\":" << (g.isConstant() ? "true" : "false")
            << ",\"bytes\":" << M->getDataLayout().getTypeAllocSize(g.getValueType()).getFixedSize();
        if (g.hasInitializer())
        {
            out << ",\"init\":";
            d.constant(g.getInitializer());
        }
        out << "}";
    }
    out << "],\"functions\":[";
    first = true;
    for (auto& F : *M)
    {
        if (!prefix.empty() && !F.isDeclaration() && !F.getName().startswith(prefix) && false)
            continue;
        if (!first)
            out << ",";
        first = false;
        out << "\n";
        d.function(F);
    }
    out << "]}\n";
    return 0;
}
