#!/usr/bin/env python3
"""Regenerates MANIFEST.json from the table below (development helper; not run by any check)."""
import json, os
ROOT = os.path.dirname(os.path.dirname(os.path.abspath(__file__)))
TB = ("Trusted base: clang 14's lowering of each x86 intrinsic = the Intel SDM operation; LLVM -O2 semantics-preserving; "
      "the rewrite rules of engine/terms.py; the spec forms/templates of catalogue/specs.py. The analysed program is clang's "
      "translation of the headers (the tests use g++). Signed-overflow UB of scalar fallback loops is not reported.")
CHECKS = {
 'C01': dict(level='proof', design='3.C01',
   technique='static dataflow normalisation of optimised LLVM IR: lane terms vs spec forms (no execution)',
   text="For every (integer op, element type, architecture configuration) accepted by the library the kernel the overload set selects is compiled to LLVM IR and its SSA dataflow graph is normalised to one term per output lane; the obligation is structural equality with the spec form of the operation on that lane's operands (class P: holds for all operand values) or with a reviewed algorithm template (class I). 21 x86 configurations incl. the SSE2..AVX2/AVX512F kernel files the test suite never instantiates. 64-bit saturating add/sub on SSE2..SSE4.1 are listed undecided (not claimed)."),
 'C02': dict(level='proof', design='3.C02',
   technique='static dataflow normalisation of optimised LLVM IR: IEEE operation terms and sign-bit slices',
   text="Per (op, float|double, configuration): add/sub/mul/div/sqrt are the IEEE operation nodes on the lane's operands with no fast-math flag; neg/abs/copysign/bitofsign/bitwise ops are pure re-slicings of the sign bit / bit pattern; fma family is the fused node or mul-then-add; min/max are the x86 min/max or select(fcmp); isnan/isinf/isfinite/sign/signnz are the exact predicate terms. frexp/ldexp/nextafter/is_flint/is_even/is_odd value exactness is NOT decided (only their lane-locality, in C13)."),
 'C08': dict(level='proof', design='3.C08',
   technique='static dataflow normalisation of optimised LLVM IR: rounding primitive + immediate, or reviewed emulation template',
   text="ceil/floor/trunc/nearbyint/rint per (float|double, configuration): hardware paths must be roundps/pd / vrndscale with exactly the right rounding immediate or the llvm rounding intrinsic (class P); the SSE2..SSSE3 emulations must be the reviewed algorithms (cvtt + magnitude guard 2^k with mant<=k<=intbits-1, +-1 correction; add-and-subtract exactly 2^23/2^52 with sign restore) (class I). Double-precision trunc/ceil/floor on SSE2..SSSE3 (they go through the int64<->double magic-number conversion) and round() are listed undecided."),
 'C03': dict(level='proof', design='3.C03',
   technique='static dataflow normalisation of optimised LLVM IR: comparison predicate + mask encoding terms',
   text="Per (comparison, element type, configuration): every output mask lane (vector mask: all-ones/zero lanes; AVX512: k-register bit i) is the exact icmp/fcmp predicate of lane i's operands (ordered predicates for floats, une for !=), including the SSE2 64-bit and AVX512F 8/16-bit emulations (decided through reviewed identities: Hacker's Delight 2-12, eq-merge, Morton-table projection analysis of the constant LUT)."),
 'C04': dict(level='proof', design='3.C04',
   technique='static footprint + provenance analysis of optimised LLVM IR (typed loads/stores with constant offsets through the pointer argument)',
   text="load_aligned/load_unaligned/tag forms/free functions, store_*, bool-array load/store, broadcast, element-list constructor, get(i), insert<i>, gather/scatter, per (element type, configuration): the union of byte ranges accessed through the pointer argument is exactly [0, size*sizeof(T)) -- nothing outside is read or written, nothing inside is skipped; output lane i has provenance memory element i (store: the inverse); the alignment the IR assumes on an 'unaligned' access is <= alignof(T), on an 'aligned' access <= A::alignment(); gather/scatter perform exactly n element accesses at base + sext(index lane i)*sizeof(T) paired with lane i (native AVX2/AVX512 gathers are modelled from the SDM). Converting load_as/store_as are decided under C06; complex (de)interleaving under C16."),
 'C05': dict(level='exploration', design='3.C05',
   technique='static byte-provenance analysis of optimised LLVM IR per instantiation (constant-mask specialisation); exploration over the instantiation space',
   text="swizzle/shuffle with compile-time masks, zip_lo/hi, slide_left/right (every byte count), rotate_left/right (every lane count), extract_pair (every index), insert (every position), compress/expand (every mask value up to 8 lanes, structured+random above), for every element type on 21 configurations: each instantiation is compiled and its result register is read as a concatenation of untouched input slices; the obligation is that every output lane is exactly the input lane (or zero fill) the definition names -- decided for ALL lane values. The space of index patterns is explored, not exhausted: all n^n masks for n<=4, structured families (identity/reverse/rotations/broadcasts/half swaps/in-lane vs cross-lane/one-lane-from-the-other-half/zip/extract windows) plus VERIF_SEED-driven random masks for wider batches (quick 24-48, thorough 600-1500 per type and configuration). Run-time-index swizzle and transpose are not claimed here."),
 'C07': dict(level='proof', design='3.C07',
   technique='static dataflow normalisation of optimised LLVM IR; shift/rotate counts specialised exhaustively (0..bits-1)',
   text="Bitwise ops are bitwise terms; every (type, count) pair of <<, >>, bitwise_lshift/rshift, rotl, rotr is its own wrapper with a literal count, so the synthesised 8-bit and 64-bit-arithmetic shifts are decided for EVERY count (shifts by a constant are pure re-slicing of the lane's bits in the normal form); per-lane counts are decided against shl/lshr/ashr terms."),
 'C09': dict(level='proof', design='3.C09',
   technique='static dataflow normalisation of optimised LLVM IR: AC-flattening of the reduction tree into a multiset of lane atoms',
   text="reduce_add / reduce_max / reduce_min / generic reduce(f,x) with an opaque lane-wise f / haddp, per (element type, configuration): the term of the scalar result (or of each haddp lane) is flattened over its associative-commutative operator; every lane must occur exactly once for add/reduce (integers: coefficient 1 in the linear normal form = the modular sum; floats: an fadd tree = 'summed in some association order'), at least once and nothing else for min/max; haddp lane i must be the fadd tree over exactly the lanes of row i. Decided for all lane counts 2..64 on 21 configurations."),
 'C20': dict(level='proof', design='3.C20', engine='witness',
   note="Trusted base: clang 14's front end (constant evaluation, template instantiation, sizeof/alignof of the x86 vector types); the register widths 128/256/512 of the SSE/AVX/AVX512 families. Decided for clang's view of the headers with every x86 ISA macro enabled, and once per single-ISA flag set for the relations that depend on supported().",
   technique='compile-time witnesses: generated static_assert obligations decided by the C++ type checker (clang -fsyntax-only), no execution',
   text="Every relation of the property is a C++ constant expression over the headers; ~67 000 static_assert witnesses are generated per (relation, architecture in all_x86_architectures + emulated<128/256>, 21 element types incl. char/long/long long aliases, lane count N = 1..128, 22 ISA flag sets): size*sizeof(T) = register width of the family; sizeof(register_type); batch_bool / complex lane counts and associated types; alignment() power of two and >= alignof(register_type) (the compiler's statement of what aligned loads need); for every pair (A,P) with P a base of A, A precedes P in all_x86_architectures, and wider families precede narrower ones; arch_list::alignment() = max over all pairs, both orders, and cross-family triples; supported_architectures is an order-preserving sub-list of all_architectures containing A iff A::supported(), best_arch/default_arch its head; make_sized_batch<T,N> for every N in 1..128 is void or a batch with exactly N lanes of T and equals the first supported architecture with such a register; is_batch/is_batch_bool/is_batch_complex/scalar_type/mask_type/as_logical/simd_return_type/as_integer/as_unsigned_integer/as_float name types of matching width, count and architecture. The property holds for the enumerated instantiations iff the witness TUs type-check; a failing witness names (relation, architecture, type, N, flag set)."),
 'C19': dict(level='exploration', design='3.C19', engine='lane-terms',
   technique='compile-time witnesses (static_assert / type identity decided by clang -fsyntax-only) + static byte-provenance analysis of optimised LLVM IR per instantiation',
   text="Exploration over instantiations, each decided exactly without execution. (1) Type-level witnesses, per architecture (21 x86 + emulated<128/256>) and element type: batch_constant/batch_bool_constant get(i) for every i and mask() (n<=32) on packs covering each lane independently (one-hot, all-but-one, alternating, halves, extremes, VERIF_SEED random); make_batch_constant/make_batch_bool_constant for 12 generator functors (type identity with the expected pack); every compile-time operator (+,-,*,/,%,&,|,^,~,unary -,+ and &&,||,!,&,|,^,~ on bool constants) by std::is_same against the pack whose elements are the SCALAR expression (T)((T)x op (T)y) evaluated by the compiler; compile-fail witnesses for wrong-arity packs. (2) IR provenance, per configuration and type: as_batch()/operator batch()/as_batch_bool() compile to the literal vector/mask with lane i = v_i/b_i; select(batch_bool_constant,x,y), swizzle/shuffle with batch_constant, swizzle with the constant converted to a run-time index batch, insert<I>, slide_left/right<N>, rotate_left/right<N> yield exactly the lanes the run-time definition names (the run-time forms themselves are decided in C03/C05). The instantiation space (packs, generators, operand pairs) is explored, not exhausted."),
}
NA = {}
def main():
    m = {"version": 1, "setup_cmd": "sh /verif/setup.sh",
         "hooks": {"guard": "XSIMD_VERIF", "enable": "none needed: no check executes xsimd code; checks compile /repo/include (current working tree) to LLVM IR with clang++ and analyse the IR / AST / type-checker verdicts", "baseline_off_cmd": "cmake --build /repo/_build -j16 && ctest --test-dir /repo/_build -j8 --timeout 900", "source_commits": [], "add_only": True},
         "engines": [
            {"name": "xir", "path": "/verif/tools/xir.cc", "serves_properties": sorted(p for p in CHECKS if CHECKS[p].get('engine', 'lane-terms') != 'witness'), "kind_free_text": "LLVM-14 API tool dumping optimised IR (instructions, constants, shuffle masks, debug inlining chains) as JSON"},
            {"name": "witness", "path": "/verif/engine/witness.py", "serves_properties": sorted(p for p in CHECKS if CHECKS[p].get('engine') == 'witness'), "kind_free_text": "generated static_assert / compile-fail witness translation units decided by clang -fsyntax-only"},
            {"name": "lane-terms", "path": "/verif/engine", "serves_properties": sorted(p for p in CHECKS if CHECKS[p].get('engine', 'lane-terms') == 'lane-terms'), "kind_free_text": "bit-slice/term normaliser over straight-line SSA (engine/terms.py, engine/lanes.py), obligation driver (engine/lanecheck.py)"}],
         "checks": [], "not_applicable": []}
    for pid in sorted(CHECKS):
        c = CHECKS[pid]
        m["checks"].append({
            "property_id": pid,
            "quick_cmd": "python3 /verif/check.py %s --tier quick" % pid,
            "thorough_cmd": "python3 /verif/check.py %s --tier thorough" % pid,
            "evidence_file": "/verif/evidence/%s.json" % pid,
            "replay_cmd_template": "python3 /verif/check.py %s --replay {path}" % pid,
            "engine": c.get('engine', 'lane-terms'),
            "level_claimed": {"category": c['level'], "text": c['text'], "design_ref": "DESIGN.md section " + c['design']},
            "level_note": c.get('note', TB),
            "technique": c['technique']})
    props = [json.loads(l)['id'] for l in open(os.path.join(ROOT, 'properties.jsonl'))]
    for p in props:
        if p not in CHECKS:
            m["not_applicable"].append({"property_id": p, "reason": NA.get(p, "check not built yet (work in progress; see DESIGN.md section 3 for the planned static analysis)")})
    json.dump(m, open(os.path.join(ROOT, 'MANIFEST.json'), 'w'), indent=1)
main()
