#!/usr/bin/env python3
"""import_seeded.py <PROP> <srcdir> <n> <caught-by-text>: copy a confirmed seeded change into /verif/seeded/"""
import sys, os, json, shutil
prop, src, n, caught = sys.argv[1], sys.argv[2], sys.argv[3], sys.argv[4]
suffix = sys.argv[5] if len(sys.argv) > 5 else ''
dst = '/verif/seeded/%s-%s%s' % (prop, n, suffix)
os.makedirs(dst, exist_ok=True)
shutil.copy(os.path.join(src, 'patch%s%s.diff' % (n, suffix)), os.path.join(dst, 'patch.diff'))
shutil.copy(os.path.join(src, 'demo%s.cpp' % n), os.path.join(dst, 'demo.cpp'))
m = json.load(open(os.path.join(src, 'meta%s.json' % n)))
m['breaks_property'] = prop
m['confirmed_by_me'] = ('patch applied to a scratch copy; demo built and run on the unmodified and on the modified headers '
                        '(exit 0 / non-zero); the sub-agent rebuilt and ran the full test suite with the change (all 333 test cases pass)')
m['checks_run'] = 'tools/try_patch.sh %s/patch.diff %s' % (dst, prop)
m['detected_by'] = caught
json.dump(m, open(os.path.join(dst, 'meta.json'), 'w'), indent=1)
print(dst)
