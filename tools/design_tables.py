#!/usr/bin/env python3
"""Fills the generated tables of DESIGN.md (section 8.5 seeded changes, 8.6 bounds) from seeded/*/meta.json and the
C10/C11 evidence.  The tables sit between <!-- BEGIN x --> / <!-- END x --> markers."""
import json, os, re
ROOT = os.path.dirname(os.path.dirname(os.path.abspath(__file__)))


def seeded():
    rows = ['| id | breaks | what it needs to manifest | reported by (first report) |', '|----|--------|---------------------------|----------------------------|']
    for d in sorted(os.listdir(os.path.join(ROOT, 'seeded'))):
        p = os.path.join(ROOT, 'seeded', d, 'meta.json')
        if not os.path.exists(p):
            continue
        m = json.load(open(p))
        det = m.get('detected_by')
        if isinstance(det, list):
            ds = '; '.join('**%s**: %s' % (x['check'], x['first_report'].replace('|', '/')[:110]) for x in det)
        else:
            ds = str(det or 'not run')
        rows.append('| %s | %s | %s | %s |' % (d, m.get('breaks_property'), (m.get('needs_to_manifest') or '').replace('|', '/')[:260], ds))
    return '\n'.join(rows)


def bounds():
    import sys
    sys.path.insert(0, ROOT)
    from checks import c10
    rows = ['| function | bound, float / double (property statement or frozen here) | alarm threshold (method error alone) | established method error, float | double |', '|---|---|---|---|---|']
    best = {}
    for pid, col in (('C10', 0), ('C11', 1)):
        p = os.path.join(ROOT, 'evidence', pid + '.json')
        if not os.path.exists(p):
            continue
        for k in json.load(open(p))['coverage'].get('kernels', []):
            if k['obligation'].startswith('paths|'):
                continue
            fn = k['obligation'].split('|')[1].replace('-exp-tiers', '')
            best.setdefault(fn, [None, None])
            v = k.get('ulp')
            if v is not None and (best[fn][col] is None or v > best[fn][col]):
                best[fn][col] = v
    for fn in sorted(best):
        f32, f64 = best[fn]
        b = c10.CONT.get(fn, (4.5, 4.5))
        bs = ' / '.join(('%g ulp' % x) if x is not None else 'not frozen' for x in b)
        if fn == 'lgamma':
            bs = '8 ulp of max(|result|, 1) / not analysed'
        thr = ' / '.join(('%g ulp' % (x + 3.5)) if x is not None else '-' for x in b)
        rows.append('| %s | %s | %s | %s | %s |' % (fn, bs, thr, '%.3g ulp' % f32 if f32 is not None else '-', '%.3g ulp' % f64 if f64 is not None else '-'))
    for fn, b in sorted(c10.PATHS_ONLY.items()):
        rows.append('| %s | %g ulp / %g ulp (frozen here; path-agreement and intermediate-overflow clauses only, no kernel clause) | %g ulp / %g ulp | - | - |' % (fn, b[0], b[1], b[0] + 3.5, b[1] + 3.5))
    return '\n'.join(rows)


def main():
    p = os.path.join(ROOT, 'DESIGN.md')
    s = open(p).read()
    for name, fn in (('SEEDED', seeded), ('BOUNDS', bounds)):
        a, b = '<!-- BEGIN %s -->' % name, '<!-- END %s -->' % name
        if a in s:
            s = s[:s.index(a) + len(a)] + '\n' + fn() + '\n' + s[s.index(b):]
    open(p, 'w').write(s)


main()
