import sys; sys.path.insert(0,'/verif')
from engine import terms as T, octa
def K(w,v): return T.const(w,v)
for W in (8,32):
    a=T.atom_bv('s',0,W); b=T.atom_bv('t',0,W)
    MAX=(1<<(W-1))-1; MIN=1<<(W-1)
    good=T.sel(T.icmp('sgt',a,K(W,0)), T.sel(T.icmp('sgt',b,T.sub(K(W,MAX),a)),K(W,MAX),T.add(a,b)),
               T.sel(T.and_(T.icmp('slt',a,K(W,0)),T.icmp('slt',b,T.sub(K(W,MIN),a))),K(W,MIN),T.add(a,b)))
    print(W,'good sadd',octa.saturating(good,a,b,W,+1))
    # sadd(a,-b) as ssub
    nb=T.neg(b)
    bad=T.sel(T.icmp('sgt',a,K(W,0)), T.sel(T.icmp('sgt',nb,T.sub(K(W,MAX),a)),K(W,MAX),T.add(a,nb)),
               T.sel(T.and_(T.icmp('slt',a,K(W,0)),T.icmp('slt',nb,T.sub(K(W,MIN),a))),K(W,MIN),T.add(a,nb)))
    print(W,'sadd(a,-b) as ssub',octa.saturating(bad,a,b,W,-1))
    # off by one: >= instead of >
    bad2=T.sel(T.icmp('sgt',a,K(W,0)), T.sel(T.icmp('sge',b,T.sub(K(W,MAX),a)),K(W,MAX),T.add(a,b)),
               T.sel(T.and_(T.icmp('slt',a,K(W,0)),T.icmp('slt',b,T.sub(K(W,MIN),a))),K(W,MIN),T.add(a,b)))
    print(W,'>= variant (still correct: equality gives MAX either way)',octa.saturating(bad2,a,b,W,+1))
    bad3=T.sel(T.icmp('sgt',a,K(W,0)), T.sel(T.icmp('sgt',b,T.sub(K(W,MAX-1),a)),K(W,MAX),T.add(a,b)),
               T.sel(T.and_(T.icmp('slt',a,K(W,0)),T.icmp('slt',b,T.sub(K(W,MIN),a))),K(W,MIN),T.add(a,b)))
    print(W,'MAX-1 variant',octa.saturating(bad3,a,b,W,+1))
    bad4=T.sel(T.icmp('sgt',a,K(W,0)), T.sel(T.icmp('sgt',b,T.sub(K(W,MAX),a)),K(W,MAX),T.add(a,b)),
               T.sel(T.and_(T.icmp('slt',a,K(W,0)),T.icmp('sle',b,T.sub(K(W,MIN),a))),K(W,MIN+1),T.add(a,b)))
    print(W,'MIN+1 leaf',octa.saturating(bad4,a,b,W,+1))
    bad5=T.sel(T.icmp('sgt',a,K(W,0)), T.sel(T.icmp('sgt',b,T.sub(K(W,MAX),a)),K(W,MAX),T.add(a,b)), T.add(a,b))
    print(W,'no lower clamp',octa.saturating(bad5,a,b,W,+1))
    print(W,'plain add',octa.saturating(T.add(a,b),a,b,W,+1))
print('--- unsigned')
for W in (8,64):
    a=T.atom_bv('s',0,W); b=T.atom_bv('t',0,W)
    U=(1<<W)-1
    g1=T.add(a, T.sel(T.icmp('ult', b, T.not_(a)), b, T.not_(a)))
    print(W,'x+min(y,~x)', octa.saturating(g1,a,b,W,+1,True))
    g2=T.sel(T.icmp('ugt', b, T.sub(K(W,U), a)), K(W,U), T.add(a,b))
    print(W,'y > UMAX-x ? UMAX : x+y', octa.saturating(g2,a,b,W,+1,True))
    b1=T.sel(T.icmp('ugt', b, T.sub(K(W,U-1), a)), K(W,U), T.add(a,b))
    print(W,'UMAX-1 threshold (x+y == UMAX gives UMAX either way: fine)', octa.saturating(b1,a,b,W,+1,True))
    b2=T.sel(T.icmp('ugt', b, T.sub(K(W,U-2), a)), K(W,U), T.add(a,b))
    print(W,'UMAX-2 threshold (wrong)', octa.saturating(b2,a,b,W,+1,True))
    b3=T.sel(T.icmp('sgt', b, T.sub(K(W,U), a)), K(W,U), T.add(a,b))
    print(W,'signed compare (outside fragment)', octa.saturating(b3,a,b,W,+1,True))
    s1=T.sel(T.icmp('ult', a, b), K(W,0), T.sub(a,b))
    print(W,'usub good', octa.saturating(s1,a,b,W,-1,True))
    s2=T.sel(T.icmp('ule', a, b), K(W,0), T.sub(a,b))
    print(W,'usub <= (fine)', octa.saturating(s2,a,b,W,-1,True))
    s3=T.sub(a, T.sel(T.icmp('ult', a, b), a, b))
    print(W,'x-min(x,y)', octa.saturating(s3,a,b,W,-1,True))
    s4=T.sub(a, T.sel(T.icmp('ult', b, a), a, b))
    print(W,'x-max(x,y) wrong', octa.saturating(s4,a,b,W,-1,True))
    print(W,'plain sub', octa.saturating(T.sub(a,b),a,b,W,-1,True))
