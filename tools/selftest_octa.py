#!/usr/bin/env python3
"""Self-test of engine/octa.py (development tool, not a registered check): correct and deliberately wrong variants of the
saturating add / subtract, with the verdict each must get (True = proved equal to clamp(x +|- y), False = refuted with a
region, None = outside the fragment).  Exit 0 iff every verdict is the expected one."""
import sys
sys.path.insert(0, '/verif')
from engine import terms as T, octa


def K(w, v):
    return T.const(w, v)


def cases(W):
    a = T.atom_bv('s', 0, W)
    b = T.atom_bv('t', 0, W)
    MAX, MIN, U = (1 << (W - 1)) - 1, 1 << (W - 1), (1 << W) - 1
    gt0, lt0 = T.icmp('sgt', a, K(W, 0)), T.icmp('slt', a, K(W, 0))

    def sadd(hi_pred, hi_c, lo_pred, lo_c, lo_leaf, x=a, y=b):
        return T.sel(gt0, T.sel(T.icmp(hi_pred, y, T.sub(K(W, hi_c), x)), K(W, MAX), T.add(x, y)),
                     T.sel(T.and_(lt0, T.icmp(lo_pred, y, T.sub(K(W, lo_c), x))), K(W, lo_leaf), T.add(x, y)))
    nb = T.neg(b)
    yield 'signed: overflow tests then add', sadd('sgt', MAX, 'slt', MIN, MIN), +1, False, True
    yield 'signed: sadd(x, -y) offered as ssub (wrong for y = MIN)', sadd('sgt', MAX, 'slt', MIN, MIN, a, nb), -1, False, False
    yield 'signed: >= in the upper test (equality gives MAX either way)', sadd('sge', MAX, 'slt', MIN, MIN), +1, False, True
    yield 'signed: upper threshold MAX-1 (still exact)', sadd('sgt', MAX - 1, 'slt', MIN, MIN), +1, False, True
    yield 'signed: lower leaf MIN+1', sadd('sgt', MAX, 'sle', MIN, MIN + 1), +1, False, False
    yield 'signed: no lower clamp', T.sel(gt0, T.sel(T.icmp('sgt', b, T.sub(K(W, MAX), a)), K(W, MAX), T.add(a, b)), T.add(a, b)), +1, False, False
    yield 'signed: plain wrapping add', T.add(a, b), +1, False, False
    yield 'unsigned: x + min(y, ~x)', T.add(a, T.minmax('umin', b, T.not_(a))), +1, True, True
    yield 'unsigned: y > UMAX - x ? UMAX : x + y', T.sel(T.icmp('ugt', b, T.sub(K(W, U), a)), K(W, U), T.add(a, b)), +1, True, True
    yield 'unsigned: threshold UMAX-1 (UMAX-1-x wraps for x = UMAX)', T.sel(T.icmp('ugt', b, T.sub(K(W, U - 1), a)), K(W, U), T.add(a, b)), +1, True, False
    yield 'unsigned: signed compare (outside the fragment)', T.sel(T.icmp('sgt', b, T.sub(K(W, U), a)), K(W, U), T.add(a, b)), +1, True, None
    yield 'unsigned: x < y ? 0 : x - y', T.sel(T.icmp('ult', a, b), K(W, 0), T.sub(a, b)), -1, True, True
    yield 'unsigned: x - min(x, y)', T.sub(a, T.minmax('umin', a, b)), -1, True, True
    yield 'unsigned: x - max(x, y) (wrong)', T.sub(a, T.minmax('umax', a, b)), -1, True, False
    yield 'unsigned: plain wrapping sub', T.sub(a, b), -1, True, False


def main():
    bad = 0
    for W in (8, 16, 32, 64):
        for name, term, sign, uns, want in cases(W):
            got, detail = octa.saturating(term, T.atom_bv('s', 0, W), T.atom_bv('t', 0, W), W, sign, uns)
            ok = got is want
            bad += not ok
            print('%s W=%-2d %-62s -> %s %s' % ('ok ' if ok else 'BAD', W, name, got, (detail or '')[:110]))
    print('selftest_octa: %s' % ('all verdicts as expected' if not bad else '%d unexpected verdicts' % bad))
    return 1 if bad else 0


sys.exit(main())
