import sys, json, time, collections
sys.path.insert(0,'/verif')
from engine import lanecheck as L
from catalogue import ops as O, configs as C
def main():
    props=sys.argv[1].split(',')
    cfgs=sys.argv[2].split(',') if len(sys.argv)>2 and sys.argv[2]!='all' else [c.name for c in C.CONFIGS]
    only=sys.argv[3].split(',') if len(sys.argv)>3 else None
    obls={}
    for c in cfgs:
        l=[]
        for o in O.OPS:
            if not set(props)&set(o.props): continue
            if only and o.name not in only: continue
            for t in o.types:
                for v in L.variants_of(o,t,C.BY_NAME[c],'quick'):
                    l.append((o.name,t.name,v))
        obls[c]=l
    t0=time.time()
    res=L.run_obligations(obls)
    print('time',time.time()-t0, 'results',len(res))
    cnt=collections.Counter((r.get('status')) for r in res)
    print(cnt)
    agg=collections.defaultdict(list)
    for r in res:
        if r['status'] in ('P','I'): continue
        key=(r['status'], r.get('op'), r.get('ty'), (r.get('why') or r.get('diff_path') or '')[:60])
        agg[key].append(r)
    for k,v in sorted(agg.items(), key=lambda kv: str(kv[0])):
        cf=sorted(set(x['cfg'] for x in v))
        print(k, len(v), cf[:30])
    json.dump(res, open('/tmp/w/res.json','w'), indent=1, default=str)
main()
