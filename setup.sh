#!/bin/sh
# Builds the only compiled component of the framework: bin/xir (LLVM-IR -> JSON dumper).
set -e
cd "$(dirname "$0")"
mkdir -p bin evidence out .cache
if [ ! -x bin/xir ] || [ tools/xir.cc -nt bin/xir ]; then
  clang++ $(llvm-config-14 --cxxflags) -O1 -fno-rtti tools/xir.cc -o bin/xir \
     /usr/lib/llvm-14/lib/libLLVM-14.so
fi
echo "setup ok"
