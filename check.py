#!/usr/bin/env python3
"""Entry point of every registered check:  python3 /verif/check.py <PROPERTY> --tier quick|thorough

Static analysis only: /repo/include is compiled to LLVM IR (never executed) and the IR / AST / type
checker verdicts are analysed.  See DESIGN.md."""
import argparse
import json
import os
import sys

ROOT = os.path.dirname(os.path.abspath(__file__))
sys.path.insert(0, ROOT)


def main():
    ap = argparse.ArgumentParser()
    ap.add_argument('prop')
    ap.add_argument('--tier', default=os.environ.get('VERIF_TIER', 'quick'))
    ap.add_argument('--replay')
    ap.add_argument('--freeze', action='store_true', help='development only: rewrite the decided-set floor')
    ap.add_argument('--only', help='development only: restrict to ops (comma separated)')
    ap.add_argument('--cfg', help='development only: restrict to configurations')
    a = ap.parse_args()
    if a.tier not in ('quick', 'thorough'):
        a.tier = 'quick'
    from checks import registry
    fn = registry.get(a.prop)
    if fn is None:
        print('unknown property %s' % a.prop)
        return 2
    if not os.path.exists(os.path.join(ROOT, 'bin', 'xir')):
        import subprocess
        subprocess.check_call(['sh', os.path.join(ROOT, 'setup.sh')], stdout=subprocess.DEVNULL)
    return fn(a)


if __name__ == '__main__':
    sys.exit(main())
