import json,sys
res=json.load(open('/tmp/w/res.json'))
want=[tuple(x.split(':')) for x in sys.argv[1:]]
for (op,ty,cfg) in want:
    for r in res:
        if r.get('op')==op and r.get('ty')==ty and r.get('cfg')==cfg and r['status'] not in('P','I'):
            print('==',op,ty,cfg,r.get('var'),r['status'],r.get('why',''),r.get('kernel',[])[:4])
            print('  got ',r.get('got','')[:1200]); print('  want',r.get('want','')[:500]); print('  chain',r.get('chain'))
            break
