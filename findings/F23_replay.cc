// F23 (C02, open): ldexp(batch<T>, k) with k outside the normal exponent range on architectures without a hardware scalef.
// build: g++ -std=c++17 -O2 -march=native -I/repo/include F23_replay.cc -o F23 && ./F23   (exit 1 = defect present)
#include <xsimd/xsimd.hpp>
#include <cstdio>
#include <cmath>
template <class A>
int run(const char* n)
{
    int bad = 0;
    for (int k : { -160, -150, -130, -127, -126, 0, 127, 128, 129, 130, 200 })
    {
        float r = xsimd::ldexp(xsimd::batch<float, A>(1.0f), xsimd::batch<int32_t, A>(k)).get(0);
        float e = std::ldexp(1.0f, k);
        if (!(r == e))
        {
            std::printf("%s: ldexp(1.0f, %d) = %g, std::ldexp gives %g\n", n, k, r, e);
            ++bad;
        }
    }
    for (long k : { -1100L, -1023L, 1024L, 1025L, 1026L })
    {
        double r = xsimd::ldexp(xsimd::batch<double, A>(1.0), xsimd::batch<int64_t, A>(k)).get(0);
        double e = std::ldexp(1.0, (int)k);
        if (!(r == e))
        {
            std::printf("%s: ldexp(1.0, %ld) = %g, std::ldexp gives %g\n", n, k, r, e);
            ++bad;
        }
    }
    return bad;
}
int main()
{
    int bad = run<xsimd::sse2>("sse2") + run<xsimd::avx2>("avx2");
    int ok512 = run<xsimd::default_arch>("default_arch");
    std::printf("%d mismatches on sse2/avx2, %d on the default architecture\n", bad, ok512);
    return bad != 0;
}
