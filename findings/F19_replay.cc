// F19 (C11): sin/cos/tan(batch<double>) next to a multiple of pi/2 in the Cody-Waite tiers (pi/4 < |x| <= 20 pi):
// trigo_reducer::reduce subtracted n*(pio2_1 + pio2_2 + pio2_3) -- 99 bits of pi/2 -- and dropped the tail pio2_3t, so the
// reduced argument carries an absolute error of n * 8.5e-32.  For the double nearest to 29*pi/2 the reduced argument is
// 6.19e-19 and cos() is wrong by 25533 ulp (reference computed with 40 digits: -6.189806365883577e-19).
// build: g++ -std=c++17 -O2 -ffp-contract=off -I /repo/include F19_replay.cc -o F19 && ./F19
#include <xsimd/xsimd.hpp>
#include <cmath>
#include <cstdio>
int main()
{
    using B = xsimd::batch<double, xsimd::sse2>;
    struct { double x; double ref; const char* f; } t[] = {
        { 0x1.6c6cbc45dc8dep+5, -6.189806365883577e-19, "cos" },   // 29 pi/2
        { 0x1.dd85a7410f58dp+5, -1.22588476042053e-15, "sin" },    // 38 pi/2 (sign irrelevant for the ulp count)
    };
    int bad = 0;
    for (auto& c : t)
    {
        double in[2] = { c.x, c.x }, out[2];
        (c.f[0] == 'c' ? xsimd::cos(B::load_unaligned(in)) : xsimd::sin(B::load_unaligned(in))).store_unaligned(out);
        double ulp = std::ldexp(1.0, std::ilogb(c.ref) - 52);
        double err = std::fabs(std::fabs(out[0]) - std::fabs(c.ref)) / ulp;
        std::printf("%s(%a) = %.17g   reference %.17g   error %.1f ulp\n", c.f, c.x, out[0], c.ref, err);
        if (err > 4.5) ++bad;
    }
    std::printf(bad ? "DEFECT REPRODUCED\n" : "ok\n");
    return bad != 0;
}
