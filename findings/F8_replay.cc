#include <xsimd/xsimd.hpp>
#include <cstdio>
#include <cmath>
int main(){
  using B = xsimd::batch<float, xsimd::avx512f>; using D = xsimd::batch<double, xsimd::avx512f>;
  auto r = xsimd::neg(B(0.0f)); auto d = -D(0.0);
  printf("neg(+0.0f) signbit=%d  neg(+0.0) signbit=%d (want 1 1)\n", (int)std::signbit(r.get(0)), (int)std::signbit(d.get(0)));
  return std::signbit(r.get(0)) && std::signbit(d.get(0)) ? 0 : 1;
}
