#include <xsimd/xsimd.hpp>
#include <cstdio>
#include <cstdint>
int main(){
  using B = xsimd::batch<int8_t, xsimd::sse2>;
  alignas(16) int8_t x[16], y[16], out[16];
  for (int i=0;i<16;++i){ x[i]=10+i; y[i]=50+i; }
  int bad=0;
  for (int i=0;i<16;++i){
    // poison the stack a bit differently each time
    volatile char junk[64]; for (int k=0;k<64;++k) junk[k]=(char)(0xA5+i);
    B r = xsimd::extract_pair(B::load_aligned(x), B::load_aligned(y), i);
    r.store_aligned(out);
    for (int j=0;j<16;++j){ int want = (j < 16-i) ? y[i+j] : x[j-(16-i)]; if (out[j]!=want){ printf("extract_pair i=%d lane %d = %d want %d\n", i, j, out[j], want); bad=1; } }
  }
  return bad;
}
