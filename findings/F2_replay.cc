#include <xsimd/xsimd.hpp>
#include <cstdio>
#include <cstdint>
int main(){
  using B = xsimd::batch<int32_t>;
  B x(0x40000001);
  auto r = xsimd::rotl(x, 1); auto r2 = xsimd::rotr(B((int32_t)0x80000000), 4);
  auto r3 = xsimd::rotl(x, B(1));
  printf("rotl batch %08x  rotr batch %08x  rotl per-lane %08x scalar rotl %08x rotr %08x\n", (unsigned)r.get(0), (unsigned)r2.get(0), (unsigned)r3.get(0), (unsigned)xsimd::rotl((int32_t)0x40000001, 1), (unsigned)xsimd::rotr((int32_t)0x80000000, 4));
  xsimd::batch<int8_t> y((int8_t)0x81); printf("i8 rotl 1: %02x rotr 1 %02x\n", (unsigned char)xsimd::rotl(y,1).get(0), (unsigned char)xsimd::rotr(y,1).get(0));
  xsimd::batch<uint16_t> z((uint16_t)0x8001); printf("u16 rotl 0: %04x rotl 4 %04x\n", xsimd::rotl(z,0).get(0), xsimd::rotl(z,4).get(0));
  return ((unsigned)r.get(0)==0x80000002u && (unsigned)r2.get(0)==0x08000000u)?0:1;
}
