// F6 (C15): replay of the CPUID/XGETBV decoder against an injected hardware description.
// The real detector (xsimd::detail::supported_arch's constructor) runs in a ptrace()d, single-stepped child;
// the parent answers every CPUID (0F A2) and XGETBV (0F 01 D0) instruction from a table.
// g++ -std=c++17 -O2 -I/repo/include F6_replay.cc && ./a.out      (triage replay only; not part of any check)
#include <xsimd/xsimd.hpp>
#include <cstdint>
#include <cstdio>
#include <cstring>
#include <signal.h>
#include <sys/ptrace.h>
#include <sys/user.h>
#include <sys/wait.h>
#include <unistd.h>

struct machine { const char* what; uint32_t l1_ecx, l1_edx, l7_ebx, l7_ecx, l71_eax, l8_ecx, xcr0; };

static bool run_on(const machine& m, xsimd::detail::supported_arch& out, bool& faulted)
{
    int p[2];
    if (pipe(p) != 0) return false;
    pid_t pid = fork();
    if (pid == 0)
    {
        close(p[0]);
        ptrace(PTRACE_TRACEME, 0, 0, 0);
        raise(SIGSTOP);
        xsimd::detail::supported_arch s;
        (void)!write(p[1], &s, sizeof(s));
        _exit(0);
    }
    close(p[1]);
    int st = 0;
    waitpid(pid, &st, 0);
    faulted = false;
    while (WIFSTOPPED(st))
    {
        int sig = WSTOPSIG(st);
        if (sig == SIGTRAP || sig == SIGSTOP) sig = 0;
        user_regs_struct r;
        ptrace(PTRACE_GETREGS, pid, 0, &r);
        unsigned long w = (unsigned long)ptrace(PTRACE_PEEKTEXT, pid, (void*)r.rip, 0);
        if ((w & 0xffff) == 0xa20f)
        {
            uint32_t leaf = (uint32_t)r.rax, sub = (uint32_t)r.rcx, a = 0, b = 0, c = 0, d = 0;
            if (leaf == 0) a = 7;
            else if (leaf == 1) { c = m.l1_ecx; d = m.l1_edx; }
            else if (leaf == 7 && sub == 0) { a = 1; b = m.l7_ebx; c = m.l7_ecx; }
            else if (leaf == 7 && sub == 1) a = m.l71_eax;
            else if (leaf == 0x80000000u) a = 0x80000001u;
            else if (leaf == 0x80000001u) c = m.l8_ecx;
            r.rax = a; r.rbx = b; r.rcx = c; r.rdx = d; r.rip += 2;
            ptrace(PTRACE_SETREGS, pid, 0, &r);
        }
        else if ((w & 0xffffff) == 0xd0010f)
        {
            if (!(m.l1_ecx >> 27 & 1) || (uint32_t)r.rcx != 0) faulted = true; // #UD / #GP on the real machine
            r.rax = m.xcr0; r.rdx = 0; r.rip += 3;
            ptrace(PTRACE_SETREGS, pid, 0, &r);
        }
        ptrace(PTRACE_SINGLESTEP, pid, 0, sig);
        waitpid(pid, &st, 0);
    }
    bool ok = WIFEXITED(st) && read(p[0], &out, sizeof(out)) == (ssize_t)sizeof(out);
    close(p[0]);
    return ok;
}

int main()
{
    const uint32_t SSE3 = 1u << 0, SSSE3 = 1u << 9, FMA = 1u << 12, SSE41 = 1u << 19, SSE42 = 1u << 20, XSAVE = 1u << 26, OSXSAVE = 1u << 27, AVX = 1u << 28;
    const uint32_t EDX = 1u << 26 | 1u << 25;
    const uint32_t AVX2 = 1u << 5, AVX512F = 1u << 16;
    const uint32_t all1 = SSE3 | SSSE3 | FMA | SSE41 | SSE42 | XSAVE | AVX;
    const machine ms[] = {
        { "(a) AVX/AVX2/AVX512F/FMA CPU, OS without XSAVE support (OSXSAVE=0)", all1, EDX, AVX2 | AVX512F, 0, 0, 1u << 16, 0 },
        { "(b) FMA CPU, OSXSAVE=1, XCR0 = x87|SSE only (YMM state not enabled)", all1 | OSXSAVE, EDX, AVX2, 0, 0, 0, 0x3 },
    };
    int bad = 0;
    for (auto& m : ms)
    {
        xsimd::detail::supported_arch s;
        bool faulted = false;
        if (!run_on(m, s, faulted)) { std::printf("could not run detector\n"); return 2; }
        std::printf("%s\n   sse4_2=%u avx=%u fma3<sse4_2>=%u fma3<avx>=%u fma4=%u avx2=%u avx512f=%u%s\n", m.what, s.sse4_2, s.avx, s.fma3_sse42, s.fma3_avx, s.fma4, s.avx2, s.avx512f,
                    faulted ? "  [XGETBV executed without OSXSAVE]" : "");
        if (s.avx || s.fma3_sse42 || s.fma3_avx || s.fma4 || s.avx2 || s.avx512f || faulted) ++bad;
    }
    std::printf(bad ? "FAIL: VEX/EVEX-encoded instruction sets reported available although the OS has not enabled YMM/ZMM state\n" : "PASS\n");
    return bad ? 1 : 0;
}
