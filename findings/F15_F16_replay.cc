// F15 (C17): scalar fnms(a,b,c) returns -0 where every batch kernel (and -(a*b)-c) returns +0   [exact cancellation]
// F16 (C17): scalar rotl/rotr with count 0 shift a 32/64-bit value by its full width (undefined behaviour): garbage at -O2
// clang++ -std=c++17 -O2 -msse2 -I/repo/include F15_F16_replay.cc && ./a.out     (triage replay only)
#include <xsimd/xsimd.hpp>
#include <cmath>
#include <cstdio>
template <class T> __attribute__((noinline)) T rot0_l(T x, int n) { return xsimd::rotl(x, n); }
template <class T> __attribute__((noinline)) T rot0_r(T x, int n) { return xsimd::rotr(x, n); }
int main()
{
    int bad = 0;
    float s = xsimd::fnms(1.f, 1.f, -1.f);
    float b = xsimd::fnms(xsimd::batch<float, xsimd::sse2>(1.f), xsimd::batch<float, xsimd::sse2>(1.f), xsimd::batch<float, xsimd::sse2>(-1.f)).get(0);
    std::printf("fnms(1,1,-1): scalar %s0, batch %s0\n", std::signbit(s) ? "-" : "+", std::signbit(b) ? "-" : "+");
    bad += std::signbit(s) != std::signbit(b);
    // count 0 as a compile-time constant: the shift by the full width is folded to an undefined value
    uint32_t r1 = xsimd::rotl(uint32_t(0x12345678u), 0);
    uint64_t r2 = xsimd::rotr(uint64_t(0x123456789abcdef0ull), 0);
    uint32_t b1 = xsimd::rotl(xsimd::batch<uint32_t, xsimd::sse2>(0x12345678u), 0).get(0);
    std::printf("rotl(uint32 0x12345678, 0): scalar %#x, batch %#x\n", r1, b1);
    std::printf("rotr(uint64 0x123456789abcdef0, 0): scalar %#llx\n", (unsigned long long)r2);
    bad += (r1 != 0x12345678u) + (r2 != 0x123456789abcdef0ull);
    std::puts(bad ? "FAIL" : "PASS");
    return bad ? 1 : 0;
}
