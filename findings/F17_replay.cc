// F17 (C02, C17): is_odd / is_even are not exact
//   is_odd(x) = is_even(x - 1) is evaluated in the element type: for |x| >= 2^24 (float) / 2^53 (double) x - 1 rounds,
//   and the float scalar overload computes x - 1. in double, so scalar and batch disagree;
//   is_even(x) = is_flint(x * 0.5) is true for the smallest denormal (x * 0.5 underflows to 0).
// g++ -std=c++17 -O2 -msse2 -I/repo/include F17_replay.cc && ./a.out     (triage replay only)
#include <xsimd/xsimd.hpp>
#include <cstdio>
#include <limits>
int main()
{
    using A = xsimd::sse2;
    int bad = 0;
    float xf = 16777218.f;          // an even integer
    bool bs = xsimd::is_odd(xf), bb = xsimd::is_odd(xsimd::batch<float, A>(xf)).get(0);
    std::printf("is_odd(16777218.f): scalar %d, batch %d (exact answer 0)\n", bs, bb);
    bad += bs + bb;
    double xd = 9007199254740994.;  // 2^53 + 2, an even integer
    bool ds = xsimd::is_odd(xd), db = xsimd::is_odd(xsimd::batch<double, A>(xd)).get(0);
    std::printf("is_odd(2^53+2): scalar %d, batch %d (exact answer 0)\n", ds, db);
    bad += ds + db;
    float dm = std::numeric_limits<float>::denorm_min();
    bool es = xsimd::is_even(dm), eb = xsimd::is_even(xsimd::batch<float, A>(dm)).get(0);
    std::printf("is_even(denorm_min): scalar %d, batch %d (exact answer 0)\n", es, eb);
    bad += es + eb;
    // controls
    bad += !xsimd::is_odd(3.f) + xsimd::is_odd(4.f) + !xsimd::is_even(4.f) + xsimd::is_even(3.f) + xsimd::is_even(2.5f) + xsimd::is_odd(2.5f);
    bad += !xsimd::is_odd(xsimd::batch<float, A>(-7.f)).get(0) + !xsimd::is_even(xsimd::batch<double, A>(-8.)).get(0);
    std::puts(bad ? "FAIL" : "PASS");
    return bad ? 1 : 0;
}
