#include <xsimd/xsimd.hpp>
#include <cstdio>
#include <cstdint>
int main(){
  int bad=0;
  {
    using B = xsimd::batch<float, xsimd::avx512f>;
    B rows[16];
    for (int r=0;r<16;++r) rows[r] = B(float(r+1));   // row r sums to 16*(r+1)
    B h = xsimd::haddp(rows);
    for (int i=0;i<16;++i) { float want = 16.f*(i+1); if (h.get(i)!=want) { printf("haddp lane %d = %g want %g\n", i, h.get(i), want); bad=1; } }
  }
  {
    using B = xsimd::batch<int8_t, xsimd::avx512f>;
    alignas(64) int8_t buf[64]; for (int i=0;i<64;++i) buf[i]=0; buf[35]=100;
    B x = B::load_aligned(buf);
    int m = xsimd::reduce_max(x);
    if (m!=100) { printf("reduce_max<int8,avx512f> with max at lane 35 = %d want 100\n", m); bad=1; }
    for (int i=0;i<64;++i) buf[i]=0; buf[36]=-100;
    int mn = xsimd::reduce_min(B::load_aligned(buf));
    if (mn!=-100) { printf("reduce_min<int8,avx512f> with min at lane 36 = %d want -100\n", mn); bad=1; }
  }
  return bad;
}
