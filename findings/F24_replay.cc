// F24 (C02, open): frexp(batch<T>) for subnormal, infinite, NaN and -0 arguments.
// build: g++ -std=c++17 -O2 -march=native -I/repo/include F24_replay.cc -o F24 && ./F24
#include <xsimd/xsimd.hpp>
#include <cstdio>
#include <cmath>
#include <limits>
int main(){
  using B=xsimd::batch<double>; using I=xsimd::batch<int64_t>;
  for(double x: {1.0, 1e-310, std::numeric_limits<double>::infinity(), std::nan(""), 0.0, -0.0, 4.9e-324}){
    I e; double m=xsimd::frexp(B(x),e).get(0); int se; double sm=std::frexp(x,&se);
    printf("frexp(%g): xsimd (%g, %ld)  std (%g, %d)\n",x,m,(long)e.get(0),sm,se);
  }
}
