// F3 (C14): lgamma(batch<double>) does not terminate when a lane < -34 sits next to a lane >= -34
// F4 (C14): tgamma does not terminate (in any reasonable time) for large finite arguments
// g++ -std=c++17 -O2 -msse2 -I/repo/include F3_F4_replay.cc && ./a.out     (triage replay only; a watchdog kills each call after 3 s)
#include <xsimd/xsimd.hpp>
#include <csignal>
#include <cstdio>
#include <cstdlib>
#include <sys/wait.h>
#include <unistd.h>
template <class F>
static bool finishes(const char* what, F f)
{
    pid_t p = fork();
    if (p == 0) { alarm(3); f(); _exit(0); }
    int st = 0;
    waitpid(p, &st, 0);
    bool ok = WIFEXITED(st) && WEXITSTATUS(st) == 0;
    std::printf("%-60s %s\n", what, ok ? "returns" : "DOES NOT RETURN within 3 s");
    return ok;
}
int main()
{
    using A = xsimd::sse2;
    int bad = 0;
    bad += !finishes("lgamma(batch<double>(-1e300, 1.0))", [] { volatile double s = xsimd::reduce_add(xsimd::lgamma(xsimd::batch<double, A>(-1e300, 1.0))); (void)s; });
    bad += !finishes("lgamma(batch<double>(-1e300, -1e300))  [control]", [] { volatile double s = xsimd::reduce_add(xsimd::lgamma(xsimd::batch<double, A>(-1e300, -1e300))); (void)s; });
    bad += !finishes("tgamma(batch<float>(1e10f))", [] { volatile float s = xsimd::reduce_add(xsimd::tgamma(xsimd::batch<float, A>(1e10f))); (void)s; });
    bad += !finishes("tgamma(batch<double>(1e18))", [] { volatile double s = xsimd::reduce_add(xsimd::tgamma(xsimd::batch<double, A>(1e18))); (void)s; });
    bad += !finishes("tgamma(batch<float>(30.f))  [control]", [] { volatile float s = xsimd::reduce_add(xsimd::tgamma(xsimd::batch<float, A>(30.f))); (void)s; });
    std::puts(bad ? "FAIL" : "PASS");
    return bad ? 1 : 0;
}
