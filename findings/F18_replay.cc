// F18 (C13/C10): lgamma(batch<float>): a lane x >= 1.5 changes its result when a NEIGHBOUR lies in [0.75, 1.25):
// detail::lgamma_impl<batch<float>>::other(): inside `if (any(xge075t))` the statement
//     r0x = select(xge075t, x - 1, x);            // else-arm should be r0x
// resets the already reduced argument of the other lanes.
// build: g++ -std=c++17 -O2 -march=native -I /repo/include F18_replay.cc -o F18 && ./F18
#include <xsimd/xsimd.hpp>
#include <cmath>
#include <cstdio>
template <class A> int run(const char* name)
{
    using B = xsimd::batch<float, A>;
    float in[B::size], out[B::size];
    int bad = 0;
    for (float v : { 1.6f, 2.0f, 3.0f, 4.5f, 10.0f, 100.0f })
    {
        for (std::size_t i = 0; i < B::size; ++i) in[i] = v;
        xsimd::lgamma(B::load_unaligned(in)).store_unaligned(out);
        float alone = out[0];
        in[B::size - 1] = 1.0f; // a neighbour in [0.75, 1.25)
        xsimd::lgamma(B::load_unaligned(in)).store_unaligned(out);
        float mixed = out[0];
        double ref = std::lgamma((double)v);
        std::printf("%-8s lgamma(%g): broadcast %.7g  next to 1.0: %.7g  (libm %.7g)\n", name, v, alone, mixed, ref);
        if (std::fabs(mixed - ref) > 1e-4 * std::fmax(1.0, std::fabs(ref))) ++bad;
    }
    return bad;
}
int main()
{
    int bad = run<xsimd::sse2>("sse2") + run<xsimd::avx2>("avx2") + run<xsimd::default_arch>("default");
    std::printf(bad ? "DEFECT REPRODUCED (%d wrong results)\n" : "ok\n", bad);
    return bad != 0;
}
