#include <xsimd/xsimd.hpp>
#include <cstdio>
int main(){
  using M = xsimd::batch_bool<float, xsimd::avx512f>;
  M t(true), f(false);
  auto r = t ^ t; auto r2 = t ^ f;
  printf("true^true -> any=%d (want 0), true^false -> all=%d (want 1)\n", (int)xsimd::any(r), (int)xsimd::all(r2));
  return xsimd::any(r) ? 1 : 0;
}
