// F20 (C11): erfc(batch<double>) for |x| > 6 evaluates the rational kernel erfc3 -- documented "2.2 <= abs(x) <= 6" --
// outside its fitting range; the kernel erfc4 ("x >= 6, rx = 1/x") is never called.  The error grows from 1e3 ulp at
// x = 6 to 5.6e7 ulp (1e-8 relative) at x = 26.4, where erfc(x) is still a normal double.
// build: g++ -std=c++17 -O2 -march=native -I/repo/include F20_replay.cc -o F20 && ./F20   (exit 1 = defect present)
#include <xsimd/xsimd.hpp>
#include <cstdio>
#include <cmath>
int main()
{
    using B = xsimd::batch<double>;
    double worst = 0, wx = 0;
    for (double x = 6.0; x < 26.5; x += 0.0137)
    {
        double r = xsimd::erfc(B(x)).get(0);
        long double t = erfcl((long double)x);
        if (t < 4 * 2.2250738585072014e-308L)
            continue;
        double u = std::nextafter((double)t, 1.0) - (double)t;
        double e = std::fabs((double)((r - t) / u));
        if (e > worst)
        {
            worst = e;
            wx = x;
        }
    }
    std::printf("erfc(batch<double>) on [6, 26.5]: worst error %.1f ulp at x = %g\n", worst, wx);
    for (double x : { 6.0, 8.0, 10.0, 15.0, 20.0, 25.0 })
    {
        double r = xsimd::erfc(B(x)).get(0);
        long double t = erfcl((long double)x);
        double u = std::nextafter((double)t, 1.0) - (double)t;
        std::printf("  erfc(%g) = %.17g, exact %.17Lg: %.1Lf ulp\n", x, r, t, (r - t) / u);
    }
    return worst > 65536.0 ? 1 : 0;
}
