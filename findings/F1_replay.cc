#include <xsimd/xsimd.hpp>
#include <cstdio>
#include <cstdint>
template <uint16_t... V> int test(){
  using B = xsimd::batch<uint16_t, xsimd::sse2>;
  alignas(16) uint16_t in[8]={10,11,12,13,14,15,16,17}, out[8]; uint16_t idx[8]={V...};
  B x = B::load_aligned(in);
  auto r = xsimd::swizzle(x, xsimd::batch_constant<uint16_t, xsimd::sse2, V...>{});
  r.store_aligned(out); int bad=0;
  for(int i=0;i<8;++i) if(out[i]!=in[idx[i]]) { printf("mask pos %d idx %d: got %d want %d\n", i, idx[i], out[i], in[idx[i]]); bad=1; }
  return bad;
}
int main(){ int b=0; b|=test<7,0,0,0,0,0,0,0>(); b|=test<0,1,2,3,4,5,6,7>(); b|=test<7,6,5,4,3,2,1,0>(); b|=test<4,5,6,7,0,1,2,3>(); b|=test<1,5,2,6,3,7,0,4>(); b|=test<2,3,0,1,6,7,4,5>();
  // generic reduce over uint16 on sse2 uses these swizzles
  xsimd::batch<uint16_t, xsimd::sse2> v(1,2,3,4,5,6,7,8); auto s = xsimd::reduce([](xsimd::batch<uint16_t, xsimd::sse2> a, xsimd::batch<uint16_t, xsimd::sse2> c){return a+c;}, v);
  if (s!=36) { printf("reduce(+) = %d want 36\n", (int)s); b=1; }
  return b; }
