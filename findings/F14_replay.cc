// F14 (C05): generic shuffle() mis-detects the index pattern <0,n,2,n+2,4,n+4,...> as zip_lo.
// g++ -std=c++17 -O1 -msse2 -I/repo/include F14_replay.cc && ./a.out    (triage replay only; not part of any check)
#include <xsimd/xsimd.hpp>
#include <cstdio>
int main()
{
    using A = xsimd::sse2;
    xsimd::batch<int32_t, A> x(10, 11, 12, 13), y(20, 21, 22, 23);
    auto r = xsimd::shuffle(x, y, xsimd::batch_constant<uint32_t, A, 0, 4, 2, 6> {});
    int32_t o[4];
    r.store_unaligned(o);
    std::printf("shuffle<0,4,2,6> = %d %d %d %d (definition: 10 20 12 22)\n", o[0], o[1], o[2], o[3]);
    xsimd::batch<double, xsimd::avx> xd(1., 2., 3., 4.), yd(5., 6., 7., 8.);
    return (o[0] == 10 && o[1] == 20 && o[2] == 12 && o[3] == 22) ? (std::puts("PASS"), 0) : (std::puts("FAIL"), 1);
}
