// F22 (C11, graceful saturation): exp10(batch<double>) returned -inf for x in (-308.2547, -308.104) on every architecture
// that uses the generic ldexp (sse2 ... avx2): minlog10<double> = log10(2^-1024) let k = -1024 through, and the biased
// exponent k + 1023 = -1 shifted into the exponent field is the bit pattern of -inf.
// build: g++ -std=c++17 -O2 -march=native -I/repo/include F22_replay.cc -o F22 && ./F22   (exit 1 = defect present)
#include <xsimd/xsimd.hpp>
#include <cstdio>
#include <cmath>
template <class A>
int run(const char* n)
{
    using B = xsimd::batch<double, A>;
    int bad = 0;
    for (double x = -309.0; x < -307.0; x += 0.001)
    {
        double r = xsimd::exp10(B(x)).get(0);
        if (!(r >= 0.0) || std::isinf(r))
        {
            if (bad < 3)
                std::printf("%s: exp10(%.4f) = %g (exact %Lg)\n", n, x, r, powl(10.0L, (long double)x));
            ++bad;
        }
    }
    std::printf("%s: %d of 2000 arguments in [-309, -307) give a negative / infinite / NaN result\n", n, bad);
    return bad;
}
int main()
{
    int bad = run<xsimd::sse2>("sse2") + run<xsimd::avx2>("avx2") + run<xsimd::default_arch>("default");
    return bad != 0;
}
