// F21 (C02): nextafter(batch<float/double>) stepped the bit pattern by +1 whenever to > from and by -1 otherwise, whatever
// the sign of from: nextafter(-1, 0) moved AWAY from 0, nextafter(+-0, negative) was NaN, nextafter(-0, positive) was
// -denorm_min, nextafter(x, NaN) was finite, nextafter(+0, -0) was +0.
// build: g++ -std=c++17 -O2 -march=native -I/repo/include F21_replay.cc -o F21 && ./F21   (exit 1 = defect present)
#include <xsimd/xsimd.hpp>
#include <cstdio>
#include <cmath>
#include <cstring>
#include <limits>
template<class T> int run(){
  using B=xsimd::batch<T>;
  T inf=std::numeric_limits<T>::infinity(), nan=std::numeric_limits<T>::quiet_NaN(), dm=std::numeric_limits<T>::denorm_min(), mx=std::numeric_limits<T>::max(), mn=std::numeric_limits<T>::min();
  T v[]={0,-T(0),1,-1,dm,-dm,mn,-mn,mx,-mx,inf,-inf,nan,T(0.5),T(-2.5),T(1e-30),T(-1e30)};
  int bad=0;
  for(T a: v) for(T b: v){
    T r=xsimd::nextafter(B(a),B(b)).get(0); T e=std::nextafter(a,b);
    bool same = (std::isnan(r)&&std::isnan(e)) || std::memcmp(&r,&e,sizeof(T))==0;
    if(!same){ if(bad<12) printf("nextafter(%g,%g)=%g expected %g\n",(double)a,(double)b,(double)r,(double)e); bad++; }
  }
  return bad;
}
int main(){ int b=run<float>()+run<double>(); printf("%d mismatches\n",b); return b!=0; }
