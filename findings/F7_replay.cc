#include <xsimd/xsimd.hpp>
#include <cstdio>
#include <cstdint>
#include <limits>
int main(){
  using B = xsimd::batch<int32_t>;
  int32_t mn = std::numeric_limits<int32_t>::min();
  auto r = xsimd::ssub(B(0), B(mn));
  auto r64 = xsimd::ssub(xsimd::batch<int64_t>(5), xsimd::batch<int64_t>(std::numeric_limits<int64_t>::min()));
  int32_t s = xsimd::ssub((int32_t)0, mn);
  int8_t s8 = xsimd::ssub((int8_t)0, (int8_t)-128);
  printf("batch ssub(0, INT32_MIN) = %d (want %d)  i64: %lld  scalar: %d  scalar i8: %d\n", r.get(0), std::numeric_limits<int32_t>::max(), (long long)r64.get(0), s, (int)s8);
  // sanity on ordinary values
  printf("ssub(5,3)=%d ssub(-5,3)=%d ssub(INT_MIN,1)=%d ssub(INT_MAX,-1)=%d ssub(-2,INT_MAX)=%d\n", xsimd::ssub(B(5),B(3)).get(0), xsimd::ssub(B(-5),B(3)).get(0), xsimd::ssub(B(mn),B(1)).get(0), xsimd::ssub(B(2147483647),B(-1)).get(0), xsimd::ssub(B(-2),B(2147483647)).get(0));
  return r.get(0)==std::numeric_limits<int32_t>::max() && s==2147483647 && s8==127 ? 0:1;
}
