// F5 (C18): aligned_allocator<T,A>::allocate(n) does not guard n*sizeof(T) against overflow.
// g++ -std=c++17 -O1 -I/repo/include F5_replay.cc && ./a.out     (triage replay only; not part of any check)
#include <xsimd/xsimd.hpp>
#include <cstdio>
#include <new>
int main()
{
    xsimd::aligned_allocator<double, 64> a;
    size_t n = (size_t(-1) / sizeof(double)) + 2; // n*8 wraps to 8
    try
    {
        double* p = a.allocate(n);
        std::printf("FAIL: allocate(%zu) returned %p (an 8-byte block) instead of throwing std::bad_alloc\n", n, (void*)p);
        a.deallocate(p, n);
        return 1;
    }
    catch (std::bad_alloc&)
    {
        std::printf("PASS: bad_alloc\n");
        return 0;
    }
}
