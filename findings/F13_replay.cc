#include <xsimd/xsimd.hpp>
#include <cstdio>
#include <cstdint>
template <class A, size_t N> int test(const char* name){
  using B = xsimd::batch<uint16_t, A>; constexpr size_t n = B::size;
  alignas(64) uint16_t in[n], out[n]; for (size_t i=0;i<n;++i) in[i]=uint16_t(0x100*(i+1)+i);
  B r = xsimd::rotate_left<N>(B::load_aligned(in)); r.store_aligned(out); int bad=0;
  for (size_t i=0;i<n;++i) if (out[i]!=in[(i+N)%n]) { if(!bad) printf("%s rotate_left<%zu> lane %zu = %04x want %04x\n", name, N, i, out[i], in[(i+N)%n]); bad=1; }
  return bad;
}
int main(){ int b=0;
  b|=test<xsimd::sse2,1>("sse2"); b|=test<xsimd::ssse3,1>("ssse3"); b|=test<xsimd::ssse3,3>("ssse3");
  b|=test<xsimd::avx2,1>("avx2"); b|=test<xsimd::avx2,9>("avx2"); b|=test<xsimd::avx512bw,1>("avx512bw"); b|=test<xsimd::avx512bw,17>("avx512bw");
  return b; }
