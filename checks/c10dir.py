"""C10 / C11 kernel-accuracy clause for the small-argument kernels of sinh, tanh, asinh, atanh and erf.

Every loop-free control path of the public function is split into its select cases; a case whose value is a rational
function of |x| ALONE (no exp / log / sqrt atom: those tiers are covered by the tier-continuity clause and, through
exp and log, by their own kernels) and which vanishes at 0 is the odd kernel  x (1 + x^2 R(x^2)):  K(x)/x is compared
with the Taylor enclosure of f(x)/x on the whole range of |x| that the path and case conditions allow.
"""
from fractions import Fraction as Fr

from engine import terms as T, realfn as RFN, qi as Q
from engine.realfn import NotReal
from . import c10trig as TR, c10inv as INV

SERIES = {'sinh': ('sinh', None), 'tanh': ('tanh', None), 'asinh': ('asinh', Fr(9, 10)), 'atanh': ('atanh', Fr(9, 10)), 'erf': ('erf', None)}


def analyse_dir(mod, fname, func, bits, thr):
    from .c10 import Mismatch, ulps, lane_term
    from engine.lanes import NotStraightLine
    track = 1
    T.reset()
    f_ = mod.functions.get(fname)
    if f_ is None:
        raise Mismatch('wrapper %s missing' % fname)
    try:
        paths = [(lane_term(mod, fname)[0], [])]
    except NotStraightLine:
        done, dropped = TR.explore(mod, f_, track, limit=60)
        paths = [(d[0], d[1]) for d in done]
    if not paths:
        raise Mismatch('no loop-free path')
    out = {'cases': [], 'paths': len(paths)}
    seen = set()
    eb = 50 if bits == 32 else 85
    for (term, assumed) in paths:
        rg0 = TR.Range()
        ok0 = True
        for (kind, c) in assumed:
            if not TR.apply_cond(rg0, kind, c, track):
                ok0 = False
        ex = RFN.Extract()
        try:
            cs = ex.cases_abs(term)
        except NotReal:
            continue
        condmap = dict(getattr(ex, 'conds', {}))
        for (conds, g) in cs:
            ats = sorted(g.atoms())
            if len(ats) != 1 or not TR.is_ax(ex.atoms[ats[0]], track):
                # the signed argument alone also counts (x * P(x^2) with x = self)
                if not (len(ats) >= 1 and all(TR.is_ax(ex.atoms[a], track) or (T.single_term(ex.atoms[a]) is not None and T.single_term(ex.atoms[a]).kind == 'arg' and T.single_term(ex.atoms[a]).attrs == track) for a in ats)):
                    continue
            rg = TR.Range()
            rg.lo, rg.hi = rg0.lo, rg0.hi
            if not ok0 or not INV.refine(rg, conds, condmap, track):
                continue
            if rg.hi is None or rg.lo >= rg.hi:
                continue
            # every atom is the argument or its absolute value: one variable (x >= 0 without loss of generality)
            AX = ats[0]
            gg = g
            for a in ats[1:]:
                gg = gg.subst(a, RFN.p_atom(AX))
            N, D = Q.Poly(RFN.p_univariate(gg.num, AX)), Q.Poly(RFN.p_univariate(gg.den, AX))
            key = (tuple(str(x) for x in N.c), tuple(str(x) for x in D.c), rg.lo, rg.hi)
            if key in seen:
                continue
            seen.add(key)
            if N.deg() < 3 or N.c[0] != 0 or D.c[0] == 0:
                continue                                       # not an odd kernel (a constant, x itself, ...)
            rec = {'x_range': (float(rg.lo), float(rg.hi)), 'degree': (N.deg(), D.deg())}
            lo, hi = rg.lo, rg.hi * Fr(1025, 1024)
            lim = SERIES[func][1]
            if lim is not None and hi >= lim:
                rec.update(verdict='bad', ulp=float('inf'), why='the kernel is used up to |x| = %.4g, beyond the region where the comparison series converges fast' % float(hi))
                out['cases'].append(rec)
                continue
            if hi > 4:
                continue
            N1 = N.shift_down(1)
            try:
                if func == 'tanh':
                    ss, cc = Q.sinh_over_x_series(hi, eps_bits=eb), Q.cosh_series(hi, eps_bits=eb)
                    den = D.to_qi() * ss.poly
                    num = N1.to_qi() * cc.poly - den
                    extra = Q.sup_abs(N1, lo, hi, 16) * cc.tail + Q.sup_abs(D, lo, hi, 16) * ss.tail
                    dmin = Q.inf_abs(den, lo, hi, 32) - Q.sup_abs(D, lo, hi, 16) * ss.tail
                    if dmin <= 0:
                        raise ZeroDivisionError()
                    rho = Q.sup_ratio(num, den, lo, hi, 64) + extra / dmin
                else:
                    ser = {'sinh': Q.sinh_over_x_series, 'asinh': Q.asinh_over_x_series, 'atanh': Q.atanh_over_x_series, 'erf': Q.erf_over_x_series}[func](hi, eps_bits=eb)
                    diff = N1.to_qi() - ser.poly.to_qi() * D.to_qi()
                    q_err = Q.sup_ratio(diff, D, lo, hi, 64, ser.tail)
                    srng = Q.range_qi(ser.poly.to_qi(), lo, hi, 32).widen(ser.tail)
                    if srng.mig() == 0:
                        raise ZeroDivisionError()
                    rho = q_err / srng.mig()
            except ZeroDivisionError:
                rec.update(verdict='mismatch', why='denominator may vanish on the range')
                out['cases'].append(rec)
                continue
            u = ulps(rho, bits)
            rec.update(verdict='ok' if u <= thr else 'bad', ulp=float(u))
            out['cases'].append(rec)
    return out
