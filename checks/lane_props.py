"""Properties decided by lane-term normalisation (DESIGN 2.4): C01 C02 C03 C06 C07 C08 ..."""
import json
import os
import sys
import collections

from engine import lanecheck as L, report, build
from catalogue import ops as O, configs as C

ROOT = os.path.dirname(os.path.dirname(os.path.abspath(__file__)))
DECIDED = os.path.join(ROOT, 'catalogue', 'decided.json')

TRUSTED = [
    "clang 14 lowers each x86 intrinsic to IR with the semantics of the Intel SDM operation section",
    "LLVM -O2 is semantics-preserving (the IR analysed is the optimised IR)",
    "the rewrite rules of engine/terms.py (each a value-independent identity of bit-vector / two's-complement arithmetic)",
    "the spec forms and reviewed templates of catalogue/specs.py",
    "engine/octa.py (octagon case analysis over the exact operands: decides the saturating add/sub whose select nest no template matches -- the branchy scalar overloads and the 64-bit kernels built on the emulated compare; anything outside its fragment is 'not established')",
    "intrinsic models of engine/lanes.py (blendv, movmsk, pmov, uniform shifts, LUT projection analysis)",
]
ASSUMPTIONS = [
    "the program analysed is clang 14's translation of /repo/include (g++ builds the tests); compiler-conditional code is inventoried in DESIGN 1.5",
    "nsw/nuw/exact flags are ignored: signed-overflow UB of scalar fallback loops is not reported (DESIGN 6.3)",
    "assert() preconditions are assumed (branches to __assert_fail are pruned and counted)",
    "NEON/SVE/RVV/WASM kernels are out of scope (no target headers on this image)",
]


def vkey(var):
    return ''.join('%s%s' % (k, L._vstr(var[k])) for k in sorted(var))


def okey(op, ty, cfg, var):
    return '%s|%s|%s|%s' % (op, ty, cfg, vkey(var))


def fam(key):
    return key.rsplit('|', 1)[0]


class Floor(object):
    """frozen decided set.  An entry is either a full obligation key -> class, or a family key
    'op|ty|cfg' -> 'ALL:<class>' meaning every instantiation of that family was decided when frozen
    (instantiation sweeps whose members depend on VERIF_SEED are frozen this way)."""

    def __init__(self, d):
        self.d = d

    def __contains__(self, key):
        return key in self.d or fam(key) in self.d

    def get(self, key):
        if key in self.d:
            return self.d[key]
        v = self.d.get(fam(key))
        return v.split(':')[1] if v else None

    def __bool__(self):
        return bool(self.d)

    def __len__(self):
        return len(self.d)

    def keys(self):
        return self.d.keys()


EMU_PROPS = ('C01', 'C02', 'C06', 'C07', 'C09')


def obligations(pid, tier, only=None, cfgs=None):
    obls = {}
    # the emulated architectures are analysed for the properties whose operations do not involve batch_bool values
    for c in C.CONFIGS + (C.EMULATED if (pid in EMU_PROPS or (cfgs and any(x.startswith('emu') for x in cfgs))) else []):
        if cfgs and c.name not in cfgs:
            continue
        if pid == 'C17' and c.name not in ('sse2', 'avx2', 'avx512f'):
            continue      # the scalar overloads do not depend on the batch architecture; three flag sets are compiled
        l = []
        for o in O.OPS:
            if pid not in o.props:
                continue
            if only and o.name not in only:
                continue
            if pid == 'C19' and tier == 'quick' and o.group.startswith('move') and c.name not in C.REPRESENTATIVE:
                # the constant-index data-movement sweep is C05's; C19 re-reads it on the representative configurations
                continue
            for t in o.types:
                for v in L.variants_of(o, t, c, tier):
                    l.append((o.name, t.name, v))
        obls[c.name] = l
    return obls


def run(pid, level, a, note, extra=None, trusted=None, assumptions=None):
    """extra: optional callback(r) -> dict run before the verdict (further obligations of the same property decided
    by another engine); its integer entries 'obligations'/'discharged'/'evaluations' are added to the totals"""
    if a.replay:
        return replay(pid, a.replay)
    r = report.Run(pid, a.tier, level)
    only = a.only.split(',') if a.only else None
    cfgs = a.cfg.split(',') if a.cfg else None
    obls = obligations(pid, a.tier, only, cfgs)
    res = L.run_obligations(obls)
    floor = Floor(report.load_decided().get(pid, {}))
    stats = collections.Counter()
    undecided = []
    kernels = set()
    samples = []
    decided_now = {}
    seen_keys = set()
    for x in res:
        st = x.get('status')
        if st == 'broken':
            r.broke('%s: %s' % (x.get('cfg'), x.get('why', '')[:400]))
            continue
        key = okey(x['op'], x['ty'], x['cfg'], x.get('var') or {})
        seen_keys.add(key)
        stats[st] += 1
        for k in x.get('kernel', [])[:3]:
            kernels.add(k)
        if st in ('P', 'I'):
            decided_now[key] = st
            if len(samples) < 6 and x['cfg'] in ('sse2', 'avx2', 'avx512f') and (len(samples) % 2 == 0 or st == 'I'):
                samples.append({'obligation': key, 'class': st, 'matched_form': x.get('label'), 'kernel_lines': x.get('kernel', [])[:3]})
            continue
        if st == 'rejected':
            if key in floor:
                r.broke('%s was accepted by the library when the floor was frozen and is now rejected by the front end: %s' % (key, x.get('why')))
            continue
        # mismatch / undecided
        if key in floor:
            what = 'kernel no longer matches %s' % ('its spec form' if floor.get(key) == 'P' else 'its reviewed algorithm')
            if st == 'mismatch':
                what += ' at lane %s: first difference at %s: got %s, expected %s; source %s' % (
                    x.get('lane'), x.get('diff_path') or '(root)', x.get('diff_got'), x.get('diff_want'), ' <- '.join((x.get('chain') or [])[:4]))
            else:
                what += ': ' + x.get('why', '')
            r.violation(key, what, x)
        else:
            # not in the decided set: only a known finding or an undecided obligation
            hit = False
            for k in r.known:
                if report.key_matches(k['key'], key):
                    fps = k.get('fingerprints')
                    fk = '%s|%s|%s' % (x['op'], x['ty'], vkey(x.get('var') or {}))
                    if fps is not None and x.get('fp') not in (fps.get(fk) or []):
                        r.violations.append((key, 'fails differently from the recorded finding "%s": got %s, expected %s' % (
                            k['key'], x.get('diff_got') or x.get('why'), x.get('diff_want')), x))
                    else:
                        r.known_hits.append((k, key, x.get('why') or x.get('diff_path')))
                    hit = True
                    break
            if not hit:
                undecided.append({'obligation': key, 'why': x.get('why') or ('no spec form / template matches: ' + (x.get('got') or '')[:160])})
    # coverage floor: every frozen obligation must have been produced again
    if not only and not cfgs:
        seen_fams = set(fam(k) for k in seen_keys)
        missing = [k for k in floor.keys() if k not in seen_keys and k not in seen_fams]
        if missing:
            r.broke('%d obligations of the frozen decided set were not generated (e.g. %s): catalogue or configuration table shrank' % (len(missing), missing[:3]))
    if os.environ.get('VERIF_DUMP_FP'):
        fp = {}
        for x in res:
            if x.get('status') == 'mismatch':
                fp.setdefault('%s|%s|%s' % (x['op'], x['ty'], vkey(x.get('var') or {})), set()).add(x.get('fp'))
        json.dump(dict((k, sorted(v)) for k, v in fp.items()), open(os.environ['VERIF_DUMP_FP'], 'w'), indent=0, sort_keys=True)
    if a.freeze:
        d = report.load_decided()
        # compress: families whose every generated instantiation was decided are stored once
        byfam = collections.defaultdict(list)
        for k in seen_keys:
            byfam[fam(k)].append(k)
        comp = {}
        for f, ks in byfam.items():
            cls = set(decided_now.get(k) for k in ks)
            if None not in cls and len(ks) > 1:
                comp[f] = 'ALL:' + ('I' if 'I' in cls else 'P')
            else:
                for k in ks:
                    if k in decided_now:
                        comp[k] = decided_now[k]
        d[pid] = comp
        with open(DECIDED, 'w') as f:
            json.dump(d, f, indent=0, sort_keys=True)
        print('froze %d decided obligations for %s' % (len(decided_now), pid))
    claimed = [k for k in seen_keys if k in floor] if floor else list(decided_now)
    n_obl = len(claimed)
    n_dis = sum(1 for k in claimed if k in decided_now)
    cov = {
        'obligations': n_obl, 'discharged': n_dis,
        'class_P': stats['P'], 'class_I': stats['I'],
        'undecided': len(undecided), 'undecided_list': undecided[:300],
        'rejected_by_library': stats['rejected'],
        'generated': len(res),
        'configurations': sorted(obls.keys()),
        'kernel_source_lines_covered': len(kernels),
        'kernel_source_lines_sample': sorted(kernels)[:40],
        'checker_cmd': 'python3 /verif/check.py %s --tier %s' % (pid, a.tier),
        'trusted_base': TRUSTED,
        'samples': samples,
        'rule': note,
        'evaluations': len(res), 'distinct_nontrivial': n_dis,
        'exhaustive': True,
        'headers_sha256': build.headers_hash(),
        'known_finding_obligations': len(r.known_hits),
    }
    if trusted:
        cov['trusted_base'] = TRUSTED + list(trusted)
    if extra is not None:
        ex = extra(r) or {}
        for k in ('obligations', 'discharged', 'evaluations', 'distinct_nontrivial'):
            if k in ex:
                cov[k] += ex.pop(k)
        if 'samples' in ex:
            cov['samples'] = cov['samples'] + ex.pop('samples')
        cov.update(ex)
    return r.finish(cov, ASSUMPTIONS + list(assumptions or []))


def replay(pid, path):
    """re-decide the single obligation stored in a violation file against the current tree"""
    d = json.load(open(path))
    res = L.run_tu((d['cfg'], [(d['op'], d['ty'], d.get('var') or {})]))
    for x in res:
        print(json.dumps(x, indent=1, default=str))
    bad = [x for x in res if x.get('status') not in ('P', 'I')]
    if bad:
        print('VIOLATION property=%s replay=%s' % (pid, path))
        return 1
    print('OK: obligation holds on the current tree')
    return 0


def c01(a):
    return run('C01', 'proof', a, 'one obligation per (integer op, element type, architecture configuration): every output lane term equals the spec form of the operation on that lane\'s operands (class P) or a reviewed algorithm template (class I)')


def c03(a):
    return run('C03', 'proof', a, 'one obligation per (comparison / mask op, element type, configuration)')


def c07(a):
    return run('C07', 'proof', a, 'one obligation per (bitwise/shift/rotate op, element type, configuration, literal count): shifts and rotates are specialised for every count 0..bits-1')


def c02(a):
    return run('C02', 'proof', a, 'one obligation per (floating-point op, float|double, configuration): IEEE operation terms (fadd/fsub/fmul/fdiv/sqrt/fma), sign-bit re-slicing for neg/abs/copysign, x86 min/max, classification predicates; any fast-math flag on a node is reported')


def c08(a):
    return run('C08', 'proof', a, 'one obligation per (rounding function, float|double, configuration): the hardware rounding primitive with the right rounding-mode immediate (class P) or the reviewed conversion-based / add-subtract-2^p emulation (class I)')


def c09(a):
    return run('C09', 'proof', a, 'one obligation per (reduction, element type, configuration): the scalar result (or haddp lane) flattened over its associative-commutative operator must be exactly the multiset of all lanes, each once (add, generic reduce) / every lane at least once (min, max)')


def c05(a):
    return run('C05', 'exploration', a, 'exploration over instantiations (constant index patterns from structured families + VERIF_SEED random ones, every slide/rotate/insert/extract_pair count, every compress/expand mask up to 8 lanes); each instantiation is decided exactly for all lane values by byte provenance: every output lane must be the input lane (or zero) the definition names')


def c04(a):
    return run('C04', 'proof', a, 'one obligation per (load/store form, element type, configuration): byte footprint through the pointer argument is exactly the register (no byte outside read/written, none skipped), lane i <-> element i, IR alignment assumption <= what the contract grants; gather/scatter: exactly n element accesses at base + sext(index lane i) * sizeof(T) (a zero-extended signed index is a violation), every element width')


def c06(a):
    return run('C06', 'proof', a, 'one obligation per (conversion entry point, From, To, configuration): every result lane / memory element equals static_cast<To> of the corresponding source lane as an IR conversion node (sitofp/uitofp/fptosi/fptoui/cvtt/sext/zext/trunc/fpext/fptrunc; class P) or a reviewed emulation (class I); load_as/store_as additionally satisfy the footprint and alignment rules of C04; bitwise_cast is the identity on the register bytes')


def c17(a):
    return run('C17', 'proof', a, 'one obligation per (scalar overload, element type[, literal count]): the scalar overload is compiled and its result term must equal the SAME spec form / reviewed template the batch kernels are matched against in C01-C03, C07, C08 -- scalar/batch agreement then follows by transitivity for all operand values')


def c16(a):
    return run('C16', 'proof', a, 'one obligation per (complex operation component, float|double, configuration): +,-,*,/,fma/fms/fnma/fnms and norm: the lane term of the real/imaginary result with every rounding erased (fma expanded, negations pushed to the leaves, sums flattened) is the textbook sum of products; ==/!=, real, imag, conj, proj: exact lane terms; interleaved load/store: footprint exactly 2n elements and memory element 2i / 2i+1 <-> lane i of real() / imag()')


REGISTRY = {'C16': c16, 'C17': c17, 'C06': c06, 'C04': c04, 'C05': c05, 'C01': c01, 'C02': c02, 'C03': c03, 'C07': c07, 'C08': c08, 'C09': c09}
