"""C10 / C11 -- the kernel-accuracy clause of the ulp-bound properties (DESIGN 3.C10).

The ulp bound of an elementary function over all 2^32 / 2^64 arguments is NOT decided (see DESIGN: no sound static
argument in reach bounds the accumulated rounding error to 4.5 ulp).  What IS decided here, for every argument of the
reduced domain at once, is a necessary condition of that bound -- the *method error* of each kernel:

   the real function the kernel denotes when every rounding is erased (engine/realfn.py: a rational function in the
   reduced argument, read off the optimised IR of the whole public function: reduction constants, polynomial / rational
   approximation, reconstruction) differs from the mathematical function by at most THR ulp on the whole reduced
   domain, the reduction constants (hi/lo splits, 1/ln2 ...) included.

The bound is rigorous: exact rational arithmetic, Taylor enclosures with explicit tail bounds (engine/qi.py).  If the
method error alone exceeds the property's bound plus the allowance for evaluation rounding (THR), no rounding luck can
bring the result back inside the bound on every binade, so the property is broken: that is the only situation reported
as a violation.  A kernel whose shape no longer matches its reviewed template is 'analysis broken' (exit 2), never a
violation.  Functions covered: see FUNCS; every other function of the property is not decided.
"""
import json
import os
from concurrent.futures import ProcessPoolExecutor
from fractions import Fraction as Fr

from engine import build, ir, lanes, report, terms as T, realfn as RFN, qi as Q
from engine.ir import parse_type
from engine.realfn import NotReal
from catalogue import configs as CF
from . import c14

ROOT = os.path.dirname(os.path.dirname(os.path.abspath(__file__)))
CONFIGS = ['sse4_1', 'fma3_avx2', 'avx512f']
THOROUGH = ['sse4_1', 'fma3_sse', 'fma4', 'avx', 'avx2', 'fma3_avx2', 'avx512f', 'avx512dq', 'avx512vnni_vbmi2']
# the property's bound for these functions is 4.5 ulp; evaluation rounding of a kernel is allowed to hide at most 3.5 ulp more
BOUND_ULP = Fr(9, 2)
ROUNDING_ALLOWANCE_ULP = Fr(7, 2)
THR = BOUND_ULP + ROUNDING_ALLOWANCE_ULP

ROUND_NAMES = ('x86.round', 'llvm.nearbyint', 'llvm.rint', 'llvm.roundeven', 'call:llvm.x86.avx512.mask.rndscale')


class Mismatch(Exception):
    """the kernel no longer has the shape of its reviewed template (not a verdict on its accuracy)"""


def lane_term(mod, fname, arg_sign=None):
    """arg_sign 0 / 1: the sign bit of every argument lane is that constant (the analysis of one half line)"""
    f = mod.functions.get(fname)
    if f is None:
        raise Mismatch('wrapper %s missing' % fname)
    args = []
    for i, a in enumerate(f['args']):
        ty = parse_type(a['ty'])
        b = ty.elem.bits
        if arg_sign is None:
            args.append(T.cat(*[T.atom_bv('a%d' % i, l, b) for l in range(ty.n)]))
        else:
            args.append(T.cat(*[T.cat(T.slice_(T.atom_bv('a%d' % i, l, b), 0, b - 1), T.const(1, arg_sign)) for l in range(ty.n)]))
    ev = lanes.Eval(mod, f, args)
    ev.run()
    w = parse_type(f['ret']).elem.bits
    # the tracked lane: lane 1 (not the first, so that a kernel treating lane 0 specially would not go unnoticed by luck)
    return T.canon(T.slice_(ev.ret, w, w)), w


def is_round_nearest(t):
    if not t.name.startswith(ROUND_NAMES):
        return False
    if t.name.startswith('x86.round'):
        return tuple(t.attrs or ()) in ((0,), (4,), (8,), (12,))
    return True


def classify_atoms(ex, used):
    """-> dict kind -> atom index, for the atoms of the exp / log templates"""
    out = {}
    for i in sorted(used):
        bv = ex.atoms[i]
        t = T.single_term(bv)
        if T.is_const(bv):
            out.setdefault('special', []).append(i)
            continue
        if t is None:
            out.setdefault('S' if (len(bv) == 2 and bv[0][0] == 'c' and bv[0][2] == 0) else 'other', []).append(i)
            continue
        if t.kind == 'arg':
            out.setdefault('X', []).append(i)
        elif is_round_nearest(t):
            out.setdefault('K', []).append(i)
        elif t.name.startswith('sitofp'):
            out.setdefault('DK', []).append(i)
        elif t.name == 'pow2floor' or t.name.startswith('sum'):
            out.setdefault('S', []).append(i)
        else:
            out.setdefault('other', []).append(i)
    return out


def main_cases(cs):
    """cases whose value is not a bare constant / special-value atom"""
    out = []
    for (c, f) in cs:
        if not f.num:
            continue                                   # the constant 0
        if len(f.num) == 1 and f.den == RFN.p_const(1):
            (m, v), = f.num.items()
            if m == () or (len(m) == 1 and m[0][1] == 1 and v == 1 and False):
                continue                               # a finite constant
        out.append((c, f))
    return out


def strip_special(cs, ex):
    out = []
    for (c, f) in cs:
        ats = f.atoms()
        if any(T.is_const(ex.atoms[a]) for a in ats):
            if len(f.num) == 1 and f.den == RFN.p_const(1):
                continue                               # +-inf / NaN returned as such
            raise Mismatch('a non-finite constant takes part in arithmetic')
        if not ats:
            continue                                   # a finite constant (saturation value)
        out.append((c, f))
    return out


def divide_by_atom(f, a):
    """f / atom a, requiring a to be a linear common factor of the numerator and absent from the denominator"""
    if a in RFN.p_atoms(f.den):
        raise Mismatch('scale atom in a denominator')
    num = {}
    for m, v in f.num.items():
        d = dict(m)
        if d.get(a, 0) != 1:
            raise Mismatch('the 2^k scaling is not a linear common factor of the result')
        del d[a]
        num[tuple(sorted(d.items()))] = v
    return RFN.RF(num, f.den)


def pow2_atom_ok(bv, kbv, w):
    """is this atom 2^k for the rounding atom k: bits(1.0) + (int)k << mantissa, or the scalef scale"""
    t = T.single_term(bv)
    one, mant = (0x3f800000, 23) if w == 32 else (0x3ff0000000000000, 52)
    if t is None:
        # [mantissa zeros ++ (k + bias) on the exponent bits]: the same value built on the exponent field alone
        if len(bv) == 2 and bv[0][0] == 'c' and bv[0][1] == mant and bv[0][2] == 0 and bv[1][0] == 's' and bv[1][2] == 0 and bv[1][3] == bv[1][1].width == w - mant:
            te = bv[1][1]
            if te.name.startswith('sum') and te.attrs and te.attrs[0] == (one >> mant) and tuple(te.attrs[1]) == (1,):
                return T.fmt(kbv, 40) in T.fmt(te.ops[0], 60)
        return False
    if t.name == 'pow2floor':
        inner = T.single_term(t.ops[0])
        # sitofp(to_int(k)) or k itself
        return T.fmt(kbv, 40) in T.fmt(t.ops[0], 60)
    if t.name.startswith('sum') and t.attrs and t.attrs[0] == one and tuple(t.attrs[1]) == (1 << mant,):
        return T.fmt(kbv, 40) in T.fmt(t.ops[0], 60)
    return False


def ulps(rho, bits):
    return rho * (1 << (24 if bits == 32 else 53))


def walk_terms(bv, seen=None):
    """every Term reachable from a lane term (each once)"""
    if seen is None:
        seen = set()
    for pce in bv:
        if pce[0] == 'r':
            for t in walk_terms((pce[1],), seen):
                yield t
            continue
        if pce[0] != 's':
            continue
        t = pce[1]
        if t.uid in seen:
            continue
        seen.add(t.uid)
        yield t
        for o in (t.ops or ()):
            if isinstance(o, tuple):
                for u in walk_terms(o, seen):
                    yield u


def fl_round(x, p):
    """x (Fraction) rounded to the nearest p-bit significand, ties to even (no exponent limits)"""
    if x == 0:
        return x
    s = -1 if x < 0 else 1
    x = abs(x)
    e = x.numerator.bit_length() - x.denominator.bit_length()
    if Fr(2) ** e > x:
        e -= 1
    q = x / Fr(2) ** (e - p + 1)              # in [2^(p-1), 2^p)
    n = q.numerator // q.denominator
    r = q - n
    if r > Fr(1, 2) or (r == Fr(1, 2) and n % 2 == 1):
        n += 1
    return s * n * Fr(2) ** (e - p + 1)


def cody_waite_error(ex, term, K, kmax, p):
    """largest rounding error (Fraction, absolute) of a separately rounded product K*c in the reduction, over every
    integer |K| <= kmax: the Cody-Waite reduction needs the leading product to be exact when it is not fused"""
    worst, site = Fr(0), None
    for t in walk_terms(term):
        if t.name != 'fmul':
            continue
        cs = [o for o in t.ops if T.is_const(o)]
        os_ = [o for o in t.ops if not T.is_const(o)]
        if len(cs) != 1 or len(os_) != 1:
            continue
        try:
            c = RFN.fconst(cs[0])
            kc = ex.cases(os_[0])
        except NotReal:
            continue
        if len(kc) != 1 or kc[0][1].den != RFN.p_const(1) or set(kc[0][1].num) != set([((K, 1),)]):
            continue
        e = max(abs(fl_round(c * k, p) - c * k) for k in range(1, kmax + 1))
        if e > worst:
            worst, site = e, float(c)
    return worst, site


def rne(x):
    """nearest integer of a Fraction, ties to even"""
    import math
    f = math.floor(x)
    r = x - f
    if r > Fr(1, 2) or (r == Fr(1, 2) and f % 2 == 1):
        return f + 1
    return f


def nextfloat(v, direction, p):
    """the neighbour of the p-bit float v (a Fraction, normal range) towards +inf (direction +1) / -inf (-1)"""
    if v == 0:
        return v
    a = abs(v)
    e = a.numerator.bit_length() - a.denominator.bit_length()
    if Fr(2) ** e > a:
        e -= 1
    ulp = Fr(2) ** (e - p + 1)
    if (direction > 0) == (v > 0):
        return v + ulp if v > 0 else v - ulp
    # towards zero: the ulp below a power of two is half as large
    if a == Fr(2) ** e:
        ulp /= 2
    return v - ulp if v > 0 else v + ulp


def scale_range(ex, conds, X, S, c, w, bits):
    """graceful saturation (statement of C10/C11), the structural part: on the arguments that the saturation selects let
    through to the kernel, K = nearbyint(c x) must give a valid exponent field -- the scale 2^K is built as the bit pattern
    (K + bias) << mantissa bits, which is +0 for K + bias = 0, +inf for 2 bias + 1, and wraps into the SIGN bit outside
    [0, 2 bias + 1] (a negative or NaN-patterned scale: -inf / garbage results next to the thresholds)"""
    st = T.single_term(ex.atoms[S])
    if st is not None and st.name == 'pow2floor':
        return {'form': 'scalef (hardware scaling saturates)', 'ok': True}
    lo = hi = None
    p = 24 if bits == 32 else 53
    condmap = getattr(ex, 'conds', {})
    for (ck, taken) in conds:
        t = T.single_term(T.canon(condmap[ck])) if ck in condmap else None
        if t is None or not (t.name.startswith('f') and t.name[1:] in ('olt', 'ole', 'ult', 'ule')):
            continue
        a, b = T.canon(t.ops[0]), T.canon(t.ops[1])
        xa, xb = T._key(a) == T._key(ex.atoms[X]), T._key(b) == T._key(ex.atoms[X])
        strict = t.name[2:] == 'lt'
        try:
            if xa and T.is_const(b):          # x < C  (taken) / x >= C (not taken)
                v = RFN.fconst(b)
                if taken:
                    v = nextfloat(v, -1, p) if strict else v
                    hi = v if hi is None else min(hi, v)
                else:
                    v = v if strict else nextfloat(v, +1, p)
                    lo = v if lo is None else max(lo, v)
            elif xb and T.is_const(a):        # C < x
                v = RFN.fconst(a)
                if taken:
                    v = nextfloat(v, +1, p) if strict else v
                    lo = v if lo is None else max(lo, v)
                else:
                    v = v if strict else nextfloat(v, -1, p)
                    hi = v if hi is None else min(hi, v)
        except NotReal:
            continue
    bias = 127 if bits == 32 else 1023
    out = {'form': 'exponent field', 'x_range': (float(lo) if lo is not None else None, float(hi) if hi is not None else None)}
    if lo is None or hi is None:
        out.update(ok=False, why='the kernel is not guarded on both sides by comparisons of the argument with constants')
        return out
    # K is monotone in the (floating-point) argument: its extremes are taken at the end points, computed exactly as the
    # code does: the product c x rounded to the format, then rounded to the nearest integer, ties to even
    kmin, kmax = rne(fl_round(c * lo, p)), rne(fl_round(c * hi, p))
    out.update(k_range=(kmin, kmax), ok=(kmin + bias >= 0 and kmax + bias <= 2 * bias + 1))
    if not out['ok']:
        out['why'] = 'for x in [%.17g, %.17g] K = nearbyint(%.9g x) ranges over [%d, %d]: K + %d leaves [0, %d], the exponent field wraps into the sign bit' % (float(lo), float(hi), float(c), kmin, kmax, bias, 2 * bias + 1)
    return out


# ---------------------------------------------------------------- the exp family: b^X = 2^K * b^(X - K log_b 2)
def analyse_exp(mod, fname, base, bits):
    term, w = lane_term(mod, fname)
    ex = RFN.Extract()
    cs = strip_special(ex.cases(term), ex)
    if len(cs) != 1:
        raise Mismatch('%d arithmetic cases, the template has one' % len(cs))
    f = cs[0][1]
    kinds = classify_atoms(ex, f.atoms())
    if sorted(kinds) != ['K', 'S', 'X'] or any(len(v) != 1 for v in kinds.values()):
        raise Mismatch('atoms %s, the template has X, K = nearbyint(c X), S = 2^K' % dict((k, len(v)) for k, v in kinds.items()))
    X, K, S = kinds['X'][0], kinds['K'][0], kinds['S'][0]
    if not pow2_atom_ok(ex.atoms[S], ex.atoms[K], w):
        raise Mismatch('the scaling atom is not 2^K')
    kt = T.single_term(ex.atoms[K])
    arg = kt.ops[0]
    at = T.single_term(arg)
    if at is not None and at.kind == 'arg':
        c = Fr(1)
    elif at is not None and at.name == 'fmul' and any(T.is_const(o) for o in at.ops) and any(T._key(T.canon(o)) == T._key(ex.atoms[X]) for o in at.ops):
        c = [RFN.fconst(o) for o in at.ops if T.is_const(o)][0]
    else:
        raise Mismatch('K is not nearbyint(c * X)')
    if c <= 0:
        raise Mismatch('non-positive reduction factor')
    scale = scale_range(ex, cs[0][0], X, S, c, w, bits)
    g = divide_by_atom(f, S)
    # the reduced argument: g depends on (X, K) through u = X - lam_code * K only
    cx, ck = g.num.get(((X, 1),)), g.num.get(((K, 1),))
    if not cx or ck is None:
        raise Mismatch('no linear term in X / K')
    lam_code = -ck / cx
    uK = RFN.p_add(RFN.p_atom(X), RFN.p_atom(K), lam_code)          # X := u + lam K  (u reuses the atom X)
    gu = g.subst(X, uK)
    if K in gu.atoms():
        raise Mismatch('the kernel does not depend on X and K through X - %s K alone' % float(lam_code))
    N, D = Q.Poly(RFN.p_univariate(gu.num, X)), Q.Poly(RFN.p_univariate(gu.den, X))
    # mathematical constants
    lnb = {'e': Q.QI(1), '2': Q.ln2(), '10': Q.ln10()}[base]
    lam = {'e': Q.ln2(), '2': Q.QI(1), '10': Q.ln2() / Q.ln10()}[base]
    delta = (Q.QI(lam_code) - lam).mag()
    p = 24 if bits == 32 else 53
    kmax = 130 if bits == 32 else 1030
    half = Fr(1, 2) + Fr(kmax + 1, 1 << p)
    U = half / c + kmax * abs(1 / c - lam_code)
    U = U * Fr(1025, 1024)
    ser = Q.exp_series(U, lnb, eps_bits=(50 if bits == 32 else 85))
    diff = N.to_qi() - ser.poly * D.to_qi()
    try:
        # |N/D - b^u| <= (|N - T D| + tail |D|) / |D|
        abs_err = Q.sup_ratio(diff, D, -U, U, 96, ser.tail)
    except ZeroDivisionError:
        raise Mismatch('denominator may vanish on the reduced domain')
    bmin = 1 / ser.poly.to_qi().ev(Q.QI(U)).widen(ser.tail).hif()      # b^-U >= 1 / upper(b^U)
    rho_kernel = abs_err / bmin
    y = kmax * delta * lnb.mag()                      # |K| |lam_code - lam| ln b
    kappa = y / (1 - y) if y < 1 else Fr(10 ** 6)
    rho = rho_kernel * (1 + kappa) + kappa
    cw, cw_site = cody_waite_error(ex, term, K, kmax, p)
    rho_cw = cw * lnb.mag()                           # an absolute error of the reduced argument is this relative error of b^u
    rho = rho + rho_cw
    return {'scale': scale, 'cody_waite_ulp': float(ulps(rho_cw, bits)), 'cody_waite_site': cw_site,'reduced_domain': float(U), 'lambda_code': float(lam_code), 'delta': float(delta), 'kmax': kmax, 'c': float(c),
            'kernel_rel_err': float(rho_kernel), 'const_rel_err': float(kappa), 'ulp': float(ulps(rho, bits)), 'ulp_exact': ulps(rho, bits),
            'degree': (N.deg(), D.deg())}


# ---------------------------------------------------------------- the log family: log_b X = DK log_b 2 + log_b M,  X = M 2^DK
def bv_range(bv):
    """(lo, hi) of the unsigned value of a bit vector, from its structure: constants, zero pieces, const + small sums"""
    lo = hi = 0
    sh = 0
    for pce in bv:
        w = T.pw(pce)
        if pce[0] == 'c':
            a = b = pce[2]
        elif pce[0] == 's' and pce[2] == 0 and pce[3] == pce[1].width and pce[1].name.startswith('sum') and pce[1].attrs and tuple(pce[1].attrs[1]) == (1,) and len(pce[1].ops) == 1:
            c0 = pce[1].attrs[0]
            (a1, b1) = bv_range(pce[1].ops[0])
            a, b = c0 + a1, c0 + b1
            if b >= (1 << w):
                a, b = 0, (1 << w) - 1
        else:
            a, b = 0, (1 << w) - 1
        lo |= a << sh
        hi |= b << sh
        sh += w
    return lo, hi


def bits_to_fr(v, w):
    import struct
    x = struct.unpack('<f', struct.pack('<I', v))[0] if w == 32 else struct.unpack('<d', struct.pack('<Q', v))[0]
    return Fr(x)


def analyse_log(mod, fname, base, bits):
    term, w = lane_term(mod, fname)
    ex = RFN.Extract()
    cs = strip_special(ex.cases(term), ex)
    if not cs or len(cs) > 4:
        raise Mismatch('%d arithmetic cases' % len(cs))
    worst = None
    for (_c, f_) in cs:
        r_ = _analyse_log_case(ex, f_, w, base, bits)
        if worst is None or r_['ulp_exact'] > worst['ulp_exact']:
            worst = r_
    worst['select_cases'] = len(cs)
    return worst


def _analyse_log_case(ex, f, w, base, bits):
    M = DK = None
    for i in sorted(f.atoms()):
        t = T.single_term(ex.atoms[i])
        if t is not None and t.name.startswith('sitofp'):
            if DK is not None:
                raise Mismatch('two int->float atoms')
            DK = i
        else:
            (blo, bhi) = bv_range(ex.atoms[i])
            top = 1 << (w - 1)
            if bhi < top and blo > 0 and Fr(1, 2) < bits_to_fr(blo, w) and bits_to_fr(bhi, w) < 2:
                if M is not None:
                    raise Mismatch('two mantissa atoms')
                M = i
                mlo, mhi = bits_to_fr(blo, w), bits_to_fr(bhi, w)
            else:
                raise Mismatch('unexpected atom %s' % T.fmt(ex.atoms[i], 4)[:120])
    if M is None or DK is None:
        raise Mismatch('the template needs a mantissa atom M in (1/2, 2) and DK = (float)k')
    if DK in RFN.p_atoms(f.den):
        raise Mismatch('exponent atom in a denominator')
    # f = N0(M) + DK N1(M) over D(M), with N1 = alpha D
    N0, N1 = {}, {}
    for m, v in f.num.items():
        d = dict(m)
        e = d.pop(DK, 0)
        if e > 1:
            raise Mismatch('the result is not linear in the exponent')
        (N1 if e else N0)[tuple(sorted(d.items()))] = v
    n1, n0, dd = Q.Poly(RFN.p_univariate(N1, M)), Q.Poly(RFN.p_univariate(N0, M)), Q.Poly(RFN.p_univariate(f.den, M))
    lead = [i for i, x in enumerate(dd.c) if x != 0][-1]
    if n1.deg() != dd.deg():
        raise Mismatch('exponent coefficient is not a constant')
    alpha = n1.c[lead] / dd.c[lead]
    if any(x != 0 for x in (n1 - dd * alpha).c):
        raise Mismatch('exponent coefficient is not a constant')
    shift = Q.Poly([Fr(1), Fr(1)])                     # M = 1 + f
    n0f, df = n0.compose(shift), dd.compose(shift)
    n0p = n0f.shift_down(1)                            # g(f)/f: g(0) = 0 exactly
    flo, fhi = mlo - 1, mhi - 1
    R = max(abs(flo), abs(fhi)) * Fr(1025, 1024)
    if R >= Fr(3, 4):
        raise Mismatch('mantissa range too wide')
    lnb = {'e': Q.QI(1), '2': Q.ln2(), '10': Q.ln10()}[base]
    lam = Q.ln2() / lnb
    ser = Q.log1p_over_x_series(R, eps_bits=(50 if bits == 32 else 85))
    Lb = ser.poly.to_qi() * lnb.inv()                  # log_b(1+f)/f
    tail = ser.tail * lnb.inv().mag()
    lo_, hi_ = flo - abs(flo) / 1024, fhi + abs(fhi) / 1024
    diff = n0p.to_qi() - Lb * df.to_qi()
    try:
        q_err = Q.sup_ratio(diff, df, lo_, hi_, 128, tail)                                  # |g/f - log_b(1+f)/f|
    except ZeroDivisionError:
        raise Mismatch('denominator may vanish on the reduced domain')
    L_rng = Q.range_qi(Lb, lo_, hi_, 64).widen(tail)
    rel0 = q_err / L_rng.mig()                                                               # exponent 0
    e_abs = q_err * R
    maxlog = L_rng.mag() * R                                                                 # |log_b M|
    dalpha = (Q.QI(alpha) - lam).mag()
    rel1 = (e_abs + dalpha) / (lam.lof() - maxlog) if lam.lof() > maxlog else Fr(10 ** 6)   # |exponent| >= 1 (worst at 1)
    rho = max(rel0, rel1)
    p = 24 if bits == 32 else 53
    return {'mantissa_range': (float(mlo), float(mhi)), 'alpha_code': float(alpha), 'delta': float(dalpha), 'rel_err_exponent0': float(rel0), 'rel_err_exponent_ne0': float(rel1),
            'kernel_rel_err': float(rel0), 'const_rel_err': float(dalpha / (lam.lof() - maxlog)) if lam.lof() > maxlog else 1e6,
            'ulp': float(ulps(rho, bits)), 'ulp_exact': ulps(rho, bits), 'degree': (n0p.deg(), df.deg())}


TRIG = ['sin', 'cos', 'tan']
INV = ['atan', 'asin']
# ---------------------------------------------------------------- expm1: e^X - 1 = 2^K e^(X - K ln 2) - 1
def analyse_expm1(mod, fname, base, bits):
    term, w = lane_term(mod, fname)
    ex = RFN.Extract()
    cs = strip_special(ex.cases(term), ex)
    if not cs or len(cs) > 4:
        raise Mismatch('%d arithmetic cases' % len(cs))
    worst = None
    for (_c, f) in cs:
        r_ = _expm1_case(ex, term, f, w, bits)
        if worst is None or r_['ulp_exact'] > worst['ulp_exact']:
            worst = r_
    worst['select_cases'] = len(cs)
    return worst


def _expm1_case(ex, term, f, w, bits):
    one, mant = (0x3f800000, 23) if w == 32 else (0x3ff0000000000000, 52)
    X = K = S = S2 = None
    for i in sorted(f.atoms()):
        bv = ex.atoms[i]
        t = T.single_term(bv)
        if t is not None and t.kind == 'arg':
            X = i
        elif t is not None and is_round_nearest(t):
            K = i
        elif t is not None and t.name.startswith('sum') and t.attrs and t.attrs[0] == one and len(t.attrs[1]) == 1:
            cf = t.attrs[1][0] % (1 << w)
            if cf == (1 << mant):
                S = i
            elif cf == (1 << w) - (1 << mant):
                S2 = i                                   # bits(1.0) - (k << mant): 2^-k
            else:
                raise Mismatch('unexpected exponent construction')
        elif t is not None and t.name == 'pow2floor':
            S = i
        elif t is None and len(bv) == 2 and bv[0] == ('c', mant, 0) and bv[1][0] == 's' and bv[1][2] == 0 and bv[1][3] == bv[1][1].width == w - mant \
                and bv[1][1].name.startswith('sum') and bv[1][1].attrs and bv[1][1].attrs[0] == (one >> mant) and len(bv[1][1].attrs[1]) == 1:
            # the same scale built on the exponent field alone: [mantissa zeros ++ bias +- k]
            cf = bv[1][1].attrs[1][0] % (1 << (w - mant))
            if cf == 1:
                S = i
            elif cf == (1 << (w - mant)) - 1:
                S2 = i
            else:
                raise Mismatch('unexpected exponent construction')
        else:
            raise Mismatch('unexpected atom %s' % T.fmt(bv, 4)[:100])
    if X is None or K is None or S is None:
        raise Mismatch('the template needs X, K = nearbyint(c X), S = 2^K')
    kt = T.single_term(ex.atoms[K])
    at = T.single_term(T.canon(kt.ops[0]))
    if at is None or at.name != 'fmul':
        raise Mismatch('K is not nearbyint(c * X)')
    c = [RFN.fconst(o) for o in at.ops if T.is_const(o)][0]
    g = f
    if S2 is not None:
        g = g.subst_rf(S2, RFN.p_const(1), RFN.p_atom(S))          # 2^-k = 1 / 2^k
    # g = (S^2 a + S b) / (S d)  or  (S a + b) / d
    def split(p):
        out = {}
        for m, v in p.items():
            d_ = dict(m)
            e = d_.pop(S, 0)
            out.setdefault(e, {})[tuple(sorted(d_.items()))] = v
        return out
    ns, ds = split(g.num), split(g.den)
    if ds and min(ds) == 1 and len(ds) == 1 and min(ns) >= 1:
        ns = dict((e - 1, p_) for e, p_ in ns.items())
        ds = {0: ds[1]}
    if set(ds) != set([0]) or not set(ns) <= set([0, 1]) or 1 not in ns:
        raise Mismatch('the result is not S A(u) + B')
    d_, a_, b_ = ds[0], ns[1], ns.get(0, {})
    if RFN.p_add(b_, d_) != {}:
        # 2^K A(u) + c with a constant c != -1 is a recognisable WRONG function (expm1 tends to -1 as 2^K -> 0), not an
        # unknown shape: a verdict, not a template mismatch
        m0 = sorted(d_)[0] if d_ else None
        if m0 is not None and m0 in b_ and RFN.p_add(b_, d_, -(b_[m0] / d_[m0])) == {}:
            cc = b_[m0] / d_[m0]
            return {'ulp_exact': Fr(10 ** 9), 'ulp': float('inf'), 'kernel_rel_err': 1.0, 'const_rel_err': 0.0, 'cody_waite_ulp': 0.0, 'cody_waite_site': None,
                    'why': 'the value is 2^K A(u) + c with c = %s on this select case: expm1 needs c = -1 (the result is off by %s)' % (cc, cc + 1)}
        raise Mismatch('the additive term is not -1')
    A = RFN.RF(a_, d_)
    cx, ck = A.num.get(((X, 1),)), A.num.get(((K, 1),))
    # the reduced argument from the linear terms of the numerator of A - 1
    Am1 = RFN.RF(RFN.p_add(A.num, A.den, -1), A.den)
    cx, ck = Am1.num.get(((X, 1),)), Am1.num.get(((K, 1),))
    if not cx or ck is None:
        raise Mismatch('no linear term in X / K')
    lam_code = -ck / cx
    Au = A.subst(X, RFN.p_add(RFN.p_atom(X), RFN.p_atom(K), lam_code))
    if K in Au.atoms():
        raise Mismatch('the kernel does not depend on X and K through X - lam K alone')
    N, D = Q.Poly(RFN.p_univariate(Au.num, X)), Q.Poly(RFN.p_univariate(Au.den, X))
    p = 24 if bits == 32 else 53
    kmax = 130 if bits == 32 else 1030
    lam = Q.ln2()
    delta = (Q.QI(lam_code) - lam).mag()
    half = Fr(1, 2) + Fr(kmax + 1, 1 << p)
    U = (half / c + kmax * abs(1 / c - lam_code)) * Fr(1025, 1024)
    eb = 50 if bits == 32 else 85
    # K = 0: ((A - 1)/u) against (e^u - 1)/u
    Nm = N - D
    if Nm.c[0] != 0:
        raise Mismatch('A(0) != 1')
    ser1 = Q.expm1_over_x_series(U, eps_bits=eb)
    diff1 = Nm.shift_down(1).to_qi() - ser1.poly.to_qi() * D.to_qi()
    try:
        q1 = Q.sup_ratio(diff1, D, -U, U, 96, ser1.tail)
        e1rng = Q.range_qi(ser1.poly.to_qi(), -U, U, 32).widen(ser1.tail)
        rel0 = q1 / e1rng.mig()
        # K != 0: |A - e^u| S / |S e^u - 1| <= 3.5 |A/e^u - 1| (S e^u >= 2 e^-U or <= e^U / 2)
        ser = Q.exp_series(U, Q.QI(1), eps_bits=eb)
        diff = N.to_qi() - ser.poly * D.to_qi()
        abs_err = Q.sup_ratio(diff, D, -U, U, 96, ser.tail)
    except ZeroDivisionError:
        raise Mismatch('denominator may vanish on the reduced domain')
    emax = ser.poly.to_qi().ev(Q.QI(U)).widen(ser.tail).hif()
    emin = 1 / emax
    amp = max(2 * emin / (2 * emin - 1), (emax / 2) / (1 - emax / 2))      # S e^u / |S e^u - 1| at K = 1 / K = -1
    y = kmax * delta
    kappa = y / (1 - y) if y < 1 else Fr(10 ** 6)
    relk = amp * ((abs_err / emin) * (1 + kappa) + kappa)
    cw, cw_site = cody_waite_error(ex, term, K, kmax, p)
    rho = max(rel0, relk) + amp * cw
    return {'reduced_domain': float(U), 'lambda_code': float(lam_code), 'delta': float(delta), 'kmax': kmax, 'rel_err_k0': float(rel0), 'rel_err_k_ne0': float(relk),
            'kernel_rel_err': float(rel0), 'const_rel_err': float(amp * kappa), 'cody_waite_ulp': float(ulps(amp * cw, bits)), 'cody_waite_site': cw_site,
            'ulp': float(ulps(rho, bits)), 'ulp_exact': ulps(rho, bits), 'degree': (N.deg(), D.deg())}


# ---------------------------------------------------------------- hypot: exactly sqrt(x^2 + y^2) as a real function
def analyse_hypot(mod, fname, base, bits):
    term, w = lane_term(mod, fname)
    ex = RFN.Extract()
    cs = strip_special(ex.cases(term), ex)
    if len(cs) != 1:
        raise Mismatch('%d arithmetic cases, the template has one' % len(cs))
    f = cs[0][1]
    ats = sorted(f.atoms())
    if len(ats) != 1 or f.den != RFN.p_const(1) or f.num != RFN.p_atom(ats[0]):
        raise Mismatch('the result is not a bare square root')
    t = T.single_term(ex.atoms[ats[0]])
    if t is None or not t.name.startswith(('sqrt', 'x86.sqrt', 'call:llvm.sqrt', 'llvm.sqrt')):
        raise Mismatch('the result is not a square root')
    inner = ex.cases(t.ops[0])
    if len(inner) != 1 or inner[0][1].den != RFN.p_const(1):
        raise Mismatch('the radicand is not a polynomial')
    pn = inner[0][1].num
    args_ = sorted(RFN.p_atoms(pn))
    ok = len(args_) == 2 and all(T.single_term(ex.atoms[a]) is not None and T.single_term(ex.atoms[a]).kind == 'arg' for a in args_) and \
        pn == {((args_[0], 2),): Fr(1), ((args_[1], 2),): Fr(1)}
    if not ok:
        # the real function is not sqrt(x^2 + y^2): an unbounded relative error somewhere
        return {'radicand': 'not x^2 + y^2', 'kernel_rel_err': 1.0, 'const_rel_err': 0.0, 'ulp': float('inf'), 'ulp_exact': Fr(10 ** 9)}
    return {'radicand': 'x^2 + y^2 (exact)', 'kernel_rel_err': 0.0, 'const_rel_err': 0.0, 'ulp': 0.0, 'ulp_exact': Fr(0)}


FUNCS = [('exp', analyse_exp, 'e'), ('exp2', analyse_exp, '2'), ('exp10', analyse_exp, '10'),
         ('log', analyse_log, 'e'), ('log2', analyse_log, '2'), ('log10', analyse_log, '10'),
         # log1p(x) = k ln 2 + log m with 1 + x = m 2^k (the correction term for the rounding of 1 + x is zero in the real reading)
         ('log1p', analyse_log, 'e'),
         ('expm1', analyse_expm1, 'e'), ('hypot', analyse_hypot, None)]


def applicable(fn, bits, cfgname):
    """the log family for double needs the direct int64->double conversion (the emulated conversions of the narrower
    instruction sets are bit constructions, decided as conversions by C06)"""
    if fn in ('log', 'log2', 'log10', 'log1p') and bits == 64:
        return cfgname.startswith('avx512')
    return True


GROUPS = ('explog', 'trig', 'inv', 'cont', 'dir', 'erfc', 'paths')
# small-argument odd kernels compared with their Taylor series: function -> precisions that have such a kernel
DIRF = {'sinh': (32, 64), 'tanh': (32, 64), 'asinh': (32,), 'erf': (32,)}
BINADES = [True]      # the binade-boundary clause (every binade of the normal range) -- quick tier: first configuration only
# tier continuity: function -> the property's bound in ulp (float column / double column; None = no frozen bound known here)
CONT = {'exp': (4.5, 4.5), 'exp2': (4.5, 4.5), 'exp10': (4.5, 4.5), 'expm1': (4.5, 4.5), 'log': (4.5, 4.5), 'log2': (4.5, 4.5), 'log10': (4.5, 4.5), 'log1p': (4.5, 4.5),
        'sin': (4.5, 4.5), 'cos': (4.5, 4.5), 'tan': (4.5, 4.5), 'asin': (4.5, 4.5), 'acos': (4.5, 4.5), 'atan': (4.5, 4.5), 'sinh': (4.5, 4.5), 'cosh': (4.5, 4.5), 'tanh': (4.5, 4.5),
        'asinh': (4.5, 4.5), 'acosh': (4.5, 4.5), 'atanh': (4.5, 4.5), 'cbrt': (4.5, 4.5), 'erf': (4.5, 128), 'erfc': (128, 65536), 'lgamma': (8, None)}
ABS_FLOOR = {'lgamma': Fr(1)}            # lgamma: 8 ulp of max(|result|, 1)
# functions that take part in the path-agreement clause only (no kernel or continuity clause): tgamma, bound 16 ulp frozen
# here (DESIGN 8.6).  Its cells also carry the intermediate-overflow rule (seeded change C11-7).
PATHS_ONLY = {'tgamma': (16, 16)}
# erf / erfc in double: C11 leaves the bound to this table; 128 ulp resp. 2^16 ulp are what the documented kernels
# (erfc2 on [0.65, 2.2], erfc3 on [2.2, 6]) deliver: established method error 68 ulp resp. 4.0e4 ulp at x = 2.2 (DESIGN 8.6)
ERFC = {'erf': (Fr(6), Fr(6)), 'erfc': (Fr(73, 8), Fr(53, 2))}          # analysed up to this argument (float, double): beyond, erfc is below 4*MIN / erf is 1


def analyse(job):
    cfgname, bits, group = job[:3]
    BINADES[0] = job[3] if len(job) > 3 else True
    c = CF.BY_NAME[cfgname]
    text, names = c14.math_tu(c.arch)
    ll, err = build.compile_tu(text, c.flags)
    if ll is None:
        return {'cfg': cfgname, 'broken': 'math wrapper TU does not compile: %s' % err[-400:]}
    mod = ir.load_ll(ll)
    tn = 'f32' if bits == 32 else 'f64'
    out = {'cfg': cfgname, 'res': []}
    from . import c10trig, c10inv, c10cont
    for fn in (sorted(CONT) if group == 'cont' else ()):
        bound = CONT[fn][0 if bits == 32 else 1]
        if bound is None:
            continue
        key = 'continuity|%s|%s|%s' % (fn, tn, cfgname)
        thr = Fr(bound) + ROUNDING_ALLOWANCE_ULP
        try:
            cr = c10cont.analyse_cont(mod, 'm_%s_%s' % (fn, tn), bits, thr, binades=BINADES[0], abs_floor=ABS_FLOOR.get(fn))
        except (Mismatch, NotReal) as e:
            out['res'].append((key, 'skip', {'why': str(e)[:200]}))
            continue
        except Exception as e:          # a path the evaluator cannot follow: no verdict for this function
            out['res'].append((key, 'skip', {'why': 'not analysed: %s %s' % (type(e).__name__, str(e)[:160])}))
            continue
        bad = [b for b in cr['boundaries'] if not b['ok']]
        summary = {'boundaries': [(b['x0'], round(b['jump_ulp'], 3)) for b in cr['boundaries']], 'skipped_points': cr['skipped'][:8], 'paths': cr['paths'],
                   'ulp': max([b['jump_ulp'] for b in cr['boundaries']] or [0.0]), 'threshold_jump_ulp': float(2 * thr), 'kernel_rel_err': 0.0, 'const_rel_err': 0.0, 'n_boundaries': len(cr['boundaries']), 'binade_boundaries': cr.get('binade_boundaries', 0)}
        if bad:
            summary['bad_boundary'] = bad[0]
            out['res'].append((key, 'bad', summary))
        else:
            out['res'].append((key, 'ok', summary))
    from . import c10erfc
    for fn in (sorted(ERFC) if group == 'erfc' else ()):
        bound = CONT[fn][0 if bits == 32 else 1]
        key = 'kernel|%s-exp-tiers|%s|%s' % (fn, tn, cfgname)
        thr = Fr(bound) + ROUNDING_ALLOWANCE_ULP
        try:
            er = c10erfc.analyse_erfc(mod, 'm_%s_%s' % (fn, tn), fn, bits, thr, ERFC[fn][0 if bits == 32 else 1])
        except (Mismatch, NotReal) as e:
            out['res'].append((key, 'mismatch', {'why': str(e)[:300]}))
            continue
        except (ValueError, KeyError, IndexError, ZeroDivisionError, RecursionError, TypeError, AttributeError) as e:
            out['res'].append((key, 'mismatch', {'why': 'analysis error %r' % (e,)}))
            continue
        pcs = er['pieces']
        mism = [q for q in pcs if q['verdict'] == 'mismatch']
        bad = [q for q in pcs if q['verdict'] == 'bad']
        okc = [q for q in pcs if q['verdict'] == 'ok']
        summary = {'pieces': len(pcs), 'paths': er['paths'], 'ulp': max([q['ulp'] for q in okc] or [0.0]), 'bound_ulp': float(bound), 'kernel_rel_err': 0.0, 'const_rel_err': 0.0,
                   'worst_pieces': sorted([(round(q['ulp'], 3), q['piece'], q['path']) for q in okc], reverse=True)[:4], 'skipped': er['skipped'][:4]}
        if bad:
            # one report per maximal run of adjacent bad pieces on the same path
            b0 = max(bad, key=lambda q: q['ulp'])
            summary.update(bad_piece=b0, bad_range=(min(q['piece'][0] for q in bad), max(q['piece'][1] for q in bad)), n_bad=len(bad), ulp=b0['ulp'])
            out['res'].append((key, 'bad', summary))
        elif mism:
            out['res'].append((key, 'mismatch', {'why': 'piece %s path %s: %s' % (mism[0]['piece'], mism[0]['path'], mism[0].get('why'))}))
        elif len(okc) < 10:
            out['res'].append((key, 'mismatch', {'why': 'only %d pieces analysed' % len(okc)}))
        else:
            out['res'].append((key, 'ok', summary))
    for fn in (sorted(list(CONT) + list(PATHS_ONLY)) if group == 'paths' else ()):
        bound = (CONT.get(fn) or PATHS_ONLY[fn])[0 if bits == 32 else 1]
        if bound is None:
            continue
        key = 'paths|%s|%s|%s' % (fn, tn, cfgname)
        thr = Fr(bound) + ROUNDING_ALLOWANCE_ULP
        try:
            pr = c10cont.analyse_paths(mod, 'm_%s_%s' % (fn, tn), bits, thr, abs_floor=ABS_FLOOR.get(fn))
        except Exception as e:          # a path the evaluator cannot follow: no verdict for this function
            out['res'].append((key, 'skip', {'why': 'not analysed: %s %s' % (type(e).__name__, str(e)[:160])}))
            continue
        if pr['paths'] < 2:
            continue                    # straight-line function: nothing depends on the other lanes
        bad = [q for q in pr['cells'] if not q['ok']]
        summary = {'paths': pr['paths'], 'cells': [(q['x'], q['paths'], round(q['spread_ulp'], 3)) for q in pr['cells']], 'ulp': max([q['spread_ulp'] for q in pr['cells']] or [0.0]), 'n_cells': len(pr['cells']),
                   'threshold_spread_ulp': float(2 * thr), 'kernel_rel_err': 0.0, 'const_rel_err': 0.0, 'dropped_paths': pr['dropped_paths'], 'skipped': pr['skipped'][:4]}
        if pr.get('overflow_cells'):
            summary['overflow_cell'] = pr['overflow_cells'][0]
            summary['n_overflow_cells'] = len(pr['overflow_cells'])
            out['res'].append((key, 'bad', summary))
        elif bad:
            summary['bad_cell'] = max(bad, key=lambda q: q['spread_ulp'])
            out['res'].append((key, 'bad', summary))
        else:
            out['res'].append((key, 'ok', summary))
    from . import c10dir
    for fn in (sorted(DIRF) if group == 'dir' else ()):
        if bits not in DIRF[fn]:
            continue
        key = 'kernel|%s|%s|%s' % (fn, tn, cfgname)
        try:
            dr = c10dir.analyse_dir(mod, 'm_%s_%s' % (fn, tn), fn, bits, THR)
        except (Mismatch, NotReal) as e:
            out['res'].append((key, 'mismatch', {'why': str(e)[:300]}))
            continue
        except (ValueError, KeyError, IndexError, ZeroDivisionError, RecursionError, TypeError, AttributeError) as e:
            out['res'].append((key, 'mismatch', {'why': 'analysis error %r' % (e,)}))
            continue
        cases = dr['cases']
        bad = [c_ for c_ in cases if c_['verdict'] == 'bad']
        okc = [c_ for c_ in cases if c_['verdict'] == 'ok']
        summary = {'cases': len(cases), 'ulp': max([c_['ulp'] for c_ in okc] or [0.0]), 'kernel_rel_err': 0.0, 'const_rel_err': 0.0,
                   'pieces': [(c_['x_range'], round(c_['ulp'], 4), c_['degree']) for c_ in okc]}
        if bad:
            b0 = bad[0]
            summary.update(bad_case={'path': 'small-argument kernel', 'x_range': b0['x_range'], 'u_range': b0['x_range'], 'ulp': b0['ulp'], 'kernel_ulp': b0['ulp'],
                                     'reduction_const_ulp': 0.0, 'cody_waite_ulp': 0.0, 'why': b0.get('why', 'the odd kernel x(1 + x^2 R(x^2)) is compared with the Taylor series of the function')}, ulp=b0['ulp'])
            out['res'].append((key, 'bad', summary))
        elif not okc:
            out['res'].append((key, 'mismatch', {'why': 'no small-argument kernel case found (%d paths)' % dr['paths']}))
        else:
            out['res'].append((key, 'ok', summary))
    for fn in ((INV + ['acos']) if group == 'inv' else ()):
        key = 'kernel|%s|%s|%s' % (fn, tn, cfgname)
        try:
            if fn == 'acos':
                tr = c10inv.analyse_inv_pieces(mod, 'm_%s_%s' % (fn, tn), fn, bits, THR)
            else:
                tr = c10inv.analyse_inv(mod, 'm_%s_%s' % (fn, tn), fn, bits, THR)
        except (Mismatch, NotReal) as e:
            out['res'].append((key, 'mismatch', {'why': str(e)[:300]}))
            continue
        except (ValueError, KeyError, IndexError, ZeroDivisionError, RecursionError, TypeError, AttributeError) as e:
            out['res'].append((key, 'mismatch', {'why': 'analysis error %r' % (e,)}))
            continue
        cases = tr['cases']
        mism = [c_ for c_ in cases if c_['verdict'] in ('mismatch', 'skipped')]
        bad = [c_ for c_ in cases if c_['verdict'] == 'bad']
        okc = [c_ for c_ in cases if c_['verdict'] == 'ok']
        summary = {'cases': len(cases), 'cases_ok': len(okc), 'ulp': max([c_['ulp'] for c_ in okc] or [0.0]), 'kernel_rel_err': 0.0, 'const_rel_err': 0.0,
                   'pieces': [(c_['x_range'], round(c_['ulp'], 4), c_.get('offset_multiple_of_pio4'), c_.get('slope'), tuple(round(v, 5) for v in c_.get('u_range', (0, 0)))) for c_ in okc]}
        if bad:
            b0 = bad[0]
            summary.update(bad_case=dict(b0, path='select case'), ulp=b0['ulp'])
            out['res'].append((key, 'bad', summary))
        elif mism:
            out['res'].append((key, 'mismatch', {'why': 'case %s: %s' % (mism[0].get('x_range'), mism[0].get('why', ''))}))
        elif len(okc) < 2:
            out['res'].append((key, 'mismatch', {'why': 'only %d analysable cases found' % len(okc)}))
        else:
            out['res'].append((key, 'ok', summary))
    for fn in (TRIG if group == 'trig' else ()):
        key = 'kernel|%s|%s|%s' % (fn, tn, cfgname)
        try:
            tr = c10trig.analyse_trig(mod, 'm_%s_%s' % (fn, tn), fn, bits, THR)
        except (Mismatch, NotReal) as e:
            out['res'].append((key, 'mismatch', {'why': str(e)[:300]}))
            continue
        except (ValueError, KeyError, IndexError, ZeroDivisionError, RecursionError, TypeError, AttributeError) as e:
            out['res'].append((key, 'mismatch', {'why': 'analysis error %r' % (e,)}))
            continue
        cases = tr['cases']
        mism = [c_ for c_ in cases if c_['verdict'] == 'mismatch']
        bad = [c_ for c_ in cases if c_['verdict'] == 'bad']
        okc = [c_ for c_ in cases if c_['verdict'] == 'ok']
        summary = {'paths': tr['paths'], 'cases': len(cases), 'cases_ok': len(okc), 'cases_not_analysed': [c_.get('why', '')[:160] for c_ in cases if c_['verdict'] == 'skipped'][:6],
                   'paths_not_analysed': tr['not_analysed'][:4], 'ulp': max([c_['ulp'] for c_ in okc] or [0.0]),
                   'kernel_rel_err': 0.0, 'const_rel_err': 0.0,
                   'tiers': sorted(set((c_['path'], c_.get('kernel'), round(c_.get('ulp', 0), 4), tuple(round(v, 5) for v in c_.get('u_range', (0, 0)))) for c_ in okc))[:40]}
        if mism and not bad:
            out['res'].append((key, 'mismatch', {'why': 'path %s: %s' % (mism[0]['path'], mism[0].get('why', ''))}))
        elif bad:
            b0 = bad[0]
            summary.update(bad_case=dict((k, v) for k, v in b0.items() if k != 'either'), ulp=b0['ulp'])
            out['res'].append((key, 'bad', summary))
        elif len(okc) < 4:
            out['res'].append((key, 'mismatch', {'why': 'only %d analysable cases (tiers) found' % len(okc)}))
        else:
            out['res'].append((key, 'ok', summary))
    for (fn, an, par) in (FUNCS if group == 'explog' else ()):
        if not applicable(fn, bits, cfgname):
            continue
        key = 'kernel|%s|%s|%s' % (fn, tn, cfgname)
        T.reset()
        try:
            r = an(mod, 'm_%s_%s' % (fn, tn), par, bits)
            ue = r.pop('ulp_exact')
            sc = r.pop('scale', None)
            out['res'].append((key, 'ok' if ue <= THR else 'bad', r))
            if sc is not None:
                out['res'].append(('scale-range|%s|%s|%s' % (fn, tn, cfgname), 'ok' if sc.get('ok') else 'bad', dict(sc, ulp=0.0, kernel_rel_err=0.0, const_rel_err=0.0, scale_rule=True)))
        except (Mismatch, NotReal) as e:
            out['res'].append((key, 'mismatch', {'why': str(e)[:300]}))
        except (ValueError, KeyError, IndexError, ZeroDivisionError, RecursionError, TypeError, AttributeError) as e:
            out['res'].append((key, 'mismatch', {'why': 'analysis error %r' % (e,)}))
    return out


def replay(pid, bits, a):
    d = json.load(open(a.replay))
    key = d.get('obligation') or d.get('key')
    (_, fn, tn, cfg) = key.split('|')
    m = {'res': []}
    for g in GROUPS:
        m['res'] += analyse((cfg, bits, g)).get('res', [])
    for (k, st, dd) in m.get('res', []):
        if k == key:
            print(key, st, json.dumps(dd, default=str)[:600])
            if st == 'bad':
                print('VIOLATION property=%s replay=%s' % (pid, a.replay))
            return {'ok': 0, 'bad': 1}.get(st, 2)
    print('obligation %s not generated' % key)
    return 2


def run_for(pid, bits, a):
    if a.replay:
        return replay(pid, bits, a)
    r = report.Run(pid, a.tier, 'other')
    cfgs = THOROUGH if a.tier == 'thorough' else CONFIGS
    nob = 0
    ncont = 0
    npaths = 0
    not_analysed = []
    rows = []
    with ProcessPoolExecutor(max_workers=min(14, len(cfgs) * len(GROUPS))) as ex:
        for m in ex.map(analyse, [(c, bits, g, (a.tier == 'thorough' or c == cfgs[0])) for c in cfgs for g in GROUPS]):
            if 'broken' in m:
                r.broke(m['broken'])
                continue
            for (key, st, d) in m['res']:
                if st == 'mismatch':
                    r.broke('%s: kernel does not match its reviewed template: %s' % (key, d['why']))
                    continue
                if st == 'skip':
                    not_analysed.append({'obligation': key, 'why': d['why']})
                    continue
                if key.startswith('continuity|'):
                    nob += 1
                    ncont += d.get('n_boundaries', 0)
                    rows.append(dict(d, obligation=key))
                    if st == 'bad':
                        b = d['bad_boundary']
                        if b.get('binade'):
                            r.violation(key, 'at the binade boundary x = %s the function (read as a real function) differs by %.4g ulp between the boundary and the float just below it (value %.6g; worst of every binade of the normal range): the exponent / mantissa split of the argument is inconsistent there' % (
                                b['x0_exact'], b['jump_ulp'], b['value']), dict(d, obligation=key))
                            continue
                        r.violation(key, 'at the tier switch point x = %s the two sides of the function (read as real functions, every lane holding the point) differ by %.4g ulp (value %.6g): more than twice the bound %s + %s ulp, so at least one tier is further than the bound from the function beside the switch point' % (
                            b['x0_exact'] if len(b['x0_exact']) < 40 else b['x0'], b['jump_ulp'], b['value'], d['threshold_jump_ulp'] / 2 - float(ROUNDING_ALLOWANCE_ULP), float(ROUNDING_ALLOWANCE_ULP)), dict(d, obligation=key))
                    continue
                nob += 1
                rows.append(dict(d, obligation=key))
                if key.startswith('paths|'):
                    npaths += d.get('n_cells', 0)
                    if st == 'bad' and 'overflow_cell' in d:
                        b = d['overflow_cell']
                        r.violation(key, 'intermediate overflow: for a lane holding x = %s (control path %s) the result is the finite normal value %.6g, but an intermediate %s on the lane\'s data path has magnitude 1e%s, beyond the largest finite number of the format: the machine computes inf there (source %s)' % (
                            b['x_exact'] if len(b['x_exact']) < 40 else b['x'], b['path'] or '(fall-through)', b['value'], b['op'], b['log10_magnitude'], b['source'] or '?'), dict(d, obligation=key))
                        continue
                    if st == 'bad':
                        b = d['bad_cell']
                        r.violation(key, 'for a lane holding x = %s the control paths %s and %s (which one runs depends on the OTHER lanes of the batch) give values %.17g and %.17g (read as real functions): %.4g ulp apart, more than twice the bound %s + %s ulp, so on one of them the lane is further than the bound from the function' % (
                            b['x_exact'] if len(b['x_exact']) < 40 else b['x'], b['path_a'] or '(fall-through)', b['path_b'] or '(fall-through)', b['value_a'], b['value_b'], b['spread_ulp'], d['threshold_spread_ulp'] / 2 - float(ROUNDING_ALLOWANCE_ULP), float(ROUNDING_ALLOWANCE_ULP)), dict(d, obligation=key))
                    continue
                if key.startswith('scale-range|'):
                    if st == 'bad':
                        r.violation(key, 'graceful saturation: %s (the scale 2^K is assembled as (K + bias) << mantissa bits; results next to the threshold are -inf / garbage instead of 0 / +inf)' % d.get('why'), dict(d, obligation=key))
                    continue
                if '-exp-tiers|' in key:
                    if st == 'bad':
                        b = d['bad_piece']
                        r.violation(key, 'on the control path %s, for |x| in [%.6g, %.6g] (worst piece [%.6g, %.6g]) %s: %s' % (
                            b['path'] or '(fall-through)', d['bad_range'][0], d['bad_range'][1], b['piece'][0], b['piece'][1],
                            b.get('why') or ('the tier %s + exp(-x^2) R(x) has R up to %.4g ulp (of the result) from exp(x^2) erfc(x)' % (('%g' % b['constant']) if b.get('constant') else '0', b['ulp'])),
                            'above the bound %s ulp frozen for this function plus %s ulp rounding allowance' % (d['bound_ulp'], float(ROUNDING_ALLOWANCE_ULP))), dict(d, obligation=key))
                    continue
                if st == 'bad' and 'bad_case' in d:
                    b = d['bad_case']
                    r.violation(key, 'on the control path %s (|x| in [%.6g, %s]) the reduced argument ranges over %s and the kernel there is %s ulp from the mathematical function (approximation %s, reduction constants %s, unfused k*c products %s ulp)%s: above the property bound %s ulp plus %s ulp rounding allowance' % (
                        b.get('path'), b.get('x_range', (0, 0))[0], b.get('x_range', (0, 0))[1], b.get('u_range'), b.get('ulp'), b.get('kernel_ulp'), b.get('reduction_const_ulp'), b.get('cody_waite_ulp'),
                        ((' -- ' + b['why']) if b.get('why') else '') + ((' -- witness: at x = %s (the float nearest to %d pi/2, reduced argument %.3g) the error of the reduction constants alone is %.6g ulp of the result' % (
                            b['near_multiple']['x_hex'], b['near_multiple']['n'], b['near_multiple']['reduced'], b['near_multiple']['ulp'])) if b.get('near_multiple') and b['near_multiple'].get('ulp', 0) > float(THR) else ''),
                        float(BOUND_ULP), float(ROUNDING_ALLOWANCE_ULP)), dict(d, obligation=key))
                    continue
                if st == 'bad':
                    cw = (' -- of which %.3g ulp because the separately rounded product k*%.9g of the argument reduction is not exact (Cody-Waite needs a short leading constant when the multiply is not fused)' % (d['cody_waite_ulp'], d['cody_waite_site'])) if d.get('cody_waite_ulp', 0) > 1 else ''
                    r.violation(key, 'method error of the kernel is %.3g ulp on its reduced domain (approximation %.3g, reduction constants %.3g relative)%s%s: above the property bound %s ulp plus %s ulp rounding allowance' % (
                        d['ulp'], d['kernel_rel_err'], d['const_rel_err'], cw, (' -- ' + d['why']) if d.get('why') else '', float(BOUND_ULP), float(ROUNDING_ALLOWANCE_ULP)), dict(d, obligation=key))
    want = sum(1 for c in cfgs for f in FUNCS if applicable(f[0], bits, c)) + (len(TRIG) + len(INV) + 1 + len(ERFC) + 5 + sum(1 for f_ in DIRF if bits in DIRF[f_])) * len(cfgs)
    if npaths < 20 * len(cfgs) and not r.broken:
        r.broke('path-agreement clause compared only %d cells' % npaths)
    if ncont < 30 * len(cfgs) and not r.broken:
        r.broke('tier-continuity clause evaluated only %d switch points' % ncont)
    if nob < want and not r.broken:
        r.broke('only %d of %d kernel obligations generated' % (nob, want))
    nbad = len(set(k for (k, w, d) in r.violations))
    cov = {'explanation': 'method-error clause only: for every argument of the reduced domain, the real function denoted by the kernel (roundings erased; read off the optimised IR of the public function on %s) is within the stated number of ulps of the mathematical function, reduction constants included; rigorous rational/interval arithmetic.  The ulp bound of the property itself (accumulated rounding over all arguments) is NOT decided.' % cfgs,
           'obligations': nob, 'discharged': nob - nbad, 'evaluations': nob, 'distinct_nontrivial': nob - nbad, 'kernels': rows[:120], 'not_analysed': not_analysed[:30], 'switch_points_evaluated': ncont,
           'functions_covered': [f[0] for f in FUNCS] + TRIG + INV + ['acos', 'erf (exp tiers)', 'erfc (exp tiers)'] + ['%s (small-argument kernel)' % f_ for f_ in sorted(DIRF) if bits in DIRF[f_]], 'threshold_ulp': float(THR), 'checker_cmd': 'python3 /verif/check.py %s --tier %s' % (pid, a.tier),
           'trusted_base': ['clang 14 -O2 translation of the headers', 'lane-term normaliser (engine/terms.py, lanes.py)', 'engine/realfn.py (rounding-erased reading of lane terms)', 'engine/qi.py (interval arithmetic, series with tail bounds)',
                            'reviewed templates: the meaning of the non-arithmetic atoms (K = nearbyint(cX), S = 2^K, mantissa/exponent split)'],
           'rule': 'sup over the reduced domain of |kernel_real(u) / f(u) - 1| * 2^p <= %s ulp' % float(THR), 'headers_sha256': build.headers_hash()}
    return r.finish(cov, ['only the method error (approximation + reduction constants) is decided; the accumulated floating-point rounding error and therefore the ulp bound itself are NOT decided',
                          'functions not listed in functions_covered are not decided at all',
                          'evaluation rounding is assumed to contribute at most %s ulp (the kernels end in 1 + small or k*c + small sums)' % float(ROUNDING_ALLOWANCE_ULP)])


def run(a):
    return run_for('C10', 32, a)
