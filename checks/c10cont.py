"""C10 / C11 tier-continuity clause (function-agnostic necessary condition of the ulp bounds).

If a function is computed as select(x < c, A(x), B(x)) and both tiers are within the property's bound of the same
mathematical function around c, then A(c) and B(c) -- read as real functions -- differ by at most twice that bound (plus
the rounding allowance).  No knowledge of the mathematical function is needed.  For every per-lane select of the lane term
whose condition compares an affine function of the argument with a constant, the boundary point x0 is solved exactly
and the WHOLE function is evaluated at x0 twice by exact constant propagation (engine/pointeval.py: rational interval
arithmetic, roundings erased, every lane = x0), once with the select forced to each arm.  If the select is not live at x0
(an outer select masks it) the two results coincide and nothing is claimed.  A boundary whose result is not in the normal
range (saturation thresholds) or whose arms cannot be evaluated at x0 is skipped and listed.
A jump above the threshold means that at least one of the two tiers is further than the bound from the function just
beside the switch point: this catches a tier threshold moved to where an asymptotic shortcut is not yet valid, a wrong
constant in one tier, a swapped arm.
"""
from fractions import Fraction as Fr

from engine import terms as T, realfn as RFN, pointeval as PE, qi as Q
from engine.realfn import NotReal


class SidedEval(PE.PointEval):
    """evaluation 'just below' / 'just above' the point: arithmetic uses the point itself, but a comparison that is an
    exact tie there and whose difference is an affine function of the argument (of any lane: every lane holds the point)
    is decided as it is on that side"""

    def __init__(self, argvals, side, slopes=None):
        PE.PointEval.__init__(self, argvals)
        self.side = side
        self.ex = RFN.Extract()
        self.slope_memo = {}
        self.x0 = list(argvals.values())[0]

    def slope(self, t):
        if t.uid not in self.slope_memo:
            sg = None
            try:
                info = affine_cmp(self.ex, t, None)
                sg = info.get(self.x0)
            except (NotReal, KeyError, ValueError):
                sg = None
            self.slope_memo[t.uid] = sg
        return self.slope_memo[t.uid]

    def _term_bits(self, t):
        n = t.name
        if n.startswith('f') and n[1:] in ('olt', 'ole', 'ogt', 'oge', 'ult', 'ule', 'ugt', 'uge', 'oeq', 'one', 'ueq', 'une') and t.width == 1:
            x, y = self.fval(t.ops[0]), self.fval(t.ops[1])
            if not x.special and not y.special and x.iv.lo == x.iv.hi == y.iv.lo == y.iv.hi:
                sg = self.slope(t)
                if sg is not None:
                    lt = (self.side * sg) < 0          # A - B < 0 on this side
                    pred = n[2:]
                    return int({'eq': False, 'ne': True, 'lt': lt, 'le': lt, 'gt': not lt, 'ge': not lt}[pred])
        return PE.PointEval._term_bits(self, t)


def arg_name_lane(bv):
    for pce in T.canon(bv):
        if pce[0] == 's' and pce[1].kind == 'arg':
            return pce[1].name, pce[1].attrs
    return None


def _walk(bv):
    from .c10 import walk_terms
    return walk_terms(bv)


def affine_cmp(ex, t, track, _depth=0):
    """for a term fcmp(A, B) with A - B = c1 * v + c0, v the argument or its absolute value: (x0 list, {x0: slope sign})"""
    from . import c10trig as TR
    try:
        ca, cb = ex.cases(t.ops[0]), ex.cases(t.ops[1])
    except NotReal:
        return {}
    if len(ca) != 1 or len(cb) != 1:
        if len(ca) * len(cb) > 16 or _depth:
            return {}
        out = {}
        for (c1, fa) in ca:
            for (c2, fb) in cb:
                out.update(_affine_points(ex, fa - fb, track))
        return out
    return _affine_points(ex, ca[0][1] - cb[0][1], track)


def _affine_points(ex, d, track):
    from . import c10trig as TR
    if d.den != RFN.p_const(1):
        return {}
    ats = sorted(d.atoms())
    if len(ats) != 1:
        return {}
    a = ats[0]
    st = T.single_term(ex.atoms[a])
    lane_ = track
    if lane_ is None:
        ls_ = [u.attrs for u in _walk(ex.atoms[a]) if u.kind == 'arg']
        lane_ = ls_[0] if ls_ else 0
    is_abs = TR.is_ax(ex.atoms[a], lane_) and st is None
    is_arg = st is not None and st.kind == 'arg' and st.attrs == lane_
    if not (is_abs or is_arg):
        return {}
    co = RFN.p_univariate(d.num, a)
    if len(co) != 2 or co[1] == 0:
        return {}
    x0 = -co[0] / co[1]
    sg = 1 if co[1] > 0 else -1
    if is_abs:
        if x0 <= 0:
            return {}
        return {x0: sg, -x0: -sg}
    return {x0: sg}


def splits_exponent(terms_, walk_terms):
    """does the lane term take the argument apart at the bit level (exponent / mantissa fields)"""
    for (term, assumed) in terms_:
        for t in walk_terms(term):
            for o in (t.ops or ()):
                if not isinstance(o, tuple):
                    continue
                for pce in o:
                    if pce[0] == 's' and pce[1].kind == 'arg' and (pce[2] > 0 and pce[2] + pce[3] < pce[1].width):
                        return True
                    if pce[0] == 's' and pce[1].kind == 'arg' and t.name in ('sum', 'mul', 'lshr', 'ashr', 'shl') and pce[3] >= pce[1].width - 1:
                        return True               # integer arithmetic on the bit pattern of the argument
    return False


def binade_points(bits):
    emin, emax = (-124, 126) if bits == 32 else (-1020, 1022)
    return [Fr(2) ** e for e in range(emin, emax + 1)]


def analyse_cont(mod, fname, bits, thr_ulp, binades=False, abs_floor=None):
    """boundary points from every loop-free control path; at each point the function is evaluated just below and just
    above: the control path is the one a batch holding the point in every lane takes on that side"""
    from .c10 import lane_term, walk_terms, Mismatch
    from engine.lanes import NotStraightLine
    from engine import lanes
    from engine.ir import parse_type
    from . import c10trig
    T.reset()
    track = 1
    f_ = mod.functions.get(fname)
    if f_ is None:
        raise Mismatch('wrapper %s missing' % fname)
    straight = True
    try:
        terms_ = [(lane_term(mod, fname)[0], [])]
    except NotStraightLine:
        straight = False
        done, dropped = c10trig.explore(mod, f_, track, limit=40)
        terms_ = [(d[0], d[1]) for d in done]
        if not terms_:
            raise
    ex = RFN.Extract()
    argname = None
    points = set()
    ncmp = 0
    for (term, assumed) in terms_:
        pool = [term] + [c for (k, c) in assumed]
        for bv in pool:
            for t in walk_terms(bv):
                if t.kind == 'arg':
                    argname = t.name
                if t.name.startswith('f') and t.name[1:] in ('olt', 'ole', 'ogt', 'oge', 'ult', 'ule', 'ugt', 'uge') and t.width == 1:
                    info = affine_cmp(ex, t, None)
                    if info:
                        ncmp += 1
                    points |= set(info)
    if argname is None:
        raise Mismatch('no argument in the lane term')
    p = 24 if bits == 32 else 53
    tiny = Fr(2) ** (-124 if bits == 32 else -1020)
    huge = Fr(2) ** (126 if bits == 32 else 1022)
    out = {'comparisons': ncmp, 'points': len(points), 'paths': len(terms_), 'boundaries': [], 'skipped': []}
    args = []
    for i, a in enumerate(f_['args']):
        ty = parse_type(a['ty'])
        args.append(T.cat(*[T.atom_bv('a%d' % i, l, ty.elem.bits) for l in range(ty.n)]))
    w = parse_type(f_['ret']).elem.bits
    # binade boundaries: a function that splits its argument into exponent and mantissa is evaluated at 2^E and at the
    # float just below it (two concrete arguments one ulp apart) for EVERY binade of the normal range
    out['binade_boundaries'] = 0
    # functions known to split their argument into exponent and mantissa (frexp-style), plus any other whose lane term shows it
    if binades and straight and (fname.split('_')[1] in ('cbrt', 'log', 'log2', 'log10') or splits_exponent(terms_, walk_terms)):
        term = terms_[0][0]
        worst = None
        for xb in binade_points(bits):
            for sgn in (1, -1):
                try:
                    va = PE.PointEval({argname: sgn * xb}).fval_abs(term)
                    vb = PE.PointEval({argname: sgn * xb * (1 - Fr(1, 1 << p))}).fval_abs(term)
                except (PE.Unevaluable, ZeroDivisionError, OverflowError, KeyError, ValueError):
                    continue
                if va.special or vb.special:
                    continue
                a, b = va.iv, vb.iv
                mag = min(a.mig(), b.mig())
                if mag == 0 or a.mag() < tiny or b.mag() < tiny or a.mag() > huge or b.mag() > huge:
                    continue
                out['binade_boundaries'] += 1
                # the function itself may change by a few ulp over one ulp of the argument (|x f'/f| <= 4 assumed): allowance
                ulp = (a - b).mag() / mag * (1 << p)
                if worst is None or ulp > worst['jump_ulp']:
                    worst = {'x0': float(sgn * xb), 'x0_exact': '%s2^%d' % ('-' if sgn < 0 else '', xb.numerator.bit_length() - xb.denominator.bit_length()), 'value': float(a.mid()),
                             'jump_ulp': float(ulp), 'ok': ulp <= 2 * thr_ulp + 4, 'binade': True}
        if worst is not None:
            out['boundaries'].append(worst)
    minnormal = Fr(2) ** (-126 if bits == 32 else -1022)
    for x0 in sorted(points):
        vals = []
        why = None
        if 0 < abs(x0) <= 2 * minnormal:
            out['skipped'].append({'x0': float(x0), 'why': 'switch between normal and subnormal ARGUMENTS (subnormal arguments are outside the property)'})
            continue
        for side in (-1, 1):
            try:
                ev = SidedEval({argname: x0}, side)
                if straight:
                    term = terms_[0][0]
                else:
                    le = lanes.Eval(mod, f_, args)
                    le.oracle = lambda c, inst, ev=ev: bool(ev.bits(c) & 1)
                    le.max_visits = 60
                    le.run()
                    term = T.canon(T.slice_(le.ret, track * w, w))
                v = ev.fval_abs(term)
                if v.special:
                    why = 'a non-finite result (%s)' % v.special
                    break
                vals.append(v.iv)
            except PE.Unevaluable as e:
                why = 'not evaluable: %s' % e
                break
            except NotStraightLine as e:
                why = 'the path taken at this point has a loop'
                break
            except (ZeroDivisionError, OverflowError, KeyError, ValueError, RecursionError) as e:
                why = 'evaluation error %r' % (e,)
                break
        if why:
            out['skipped'].append({'x0': float(x0), 'why': why[:120]})
            continue
        a, b = vals
        mag = min(a.mig(), b.mig())
        if abs_floor is not None and a.mag() <= huge and b.mag() <= huge:
            mag = max(mag, abs_floor)            # a bound stated in ulps of max(|result|, floor) (lgamma)
        elif a.mag() < tiny or b.mag() < tiny or mag == 0 or a.mag() > huge or b.mag() > huge:
            out['skipped'].append({'x0': float(x0), 'why': 'result outside the normal range (saturation threshold)'})
            continue
        diff = (a - b).mag()
        rel = diff / mag
        ulp = rel * (1 << p)
        out['boundaries'].append({'x0': float(x0), 'x0_exact': str(x0), 'value': float(a.mid()), 'jump_ulp': float(ulp), 'ok': ulp <= 2 * thr_ulp})
    return out


def _src_chain(inst):
    try:
        return ' <- '.join('%s:%s' % (f, l) for (f, l, fn) in (inst.get('dbg', []) if inst else [])[:5])
    except Exception:
        return ''


def path_allows(assumed, ev, track):
    """does the control path (whole-batch conditions `assumed`) allow a batch whose tracked lane holds the point of `ev`?
    True / False, or None when a condition on the tracked lane is not understood.  any(M) / all(M) / none(M) constrain the
    lane only through its own bit of M (evaluated at the point); branches of the lane's own scalar code are evaluated."""
    from . import c10trig as TR
    for (kind, c) in assumed:
        c = T.canon(c)
        if T.is_const(c):
            continue
        ls = TR.lanes_in(c)
        if track not in ls:
            continue
        truth = (kind == 'is')
        t = T.single_term(c)
        if t is not None and t.name == 'not' and len(t.ops) == 1:
            t, truth = T.single_term(T.canon(t.ops[0])), not truth
        if len(ls) == 1:
            try:
                b = ev.bits(c) & 1
            except (PE.Unevaluable, KeyError, ValueError, ZeroDivisionError):
                return None
            if bool(b) != (kind == 'is'):
                return False
            continue
        if t is None or t.name not in ('eq', 'ne') or not any(T.is_const(T.canon(o)) for o in t.ops):
            return None
        k = [T.canon(o) for o in t.ops if T.is_const(T.canon(o))][0]
        v = [T.canon(o) for o in t.ops if not T.is_const(T.canon(o))][0]
        kv = T.const_val(k)
        none_set = (kv == 0) and ((t.name == 'eq') == truth)
        all_set = (kv == (1 << T.width(k)) - 1) and ((t.name == 'eq') == truth)
        for pce in v:
            if pce[0] not in 'sr' or track not in TR.lanes_in((pce,)):
                continue
            if len(TR.lanes_in((pce,))) != 1:
                return None
            try:
                b = ev.bits((pce,))
            except (PE.Unevaluable, KeyError, ValueError, ZeroDivisionError):
                return None
            w = T.pw(pce)
            if none_set and b != 0:
                return False
            if all_set and b != (1 << w) - 1:
                return False
    return True


def analyse_paths(mod, fname, bits, thr_ulp, abs_floor=None):
    """Path agreement (mixed batches): which any()/all() fast path a batch takes depends on the OTHER lanes, so every
    loop-free control path whose whole-batch conditions allow this lane's value must give the lane a value within twice
    the bound (+ allowance) of what every other such path gives.  One interior point per cell between consecutive switch
    points (and beyond the outermost) is evaluated by exact constant propagation through the tracked lane's term of each path."""
    from .c10 import Mismatch, walk_terms
    from . import c10trig as TR
    T.reset()
    track = 1
    f_ = mod.functions.get(fname)
    if f_ is None:
        raise Mismatch('wrapper %s missing' % fname)
    done, dropped = TR.explore(mod, f_, track, limit=60)
    out = {'paths': len(done), 'dropped_paths': len(dropped), 'points': 0, 'compared': 0, 'cells': [], 'skipped': [], 'undecided_paths': 0}
    if len(done) < 2:
        return out
    ex = RFN.Extract()
    argname = None
    points = set()
    for d in done:
        for bv in [d[0]] + [c for (k, c) in d[1]]:
            for t in walk_terms(bv):
                if t.kind == 'arg' and t.attrs == track:
                    argname = t.name
                if t.name.startswith('f') and t.name[1:] in ('olt', 'ole', 'ogt', 'oge', 'ult', 'ule', 'ugt', 'uge') and t.width == 1:
                    points |= set(affine_cmp(ex, t, None))
    if argname is None:
        return out
    p = 24 if bits == 32 else 53
    tiny = Fr(2) ** (-124 if bits == 32 else -1020)
    huge = Fr(2) ** (126 if bits == 32 else 1022)
    pos = sorted(x for x in points if x > 0 and x < huge)
    if not pos:
        return out
    samples = [pos[0] / 2] + [(a + b) / 2 for a, b in zip(pos, pos[1:])] + [pos[-1] * 2]
    samples = [s for s in samples if tiny * 16 < s < huge / 16]
    samples = samples + [-s for s in samples]
    out['points'] = len(samples)
    for x in samples:
        vals = []
        ev = PE.PointEval({argname: x})
        for (term, assumed, prefix) in done:
            pa = path_allows(assumed, ev, track)
            if pa is None:
                out['undecided_paths'] += 1
            if not pa:
                continue
            n_ov = len(ev.overflows)
            try:
                v = ev.fval_abs(term)
            except (PE.Unevaluable, ZeroDivisionError, OverflowError, KeyError, ValueError, RecursionError) as e:
                out['skipped'].append({'x': float(x), 'path': ''.join('TF'[not b] for b in prefix), 'why': ('%s %s' % (type(e).__name__, e))[:100]})
                continue
            if v.special or v.iv.mag() > huge or (abs_floor is None and (v.iv.mag() < tiny or v.iv.mig() == 0)):
                continue
            if len(ev.overflows) > n_ov:
                # the result is a finite normal number although an intermediate on the evaluated (taken) data path exceeds
                # the largest finite number of its format: the machine computes inf (or NaN from inf - inf, inf * 0) there
                o = ev.overflows[n_ov]
                out.setdefault('overflow_cells', []).append({'x': float(x), 'x_exact': str(x), 'path': ''.join('TF'[not b] for b in prefix), 'value': float(v.iv.mid()),
                                                            'op': o[0], 'log10_magnitude': round(o[2], 1), 'source': _src_chain(o[3])})
            vals.append((v.iv, prefix))
        if len(vals) < 2:
            continue
        out['compared'] += 1
        worst = None
        for i in range(len(vals)):
            for j in range(i + 1, len(vals)):
                a, b = vals[i][0], vals[j][0]
                mg = min(a.mig(), b.mig())
                if abs_floor is not None:
                    mg = max(mg, abs_floor)
                ulp = (a - b).mag() / mg * (1 << p)
                if worst is None or ulp > worst[0]:
                    worst = (ulp, vals[i][1], vals[j][1], a, b)
        out['cells'].append({'x': float(x), 'x_exact': str(x), 'paths': len(vals), 'spread_ulp': float(worst[0]), 'ok': worst[0] <= 2 * thr_ulp,
                             'path_a': ''.join('TF'[not b] for b in worst[1]), 'path_b': ''.join('TF'[not b] for b in worst[2]),
                             'value_a': float(worst[3].mid()), 'value_b': float(worst[4].mid())})
    return out
