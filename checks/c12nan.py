"""C12, "a NaN argument yields NaN" for the functions with whole-batch tiers and scalar per-lane code (sin, cos, tan):
NaN propagation along control paths.

The FP-class abstract interpretation of checks/c12.py loses the argument in the stack buffers and the scalar
range-reduction call of the trigonometric functions.  Here the lane-term evaluator (engine/lanes.py) runs the function on
symbolic lanes; every branch whose condition depends on the tracked lane is decided by a three-valued evaluation of the
condition term under the single assumption "the tracked lane holds SOME NaN" (exponent bits all ones, every other bit
unknown -- in particular a NaN whose payload sits entirely in the low word is included); an undecided branch forks the
path (both arms are explored), branches of other lanes' scalar code are resolved by any completing choice (they cannot
touch the tracked lane: C13).  On every completed path the tracked lane of the result must evaluate to "NaN" under the same
assumption: floating arithmetic with a NaN operand gives NaN, an ordered comparison with a NaN is false, an unordered
one true, bit operations are evaluated bit by bit, a select whose condition is open must be NaN on both arms.
"""
from engine import terms as T, lanes
from engine.ir import parse_type
from engine.lanes import NotStraightLine

FP_PROPAGATE = ('fadd', 'fsub', 'fmul', 'fdiv', 'fma', 'fmuladd', 'frem', 'fpext', 'fptrunc', 'sqrt', 'call:llvm.sqrt', 'llvm.sqrt', 'x86.sqrt', 'x86.sse.sqrt', 'x86.sse2.sqrt', 'x86.avx.sqrt',
                'x86.round', 'x86.sse41.round', 'x86.avx.round', 'call:llvm.floor', 'call:llvm.ceil', 'call:llvm.trunc', 'call:llvm.rint', 'call:llvm.nearbyint', 'call:llvm.fma', 'call:llvm.fmuladd',
                'floor', 'ceil', 'trunc', 'rint', 'nearbyint', 'round', 'call:llvm.x86.avx512.mask.rndscale', 'call:llvm.x86.fma', 'call:llvm.fabs', 'fabs', 'fneg')
ORDERED = ('oeq', 'ogt', 'oge', 'olt', 'ole', 'one', 'ord')
UNORDERED = ('ueq', 'ugt', 'uge', 'ult', 'ule', 'une', 'uno')


class Need(Exception):
    def __init__(self, lanes_, cond):
        Exception.__init__(self, 'need')
        self.lanes, self.cond = lanes_, cond


class V(object):
    """w bits: mask of known bits, their values; nan: the value, read as a float of w bits, is a NaN"""
    __slots__ = ('w', 'mask', 'val', 'nan')

    def __init__(self, w, mask=0, val=0, nan=False):
        self.w, self.mask, self.val, self.nan = w, mask, val & mask, nan

    def known(self):
        return self.mask == (1 << self.w) - 1

    def umin(self):
        return self.val

    def umax(self):
        return self.val | (((1 << self.w) - 1) & ~self.mask)


def exp_mask(w):
    return (0xff << 23) if w == 32 else (0x7ff << 52)


class NanEval(object):
    def __init__(self, track):
        self.track = track
        self.memo = {}

    def term(self, t):
        if t.uid in self.memo:
            return self.memo[t.uid]
        r = self._term(t)
        self.memo[t.uid] = r
        return r

    def _term(self, t):
        w = t.width
        if t.kind == 'arg':
            if t.attrs == self.track and w in (32, 64):
                return V(w, exp_mask(w), exp_mask(w), True)
            return V(w)
        n = t.name
        ops = [self.ev(o) for o in (t.ops or ()) if isinstance(o, tuple)]
        if n in ('and', 'or', 'xor') and len(ops) == 2:
            a, b = ops
            if n == 'and':
                k1 = (a.mask & a.val) & (b.mask & b.val)
                k0 = (a.mask & ~a.val) | (b.mask & ~b.val)
            elif n == 'or':
                k1 = (a.mask & a.val) | (b.mask & b.val)
                k0 = (a.mask & ~a.val) & (b.mask & ~b.val)
            else:
                m = a.mask & b.mask
                k1 = (a.val ^ b.val) & m
                k0 = ~(a.val ^ b.val) & m
            full = (1 << w) - 1
            return V(w, (k1 | k0) & full, k1 & full)
        if n == 'not' and len(ops) == 1:
            a = ops[0]
            return V(w, a.mask, ~a.val & a.mask)
        if n == 'sel' and len(ops) == 3:
            c, a, b = ops
            if c.known():
                return a if c.val else b
            m = a.mask & b.mask & ~(a.val ^ b.val)
            return V(w, m, a.val & m, a.nan and b.nan)
        if n in ('eq', 'ne', 'ult', 'ule', 'slt', 'sle') and len(ops) == 2:
            a, b = ops
            r = None
            if n in ('eq', 'ne'):
                if a.mask & b.mask & (a.val ^ b.val):
                    r = 0
                elif a.known() and b.known():
                    r = 1
                if r is not None and n == 'ne':
                    r = 1 - r
            else:
                sg = n[0] == 's'
                top = 1 << (a.w - 1)

                def rng(x):
                    lo, hi = x.umin(), x.umax()
                    if not sg:
                        return lo, hi
                    if x.mask & top:          # sign known
                        f = (lambda v: v - (top << 1) if v & top else v)
                        return f(lo), f(hi)
                    return (lo | top) - (top << 1), hi & ~top
                (al, ah), (bl, bh) = rng(a), rng(b)
                if n[1:] == 'lt':
                    r = 1 if ah < bl else (0 if al >= bh else None)
                else:
                    r = 1 if ah <= bl else (0 if al > bh else None)
            return V(1, 1, r) if r is not None else V(1)
        if n.startswith('f') and n[1:] in ORDERED + UNORDERED and w == 1 and len(ops) == 2:
            if ops[0].nan or ops[1].nan:
                return V(1, 1, 1 if n[1:] in UNORDERED else 0)
            return V(1)
        if n.startswith(FP_PROPAGATE) and w in (32, 64) and not n.startswith(('fptosi', 'fptoui')):
            if any(o.nan for o in ops if o.w in (32, 64)):
                return V(w, exp_mask(w), exp_mask(w), True)
            return V(w)
        if n.startswith('sum') and t.attrs and all(o.known() for o in ops):
            c0, co = t.attrs[0], tuple(t.attrs[1])
            if len(co) == len(ops):
                v = c0 + sum(k * o.val for k, o in zip(co, ops))
                return V(w, (1 << w) - 1, v)
        return V(w)

    def ev(self, bv):
        bv = T.canon(bv)
        w = T.width(bv)
        mask = val = 0
        sh = 0
        for p in bv:
            pw = T.pw(p)
            if p[0] == 'c':
                m, v = (1 << pw) - 1, p[2]
            elif p[0] == 'u':
                m, v = 0, 0
            elif p[0] == 'r':
                b = self.ev((p[1],))
                m = ((1 << pw) - 1) if b.mask else 0
                v = ((1 << pw) - 1) if (b.mask and b.val) else 0
            else:
                (_, t, lo, ww) = p
                x = self.term(t)
                m = (x.mask >> lo) & ((1 << ww) - 1)
                v = (x.val >> lo) & ((1 << ww) - 1)
            mask |= m << sh
            val |= v << sh
            sh += pw
        nan = False
        if w in (32, 64):
            t = T.single_term(bv)
            if t is not None:
                nan = self.term(t).nan
            elif bv[0][0] == 's' and bv[0][2] == 0 and bv[0][3] == w - 1 and bv[0][1].width == w and sum(T.pw(p) for p in bv[1:]) == 1:
                nan = self.term(bv[0][1]).nan                  # the magnitude bits of a NaN with any sign
            elif bv[0][0] == 's' and bv[0][2] == 0 and bv[0][3] == bv[0][1].width == w - 1 and bv[0][1].name == 'sel' and len(bv) == 2:
                # [sel(c, A[0:w-1], B[0:w-1]) ++ sign]: a NaN if both arms are magnitudes of NaNs (or the decided one is)
                tt = bv[0][1]
                c = self.ev(tt.ops[0])
                arms = [T.cat(o, T.const(1, 0)) for o in tt.ops[1:]]
                if c.known():
                    nan = self.ev(arms[0] if c.val else arms[1]).nan
                else:
                    nan = self.ev(arms[0]).nan and self.ev(arms[1]).nan
        return V(w, mask, val, nan)


def lanes_in(bv):
    from .c10 import walk_terms
    out = set()
    for t in walk_terms(bv):
        if t.kind == 'arg':
            out.add(t.attrs)
    return out


def run_path(mod, f, prefix, track):
    args = []
    for i, a in enumerate(f['args']):
        ty = parse_type(a['ty'])
        args.append(T.cat(*[T.atom_bv('a%d' % i, l, ty.elem.bits) for l in range(ty.n)]))
    ev = lanes.Eval(mod, f, args)
    ne = NanEval(track)
    idx = [0]
    decided = [0]

    def oracle(c, inst):
        ls = lanes_in(c)
        if track in ls:
            v = ne.ev(c)
            if v.mask & 1:
                decided[0] += 1
                return bool(v.val & 1)
        i = idx[0]
        idx[0] += 1
        if i < len(prefix):
            return prefix[i]
        raise Need(ls, c)
    ev.oracle = oracle
    ev.max_visits = 40
    try:
        ev.run()
    except Need as n:
        return ('need', n.lanes, n.cond)
    except (NotStraightLine, lanes.AssertsFalse) as e:
        return ('loop', str(e)[:160], None)
    except (ValueError, KeyError, IndexError, RecursionError, TypeError, lanes.Unsupported) as e:
        return ('loop', 'evaluation error %r' % (e,), None)
    w = parse_type(f['ret']).elem.bits
    term = T.canon(T.slice_(ev.ret, track * w, w))
    return ('done', ne.ev(term), decided[0], term)


def analyse_nan(mod, fname, track=1, limit=80):
    """-> dict(paths=, nan_paths=, bad=[(prefix, why)], dropped=[...])"""
    f = mod.functions.get(fname)
    if f is None:
        return {'broken': 'wrapper %s missing' % fname}
    T.reset()
    out = {'paths': 0, 'nan_paths': 0, 'bad': [], 'dropped': [], 'decided_branches': 0}
    runs = [0]

    def go(prefix):
        if runs[0] >= limit:
            out['dropped'].append(('limit', list(prefix)))
            return 0
        runs[0] += 1
        r = run_path(mod, f, prefix, track)
        if r[0] == 'done':
            out['paths'] += 1
            out['decided_branches'] += r[2]
            if r[1].nan:
                out['nan_paths'] += 1
            else:
                out['bad'].append((''.join('TF'[not b] for b in prefix), T.fmt(r[3], 3)[:200]))
            return 1
        if r[0] == 'loop':
            out['dropped'].append((r[1], list(prefix)))
            return 0
        ls = r[1]
        if track in ls:
            out.setdefault('forks', []).append(T.fmt(r[2], 4)[:160])
            return go(prefix + [True]) + go(prefix + [False])
        n = go(prefix + [True])
        return n if n else go(prefix + [False])
    go([])
    return out
