"""Property id -> runner."""
from . import lane_props

registry = {}
registry.update(lane_props.REGISTRY)
