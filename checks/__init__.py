"""Property id -> runner."""
from . import lane_props

registry = {}
registry.update(lane_props.REGISTRY)


def _lazy(mod, fn='run'):
    def f(a):
        import importlib
        return getattr(importlib.import_module('checks.' + mod), fn)(a)
    return f


registry['C20'] = _lazy('c20')
registry['C19'] = _lazy('c19')
registry['C18'] = _lazy('c18')
registry['C15'] = _lazy('c15')
registry['C14'] = _lazy('c14')
registry['C13'] = _lazy('c13')
registry['C12'] = _lazy('c12')
registry['C10'] = _lazy('c10')
registry['C11'] = _lazy('c11')
