"""C10 / C11 kernel-accuracy clause for sin and cos (see checks/c10.py for the clause and its limits).

The public function is analysed one control path at a time: a branch oracle (engine/lanes.py) fixes the whole-batch
tier tests all(x <= c) and the scalar branches of the inlined fdlibm __ieee754_rem_pio2 for the tracked lane; every
completed loop-free path gives a lane term, read as a real function of |x| and of the integer k = nearbyint(|x| 2/pi)
(engine/realfn.py).  Per path and case:

  * the reduced argument u is the operand of the first squaring (z = xr * xr); it must be affine: u = |x| - lam k - c0;
  * the kernel G(u) must be sin(u) or cos(u) (either: which one belongs to which quadrant is NOT decided) within the
    threshold on the whole range of u that the path's conditions allow (a wrong tier / branch threshold shows up as a
    range on which the polynomial is no longer accurate);
  * |lam - pi/2| kmax + dist(c0, (pi/2) Z) is an absolute error of u that no later step can repair; at the edge of the
    range it is a relative error of the result of the same size;
  * separately rounded products k*c of the reduction are enumerated over every integer k of the tier (Cody-Waite).

Paths that run into the Payne-Hanek loops (|x| >= 2^20 pi/2 ...) are listed as not analysed.
"""
import struct
from fractions import Fraction as Fr

from engine import lanes, terms as T, realfn as RFN, qi as Q
from engine.ir import parse_type
from engine.realfn import NotReal
from engine.lanes import NotStraightLine


class Need(Exception):
    def __init__(self, lanes_, cond):
        Exception.__init__(self, 'decision needed')
        self.lanes, self.cond = lanes_, cond


def lanes_in(bv):
    from .c10 import walk_terms
    out = set()
    for t in walk_terms(bv):
        if t.kind == 'arg':
            out.add(t.attrs)
    return out


def run_path(mod, f, prefix, track):
    args = []
    for i, a in enumerate(f['args']):
        ty = parse_type(a['ty'])
        args.append(T.cat(*[T.atom_bv('a%d' % i, l, ty.elem.bits) for l in range(ty.n)]))
    ev = lanes.Eval(mod, f, args)
    idx = [0]

    def oracle(c, inst):
        i = idx[0]
        idx[0] += 1
        if i < len(prefix):
            return prefix[i]
        raise Need(lanes_in(c), c)
    ev.oracle = oracle
    try:
        ev.run()
    except Need as n:
        return ('need', n.lanes, n.cond)
    except (NotStraightLine, lanes.AssertsFalse) as e:
        return ('loop', str(e)[:120], None)
    except (ValueError, KeyError, IndexError, RecursionError, TypeError) as e:
        return ('loop', 'evaluation error %r' % (e,), None)
    w = parse_type(f['ret']).elem.bits
    return ('done', T.canon(T.slice_(ev.ret, track * w, w)), [(k, c) for (k, c, i_) in ev.assumed])


def explore(mod, f, track, limit=160):
    """every completed path that matters to lane `track`: [(term, assumed conditions)], plus the abandoned ones"""
    done, dropped = [], []
    runs = [0]

    def go(prefix):
        if runs[0] >= limit:
            dropped.append(('limit', prefix))
            return 0
        runs[0] += 1
        r = run_path(mod, f, prefix, track)
        if r[0] == 'done':
            done.append((r[1], r[2], list(prefix)))
            return 1
        if r[0] == 'loop':
            dropped.append((r[1], list(prefix)))
            return 0
        ls = r[1]
        if track in ls or len(ls) != 1:
            return go(prefix + [True]) + go(prefix + [False])
        # a branch of another lane's scalar code: any completing choice will do (it cannot touch the tracked lane, C13)
        n = go(prefix + [True])
        return n if n else go(prefix + [False])
    go([])
    return done, dropped


# ---------------------------------------------------------------- conditions -> range of |x|
def dec_f(v, w):
    return Fr(struct.unpack('<f', struct.pack('<I', v))[0]) if w == 32 else Fr(struct.unpack('<d', struct.pack('<Q', v))[0])


def is_ax(bv, track):
    """|x| or x of the tracked lane (possibly widened to double)"""
    bv = T.canon(bv)
    t = T.single_term(bv)
    if t is not None and t.name.startswith('fpext'):
        return is_ax(t.ops[0], track)
    if t is not None and t.kind == 'arg':
        return t.attrs == track
    if len(bv) == 2 and bv[0][0] == 's' and bv[0][1].kind == 'arg' and bv[0][1].attrs == track and bv[0][2] == 0 and bv[1][0] == 'c' and bv[1][2] == 0:
        return True
    # fabs of the widened argument: [fpext(x)[0:63] ++ 0]
    if len(bv) == 2 and bv[0][0] == 's' and bv[0][2] == 0 and bv[0][3] == bv[0][1].width - 1 and bv[1][0] == 'c' and bv[1][1] == 1 and bv[1][2] == 0:
        return is_ax((('s', bv[0][1], 0, bv[0][1].width),), track)
    return False


def hi_word_of_ax(bv, track):
    """is bv the high 31/32 bits of (double)|x| of the tracked lane (fdlibm's ix / hx)"""
    bv = T.canon(bv)
    if len(bv) == 2 and bv[1][0] == 'c' and bv[1][2] == 0 and bv[1][1] == 1:
        bv = (bv[0],)
        bits = 31
    else:
        bits = 32
    if len(bv) == 1 and bv[0][0] == 's' and bv[0][1].kind == 'arg' and bv[0][1].attrs == track and bv[0][1].width == 64 and bv[0][2] == 32 and bv[0][3] == 31 and bits == 31:
        return True                       # the double argument itself, sign bit dropped
    if len(bv) == 1 and bv[0][0] == 's' and bv[0][1].name.startswith('fpext') and bv[0][2] == 32 and bv[0][3] == bits:
        inner = bv[0][1].ops[0]
        c = T.canon(inner)
        if is_ax(inner, track) and len(c) == 2 and c[1][0] == 'c':       # the non-negative |x|
            return True
    return False


class Range(object):
    def __init__(self):
        self.lo, self.hi, self.lo_open, self.unknown = Fr(0), None, False, []
        self.excluded = []

    def le(self, c):
        self.hi = c if self.hi is None else min(self.hi, c)

    def ge(self, c):
        self.lo = max(self.lo, c)


def apply_cond(rg, kind, c, track):
    """kind: 'is' | 'not'.  Returns False when the condition concerns the tracked lane and is not understood."""
    c = T.canon(c)
    if T.is_const(c):
        return True
    t = T.single_term(c)
    if t is None:
        return track not in lanes_in(c)
    n = t.name
    if n == 'not' and len(t.ops) == 1:
        return apply_cond(rg, 'not' if kind == 'is' else 'is', t.ops[0], track)
    truth = (kind == 'is')
    # whole-batch: eq/ne(0, [p0 ++ p1 ++ ...]) over one-bit per-lane predicates
    if n in ('eq', 'ne') and any(T.is_const(o) for o in t.ops):
        k = [o for o in t.ops if T.is_const(o)][0]
        v = [o for o in t.ops if not T.is_const(o)][0]
        if len(lanes_in(v)) > 1:
            none_set = (T.const_val(k) == 0) == ((n == 'eq') == truth)
            allset = (T.const_val(k) == (1 << T.width(k)) - 1) == ((n == 'eq') == truth) and T.const_val(k) != 0
            for pce in T.canon(v):
                if pce[0] != 's' or track not in lanes_in((pce,)):
                    continue
                if T.pw(pce) != 1:
                    return not (none_set or allset)
                if none_set:
                    if not apply_cond(rg, 'not', (pce,), track):
                        return False
                elif allset and T.const_val(k) == (1 << T.width(k)) - 1:
                    if not apply_cond(rg, 'is', (pce,), track):
                        return False
            return True
        if hi_word_of_ax(v, track):
            # fdlibm: ix == C
            C = T.const_val(k)
            if (n == 'eq') == truth:
                rg.ge(dec_f(C << 32, 64))
                rg.le(dec_f(((C + 1) << 32) - 1, 64))
            else:
                rg.excluded.append((dec_f(C << 32, 64), dec_f(((C + 1) << 32) - 1, 64)))       # ix != C
            return True
    if n.startswith('f') and n[1:] in ('olt', 'ole', 'ult', 'ule', 'oeq', 'une', 'ogt', 'oge', 'ugt', 'uge'):
        a, b = t.ops
        if T.is_const(T.canon(a)) and is_ax(b, track):
            cv = dec_f(T.const_val(T.canon(a)), T.width(a)) if not _nonfinite(a) else None
            pred = n[2:]
            if cv is None:
                return True                   # comparison with +-inf / NaN: no bound on finite |x|
            lt = {'lt': True, 'le': True}.get(pred)
            if lt:                            # C < |x|  (or <=)
                (rg.ge if truth else rg.le)(cv)
                return True
            if pred in ('gt', 'ge'):
                (rg.le if truth else rg.ge)(cv)
                return True
            if pred in ('eq', 'ne'):
                return True
        if T.is_const(T.canon(b)) and is_ax(a, track):
            cv = dec_f(T.const_val(T.canon(b)), T.width(b)) if not _nonfinite(b) else None
            pred = n[2:]
            if cv is None:
                return True
            if pred in ('lt', 'le'):
                (rg.le if truth else rg.ge)(cv)
                return True
            if pred in ('gt', 'ge'):
                (rg.ge if truth else rg.le)(cv)
                return True
            if pred in ('eq', 'ne'):
                return True
    if n in ('ult', 'ule', 'ugt', 'uge', 'slt', 'sle', 'sgt', 'sge'):
        a, b = t.ops
        for (x, k, flip) in ((a, b, False), (b, a, True)):
            if T.is_const(T.canon(k)) and hi_word_of_ax(x, track):
                C = T.const_val(T.canon(k))
                pred = n[1:]
                less = (pred in ('lt', 'le')) != flip          # hi(x) < C ?
                strict = pred in ('lt', 'gt')
                thr = C if (less == strict) else C + 1         # hi < thr
                if thr >= 0x7ff00000:
                    if less != truth:
                        rg.ge(Fr(10) ** 400)                   # only an infinite / NaN argument comes here
                    return True
                bound = dec_f(thr << 32, 64)
                if less == truth:
                    rg.le(bound)                               # |x| < bound (closed is a superset)
                else:
                    rg.ge(bound)
                return True
    return track not in lanes_in(c)


def _nonfinite(bv):
    bv = T.canon(bv)
    w = T.width(bv)
    v = T.const_val(bv)
    e = (v >> 23) & 0xff if w == 32 else (v >> 52) & 0x7ff
    return e == (0xff if w == 32 else 0x7ff)


# ---------------------------------------------------------------- one case
def p_res(bits):
    return 24 if bits == 32 else 53


def find_xr(ex, term):
    """the reduced argument: operand T of a squaring fmul(T, T) whose real reading is affine with |x| coefficient 1"""
    from .c10 import walk_terms
    cands = []
    for t in walk_terms(term):
        if t.name == 'fmul' and T._key(T.canon(t.ops[0])) == T._key(T.canon(t.ops[1])):
            cands.append(t.ops[0])
    return cands


def k_atom_info(ex, i, track):
    """(c) if atom i is k = nearbyint(c |x|) (any of the idioms), else None"""
    bv = ex.atoms[i]
    t = T.single_term(bv)
    if t is None:
        return None
    from .c10 import is_round_nearest
    inner = None
    if is_round_nearest(t):
        inner = t.ops[0]
    elif t.name.startswith('sitofp'):
        t2 = T.single_term(T.canon(t.ops[0]))
        if t2 is not None and t2.name.startswith(('fptosi', 'x86.cvttps2dq', 'x86.cvttpd2dq', 'x86.cvtps2dq')):
            # (double)(int)(t * invpio2 + half): round to nearest for t >= 0
            t3 = T.single_term(T.canon(t2.ops[0]))
            if t3 is not None and t3.name in ('fadd', 'fma', 'fmuladd'):
                ops = list(t3.ops)
                half = [o for o in ops if T.is_const(T.canon(o)) and not _nonfinite(o) and dec_f(T.const_val(T.canon(o)), T.width(o)) == Fr(1, 2)]
                if half and t3.name == 'fadd':
                    inner = [o for o in ops if o is not half[0]][0]
                elif half:
                    inner = T.raw_op('fmul', T.width(ops[0]), ops[0], ops[1])
    if inner is None:
        return None
    it = T.single_term(T.canon(inner))
    if it is None or it.name != 'fmul':
        return None
    cs = [o for o in it.ops if T.is_const(T.canon(o))]
    xs = [o for o in it.ops if not T.is_const(T.canon(o))]
    if len(cs) != 1 or len(xs) != 1 or not is_ax(xs[0], track):
        return None
    return dec_f(T.const_val(T.canon(cs[0])), T.width(cs[0]))


def analyse_case(ex, term, g, rg, track, bits, func, conds=(), exact_conditions=True):
    """-> dict (ulp, details) or raises Mismatch"""
    from .c10 import Mismatch, ulps, cody_waite_error
    atoms = sorted(g.atoms())
    AX = K = None
    c = None
    for i in atoms:
        if is_ax(ex.atoms[i], track):
            if AX is not None and AX != i:
                raise Mismatch('two argument atoms')
            AX = i
            continue
        ci = k_atom_info(ex, i, track)
        if ci is not None and K is None:
            K, c = i, ci
            continue
        raise Mismatch('unexpected atom %s' % T.fmt(ex.atoms[i], 4)[:100])
    if AX is None:
        raise Mismatch('the case does not depend on the argument')
    # the reduced argument
    xr = None
    for cand in find_xr(ex, term):
        try:
            cc = ex.cases(cand)
        except NotReal:
            continue
        for (cc_conds, fx) in cc:
            if RFN._merge_conds([tuple(conds), cc_conds]) is None:
                continue                                   # the reduced argument of another case
            if fx.den != RFN.p_const(1):
                continue
            coef = fx.num.get(((AX, 1),))
            if coef not in (Fr(1), Fr(-1)):
                continue
            if all(m in ((), ((AX, 1),), ((K, 1),)) for m in fx.num):
                xr = fx
                break
        if xr is not None:
            break
    if xr is None:
        raise Mismatch('no affine reduced argument found')
    s = xr.num[((AX, 1),)]
    lam_code = -xr.num.get(((K, 1),), Fr(0)) / s if K is not None else Fr(0)
    c0 = -xr.num.get((), Fr(0)) / s
    # AX = s*u + lam K + c0  (s = +-1)
    sub = RFN.p_add(RFN.p_add({((AX, 1),): s}, RFN.p_atom(K) if K is not None else {}, lam_code), RFN.p_const(c0))
    gu = g.subst(AX, sub)
    if K is not None and K in gu.atoms():
        raise Mismatch('the case does not depend on |x| and k through the reduced argument alone')
    N, D = Q.Poly(RFN.p_univariate(gu.num, AX)), Q.Poly(RFN.p_univariate(gu.den, AX))
    # range of u
    # precision of the arithmetic that reduces the argument (fdlibm's scalar path works in double also for float)
    p = (53 if T.width(ex.atoms[K]) == 64 else 24) if K is not None else (24 if bits == 32 else 53)
    if rg.hi is None:
        if K is not None:
            # a loop-free path that reduces with k = nearbyint(c |x|) and the finite constants lam, entered without any
            # upper bound on the lane's |x|: the reduced argument is off by k |lam - pi/2|, k up to c * MAX -- a verdict,
            # not a template mismatch (seeded change C13-7: all(x <= mediumpi) turned into any(x <= mediumpi))
            lam_err = (Q.QI(lam_code) - Q.pi() * Fr(1, 2)).mag()
            return {'verdict': 'bad', 'ulp': float('inf'), 'u_range': 'unbounded',
                    'why': 'the conditions of this control path put NO upper bound on |x| of the lane (a whole-batch test that other lanes can satisfy on its behalf), '
                           'yet the argument is reduced with k = nearbyint(%.6g |x|) and finite constants, |lam - pi/2| = %.3g: the reduced argument is off by k times that, without bound' % (float(c), float(lam_err))}
        raise Mismatch('the path does not bound |x|')
    pio2 = Q.pi() * Fr(1, 2)
    if K is not None:
        kmax = int(rg.hi * c) + 2
        half = Fr(1, 2) + Fr(kmax + 1, 1 << p)
        U = half / c + kmax * abs(1 / c - lam_code)
        ulo, uhi = -U, U
        e_u = (Q.QI(lam_code) - pio2).mag() * kmax
    else:
        kmax = 0
        a, b = (rg.lo - c0) * s, (rg.hi - c0) * s
        ulo, uhi = min(a, b), max(a, b)
        # c0 must be a multiple of pi/2 (which one is the quadrant logic's business)
        j = round(float(c0) / 1.5707963267948966)
        e_u = (Q.QI(c0) - pio2 * j).mag()
    slack = (uhi - ulo) / 4096
    ulo, uhi = ulo - slack, uhi + slack
    R = max(abs(ulo), abs(uhi))
    if R > Fr(7, 2):
        return {'verdict': 'bad', 'ulp': float('inf'), 'why': 'reduced argument ranges over [%.4g, %.4g]: far outside the kernels\' interval' % (float(ulo), float(uhi)),
                'u_range': (float(ulo), float(uhi))}
    eb = 50 if bits == 32 else 85
    best = None
    tried = {}
    def tan_like(NN, DD):
        """bound of | (NN/DD) / tan(u) -+ 1 | with NN(0) = 0: NN = u N1;  (N1 C - DD S1) / (DD S1), S1 = sin(u)/u"""
        sser, cser = Q.sin_over_x_series(R, eps_bits=eb), Q.cos_series(R, eps_bits=eb)
        N1 = NN.shift_down(1)
        den = DD.to_qi() * sser.poly
        extra = Q.sup_abs(N1, ulo, uhi, 16) * cser.tail + Q.sup_abs(DD, ulo, uhi, 16) * sser.tail
        dmin = Q.inf_abs(den, ulo, uhi, 32) - Q.sup_abs(DD, ulo, uhi, 16) * sser.tail
        if dmin <= 0:
            raise ZeroDivisionError()
        out = None
        for sgn in (1, -1):
            num = N1.to_qi() * cser.poly - den * sgn
            b_ = Q.sup_ratio(num, den, ulo, uhi, 64) + extra / dmin
            out = b_ if out is None or b_ < out else out
        return out

    for kind in (('tan', 'cot') if func == 'tan' else ()):
        try:
            if kind == 'tan':
                if N.c[0] != 0 or D.c[0] == 0:
                    if ulo <= 0 <= uhi:
                        tried[kind] = float('inf')
                    continue
                rho = tan_like(N, D)
            else:
                if D.c[0] != 0 or N.c[0] == 0:
                    if ulo <= 0 <= uhi:
                        tried[kind] = float('inf')
                    continue
                rr = tan_like(D, N)                    # (D/N)/tan = 1/r' ... |1/x - 1| <= e/(1-e)
                rho = rr / (1 - rr) if rr < 1 else Fr(10 ** 9)
        except ZeroDivisionError:
            tried[kind] = float('inf')
            continue
        tried[kind] = float(ulps(rho, bits))
        if best is None or rho < best[1]:
            best = (kind, rho)
    for kind in (('sin', 'cos') if func != 'tan' else ()):
        try:
            if kind == 'sin':
                ser = Q.sin_over_x_series(R, eps_bits=eb)
                if N.c[0] != 0:
                    # G(0) != 0: as sin it has an infinite relative error at u = 0 if 0 is in range
                    if ulo <= 0 <= uhi:
                        tried[kind] = float('inf')
                    continue
                n1 = N.shift_down(1)
                diff = n1.to_qi() - ser.poly * D.to_qi()
                qe = Q.sup_ratio(diff, D, ulo, uhi, 64, ser.tail)
                srng = Q.range_qi(ser.poly, ulo, uhi, 32).widen(ser.tail)
                if srng.mig() == 0:
                    continue
                rho = qe / srng.mig()
            else:
                ser = Q.cos_series(R, eps_bits=eb)
                diff = N.to_qi() - ser.poly * D.to_qi()
                qe = Q.sup_ratio(diff, D, ulo, uhi, 64, ser.tail)
                crng = Q.range_qi(ser.poly, ulo, uhi, 32).widen(ser.tail)
                if crng.mig() == 0:
                    tried[kind] = float('inf')
                    continue
                rho = qe / crng.mig()
        except ZeroDivisionError:
            continue
        tried[kind] = float(ulps(rho, bits))
        if best is None or rho < best[1]:
            best = (kind, rho)
    if best is None:
        if tried and all(v == float('inf') for v in tried.values()):
            return {'verdict': 'bad', 'ulp': float('inf'), 'u_range': (float(ulo), float(uhi)), 'c0': float(c0), 'kmax': kmax,
                    'why': 'on the reduced range [%.4g, %.4g] the kernel is none of the expected functions: the range contains a zero of the function where the kernel does not vanish' % (float(ulo), float(uhi))}
        raise Mismatch('neither sin nor cos comparable on the reduced range')
    # arguments that are (nearly) multiples of pi/2: the float x_n nearest to n pi/2 leaves a reduced argument
    # u_n = x_n - n pi/2 that can be tiny, and the error n |lam - pi/2| of the reduction constants is then a relative
    # error n |lam - pi/2| / |u_n| of the function that vanishes there (sin: n even, cos: n odd, tan: both).
    near = None
    if (K is not None or c0 != 0) and exact_conditions:
        from engine import pointeval as PEV
        wbits = bits
        piq = pio2
        d_lam = (Q.QI(lam_code) - pio2).mag() if K is not None else Fr(0)
        nlist = range(1, kmax + 1) if K is not None else [round(float(c0) / 1.5707963267948966)]
        if K is not None and kmax > 4096:
            # far tiers: only if the constants could matter at all (no float is closer than 2^-(p+12) relative to a multiple)
            nlist = range(1, 4097) if d_lam * kmax * (1 << (2 * p_res(bits) + 12)) > 1 else []
        worst = Fr(0)
        for n_ in nlist:
            if n_ <= 0:
                continue
            if func == 'sin' and n_ % 2 == 1:
                continue
            if func == 'cos' and n_ % 2 == 0:
                continue
            target = piq * n_
            xb = PEV.round_to_bits(target.mid(), wbits)
            xn = dec_f(xb, wbits)
            if xn < rg.lo or (rg.hi is not None and xn > rg.hi) or any(a_ <= xn <= b_ for (a_, b_) in rg.excluded):
                continue
            un = (Q.QI(xn) - target).mig()
            if un == 0:
                continue
            e_n = d_lam * n_ if K is not None else (Q.QI(c0) - pio2 * n_).mag()
            # the true result there is +-sin(u_n) ~ u_n (or its reciprocal for tan): the error in ulps of THAT value (exact binade)
            eb_ = un.numerator.bit_length() - un.denominator.bit_length()
            if Fr(2) ** eb_ > un:
                eb_ -= 1
            ulp_true = Fr(2) ** (eb_ - p_res(bits) + 1)
            r_n = (e_n / ulp_true) / (1 << p_res(bits))          # expressed as the relative error that gives this ulp count
            if r_n > worst:
                worst = r_n
                near = {'n': n_, 'x': float(xn), 'x_hex': float(xn).hex(), 'reduced': float(un), 'rel_err': float(r_n)}
        if near is not None:
            near['ulp'] = float(ulps(worst, bits))
            near['ulp_exact'] = ulps(worst, bits)
    cw = Fr(0)
    cw_site = None
    if K is not None:
        cw, cw_site = cody_waite_error(ex, term, K, min(kmax, 4096), p)
    rho = best[1] + e_u + cw
    if near is not None and near['ulp_exact'] > ulps(rho, bits):
        rho = near.pop('ulp_exact') / (1 << p_res(bits))
    elif near is not None:
        near.pop('ulp_exact')
    return {'near_multiple': near, 'verdict': None, 'kernel': best[0], 'ulp_exact': ulps(rho, bits), 'ulp': float(ulps(rho, bits)), 'kernel_ulp': float(ulps(best[1], bits)),
            'reduction_const_ulp': float(ulps(e_u, bits)), 'cody_waite_ulp': float(ulps(cw, bits)), 'cody_waite_site': cw_site,
            'u_range': (float(ulo), float(uhi)), 'kmax': kmax, 'lambda_code': float(lam_code), 'c0': float(c0), 'either': tried}


def analyse_trig(mod, fname, func, bits, thr):
    """-> list of per-case results for one public function"""
    from .c10 import Mismatch
    f = mod.functions.get(fname)
    if f is None:
        raise Mismatch('wrapper %s missing' % fname)
    track = 1
    T.reset()
    done, dropped = explore(mod, f, track)
    out = {'paths': len(done), 'not_analysed': [d[0] for d in dropped][:12], 'cases': []}
    if not done:
        raise Mismatch('no loop-free path through %s' % fname)
    seen = set()
    for (term, assumed, prefix) in done:
        rg = Range()
        understood = True
        for (kind, c) in assumed:
            if not apply_cond(rg, kind, c, track):
                understood = False
                rg.unknown.append(T.fmt(c, 3)[:100])
        if (rg.hi is not None and rg.lo > rg.hi) or rg.lo >= Fr(10) ** 300:
            continue                                      # infeasible combination of branches / only a non-finite argument comes here
        ex = RFN.Extract()
        try:
            cs = ex.cases_abs(term)
        except NotReal as e:
            out['cases'].append({'path': ''.join('T' if x else 'F' for x in prefix), 'verdict': 'mismatch', 'why': str(e)[:200]})
            continue
        for (conds, g) in cs:
            if not g.atoms() or all(T.is_const(ex.atoms[a]) for a in g.atoms()):
                continue                                  # a constant / NaN result (infinite argument)
            rg2 = Range()
            rg2.lo, rg2.hi = rg.lo, rg.hi
            rg2.excluded = list(rg.excluded)
            ok2 = understood
            for (ck, taken) in conds:
                cb = getattr(ex, 'conds', {}).get(ck)
                if cb is None or not apply_cond(rg2, 'is' if taken else 'not', cb, track):
                    # quadrant-selection conditions are not interpreted: the either-sin-or-cos rule covers them
                    pass
            if rg2.hi is not None and rg2.lo > rg2.hi:
                continue
            key = (T._key(term), tuple(sorted((repr(k), v) for k, v in conds)))
            if key in seen:
                continue
            seen.add(key)
            rec = {'path': ''.join('T' if x else 'F' for x in prefix), 'x_range': (float(rg2.lo), float(rg2.hi) if rg2.hi is not None else None)}
            has_k = any(k_atom_info(ex, a_, track) is not None for a_ in g.atoms())
            if not ok2 and has_k:
                # fdlibm's medium path: the remaining tests (n < 32 && ix != npio2_hw[n-1], exponent differences) choose how
                # many terms of pi/2 are subtracted; the range of the reduced argument comes from k = nearbyint(x 2/pi), not from them
                rec['ignored_conditions'] = rg.unknown[:3]
                ok2 = True
            if not ok2:
                rec.update(verdict='skipped', why='a condition on the tracked lane is not understood: %s' % rg.unknown[:2])
                out['cases'].append(rec)
                continue
            try:
                r = analyse_case(ex, term, g, rg2, track, bits, func, conds, exact_conditions=not rec.get('ignored_conditions'))
                if r['verdict'] is None:
                    r['verdict'] = 'ok' if r.pop('ulp_exact') <= thr else 'bad'
                rec.update(r)
            except Mismatch as e:
                rec.update(verdict='mismatch', why=str(e)[:200])
            out['cases'].append(rec)
    return out
