"""C11 -- the kernel-accuracy clause for the double-precision elementary functions: see checks/c10.py."""
from . import c10


def run(a):
    return c10.run_for('C11', 64, a)
