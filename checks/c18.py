"""C18 -- aligned_allocator and alignment predicates (DESIGN 3.C18).

IR path rules over small wrappers (engine/sym.py: every acyclic path, symbolic arguments, predicate
abstraction for what a path condition implies) plus compile-time witnesses.  Nothing is executed.

 R1 size-overflow guard   the size handed to the allocation primitive is n*sizeof(T), and on every path that reaches
                          the primitive the path condition implies n <= SIZE_MAX/sizeof(T) (or the overflow flag of
                          umul.with.overflow is false)
 R2 failure => bad_alloc  every returning path implies rc == 0 and result != null and returns the primitive's block;
                          every other path throws std::bad_alloc; no path throws after a successful allocation (leak)
 R3 primitive contract    alignment argument == Align; the out-parameter is a local; the return code is tested
 R4 pairing               deallocate(p, n) calls free exactly once on exactly p, nothing else
 R5 stateless             the allocator is an empty class; allocate/deallocate touch no global state
 R6 equality              operator== / != are Align1 == Align2 / !=
 R7 is_aligned<A>(p)      is (p mod A::alignment()) == 0 ; default Align == default_arch::alignment() >= register alignment
 R8 get_alignment_offset  path-by-path equal to the closed form (which is checked here, by enumeration in the checker's own
                          arithmetic, against the definition 'smallest k <= size with p+k block-aligned, else size')
"""
import itertools
import os

from engine import build, ir, sym, report, witness as WIT
from engine.sym import C, mk
from catalogue import configs as CF

TYPES = [('c', 'char', 1), ('s', 'short', 2), ('f', 'float', 4), ('d', 'double', 8), ('s3', 'S3', 3), ('s24', 'S24', 24), ('s40', 'S40', 40)]
ALIGNS = [8, 16, 32, 64, 128, 4096]
ARCHS = [(c.name, c.arch) for c in CF.CONFIGS]
SIZE_MAX = (1 << 64) - 1
PRIMS = {'posix_memalign': dict(size=2, align=1, out=0), 'aligned_alloc': dict(size=1, align=0, out=None)}
FREES = {'free'}


def tu_text():
    L = ['#include <xsimd/xsimd.hpp>', '#include <cstddef>', 'struct S3 { char c[3]; }; struct S24 { char c[24]; }; struct S40 { double d[5]; };', 'extern "C" {']
    meta = {}
    for (tn, t, sz) in TYPES:
        for al in ALIGNS:
            n = 'alloc_%s_%d' % (tn, al)
            L.append('%s* %s(size_t n) { return xsimd::aligned_allocator<%s, %d>().allocate(n); }' % (t, n, t, al))
            meta[n] = ('alloc', t, sz, al)
            n = 'dealloc_%s_%d' % (tn, al)
            L.append('void %s(%s* p, size_t n) { xsimd::aligned_allocator<%s, %d>().deallocate(p, n); }' % (n, t, t, al))
            meta[n] = ('dealloc', t, sz, al)
        n = 'alloch_%s' % tn
        L.append('%s* %s(size_t n, const void* hint) { return xsimd::aligned_allocator<%s, 64>().allocate(n, hint); }' % (t, n, t))
        meta[n] = ('alloc', t, sz, 64)
        n = 'maxsize_%s' % tn
        L.append('size_t %s() { return xsimd::aligned_allocator<%s, 64>().max_size(); }' % (n, t))
        meta[n] = ('maxsize', t, sz, 64)
        n = 'gao_%s' % tn
        L.append('size_t %s(const %s* p, size_t size, size_t block) { return xsimd::get_alignment_offset(p, size, block); }' % (n, t))
        meta[n] = ('gao', t, sz, 0)
    for (a1, a2) in itertools.product(ALIGNS, ALIGNS):
        for (t1, t2) in (('float', 'double'), ('char', 'char')):
            n = 'eq_%s%d_%s%d' % (t1[0], a1, t2[0], a2)
            L.append('bool %s() { return xsimd::aligned_allocator<%s, %d>() == xsimd::aligned_allocator<%s, %d>(); }' % (n, t1, a1, t2, a2))
            meta[n] = ('eq', a1, a2, True)
            n = 'ne_%s%d_%s%d' % (t1[0], a1, t2[0], a2)
            L.append('bool %s() { return xsimd::aligned_allocator<%s, %d>() != xsimd::aligned_allocator<%s, %d>(); }' % (n, t1, a1, t2, a2))
            meta[n] = ('eq', a1, a2, False)
    L.append('void* amalloc(size_t size, size_t al) { return xsimd::aligned_malloc(size, al); }')
    meta['amalloc'] = ('amalloc', None, 1, None)
    L.append('void afree(void* p) { xsimd::aligned_free(p); }')
    meta['afree'] = ('dealloc', 'void', 1, None)
    for (an, a) in ARCHS:
        L.append('bool isal_%s(const void* p) { return xsimd::is_aligned<%s>(p); }' % (an, a))
        meta['isal_' + an] = ('isal', a, an, None)
        L.append('size_t alof_%s() { return %s::alignment(); }' % (an, a))
        meta['alof_' + an] = ('alof', a, an, None)
    L.append('bool isal_default(const void* p) { return xsimd::is_aligned(p); }')
    meta['isal_default'] = ('isal', 'xsimd::default_arch', 'default', None)
    L.append('size_t alof_default() { return xsimd::default_arch::alignment(); }')
    meta['alof_default'] = ('alof', 'xsimd::default_arch', 'default', None)
    L.append('}')
    return '\n'.join(L) + '\n', meta


def src(inst):
    ch = ir.src_chain(inst) if inst else []
    return ' <- '.join(ch[:3])


def isnull(e):
    if e[0] == 'c':
        return C(1, int(e[2] == 0))
    if e[0] == 'op' and e[1] == 'select':
        return mk('select', 1, e[3][0], isnull(e[3][1]), isnull(e[3][2]))
    return mk('icmp', 1, 'eq', e, C(64, 0))


def strip_sel(e):
    """the non-null leaves of a select tree"""
    if e[0] == 'op' and e[1] == 'select':
        return strip_sel(e[3][1]) + strip_sel(e[3][2])
    if e[0] == 'c' and e[2] == 0:
        return []
    return [e]


def n_bound_implied(conds, n, limit):
    """do the path conditions imply n <= limit ?  looks for an atom comparing n with a constant"""
    atoms = []
    for (c, pol) in conds:
        sym.atoms_of(c, atoms)
    for a in atoms:
        if a[0] == 'op' and a[1] == 'icmp' and a[3][1] == n and a[3][2][0] == 'c':
            pred, k = a[3][0], a[3][2][2]
            # atom true  means ...          atom false means ...
            if pred == 'ugt' and k <= limit:      # false => n <= k
                ok, _ = sym.implies(conds, a, False)
            elif pred == 'uge' and k - 1 <= limit and k > 0:
                ok, _ = sym.implies(conds, a, False)
            elif pred == 'ult' and k - 1 <= limit and k > 0:   # true => n < k
                ok, _ = sym.implies(conds, a, True)
            elif pred == 'ule' and k <= limit:
                ok, _ = sym.implies(conds, a, True)
            elif pred == 'slt' and k == 0 and (1 << 63) - 1 <= limit:     # LLVM's form of n > 2^63-1: false => n <= 2^63-1
                ok, _ = sym.implies(conds, a, False)
            elif pred == 'sgt' and k == SIZE_MAX and (1 << 63) - 1 <= limit:   # n >s -1: true => n <= 2^63-1
                ok, _ = sym.implies(conds, a, True)
            else:
                continue
            if ok:
                return True, 'n %s %d' % (pred, k)
        if a[0] == 'op' and a[1] == 'umul.overflows' and n in a[3]:
            ok, _ = sym.implies(conds, a, False)
            if ok:
                return True, 'umul.with.overflow flag is false'
    return False, None


def check_alloc(name, t, sz, al, fn, mod, out):
    n = ('arg', 0, None)
    try:
        paths = sym.Sym(mod, fn).run()
    except sym.TooComplex as e:
        out('broken', name, 'allocate wrapper not analysable: %s' % e, None)
        return 0
    nob = 0
    rets = [p for p in paths if p.term[0] == 'ret']
    if not rets:
        out('R2', name, 'allocate(%s, Align=%d) has no returning path' % (t, al), None)
    for p in paths:
        conds = [(c, pol) for (c, pol, i) in p.conds]
        prim = [e for e in p.events if e[0] == 'call' and e[1] in PRIMS]
        other = [e for e in p.events if e[0] == 'call' and e[1] not in PRIMS and e[1] not in ('__cxa_allocate_exception', '__cxa_throw', '__assert_fail')]
        nob += 1
        if other:
            out('broken', name, 'unmodelled call %s on a path of allocate (the rule table knows posix_memalign / aligned_alloc only)' % other[0][1], other[0][4])
            continue
        if len(prim) > 1:
            out('R2', name, 'allocation primitive called %d times on one path' % len(prim), prim[1][4])
            continue
        # R5: no global state
        for e in p.events:
            if e[0] in ('gstore',) or (e[0] == 'gload' and not e[1].startswith('_ZT')):
                out('R5', name, 'allocate touches global %s' % e[1], e[-1])
            if e[0] == 'store' and not (e[1][0] == 'call' and e[1][1] == '__cxa_allocate_exception'):
                out('R5', name, 'allocate stores to non-local memory %s' % sym.fmt(e[1]), e[-1])
        if prim:
            e = prim[0]
            spec = PRIMS[e[1]]
            size, align = e[3][spec['size']], e[3][spec['align']]
            # R1
            nob += 1
            want = mk('mul', 64, n, C(64, sz))
            if size != want:
                out('R1', name, 'size passed to %s is %s, expected n*sizeof(T) = %s' % (e[1], sym.fmt(size), sym.fmt(want)), e[4])
            elif sz > 1:
                ok, how = n_bound_implied(conds, n, SIZE_MAX // sz)
                if not ok:
                    out('R1', name, 'no overflow guard: %s is reached with size n*%d and no path condition bounds n by SIZE_MAX/%d (path condition: %s) -- n*sizeof(T) wraps and a too-small block is returned instead of std::bad_alloc'
                        % (e[1], sz, sz, ' & '.join(('' if pol else '!') + sym.fmt(c, 4) for c, pol in conds) or 'true'), e[4])
            # R3
            nob += 1
            if align != C(64, al):
                out('R3', name, 'alignment passed to %s is %s, the allocator promises Align = %d' % (e[1], sym.fmt(align), al), e[4])
            if spec['out'] is not None and e[3][spec['out']][0] != 'alloca':
                out('R3', name, 'out-parameter of %s is not a local' % e[1], e[4])
        if p.term[0] == 'ret':
            nob += 1
            r = p.term[1]
            if not prim:
                out('R2', name, 'a path returns %s without having allocated' % sym.fmt(r), None)
                continue
            e = prim[0]
            spec = PRIMS[e[1]]
            blk = ('out', e[1], e[2], None) if spec['out'] is not None else ('call', e[1], e[2], 64)
            leaves = strip_sel(r)
            if not leaves or any(not (l[0] == blk[0] and l[1] == blk[1] and l[2] == blk[2]) for l in leaves):
                out('R2', name, 'returned pointer %s is not the block produced by %s' % (sym.fmt(r), e[1]), e[4])
                continue
            ok, cex = sym.implies(conds, isnull(r), False)
            if not ok:
                out('R2', name, 'a returning path does not exclude a null result: allocate can return nullptr instead of throwing std::bad_alloc', e[4])
            if spec['out'] is not None:
                rc = ('call', e[1], e[2], 32)
                ok, cex = sym.implies(conds, mk('icmp', 1, 'eq', rc, C(32, 0)), True)
                if not ok:
                    out('R3', name, 'a returning path does not imply that %s returned 0 (its result code is not tested)' % e[1], e[4])
        elif p.term[0] == 'throw':
            nob += 1
            if p.term[1] != '_ZTISt9bad_alloc':
                out('R2', name, 'failure is reported by throwing %s, not std::bad_alloc' % p.term[1], None)
            if prim:
                e = prim[0]
                spec = PRIMS[e[1]]
                if spec['out'] is not None:
                    rc = ('call', e[1], e[2], 32)
                    blk = [v for v in _mem_outs(p, e)]
                    fail = mk('not', 1, mk('icmp', 1, 'eq', rc, C(32, 0)))
                    for b in blk:
                        fail = mk('or', 1, fail, mk('icmp', 1, 'eq', b, C(64, 0)))
                    ok, cex = sym.implies(conds, fail, True)
                    if not ok:
                        out('R2', name, 'a path throws after a successful allocation (the block leaks and a satisfiable request is refused)', e[4])
        elif p.term[0] == 'unreachable':
            asr = [e for e in p.events if e[0] == 'call' and e[1] == '__assert_fail']
            if not asr:
                out('R2', name, 'a path ends in unreachable without throwing', None)
        else:
            out('broken', name, 'path terminal %s' % (p.term,), None)
    return nob


def _mem_outs(p, e):
    """the out-parameter values of call e that appear in the path conditions"""
    acc = []

    def walk(x):
        if isinstance(x, tuple):
            if x and x[0] == 'out' and x[1] == e[1] and x[2] == e[2]:
                if x not in acc:
                    acc.append(x)
            for y in x:
                walk(y)
    for (c, pol, i) in p.conds:
        walk(c)
    return acc


def check_amalloc(name, fn, mod, out):
    """xsimd::aligned_malloc(size, alignment): forwards both to the primitive, returns its block or null"""
    paths = sym.Sym(mod, fn).run()
    nob = 0
    for p in paths:
        if p.term[0] == 'unreachable' and any(e[0] == 'call' and e[1] == '__assert_fail' for e in p.events):
            continue   # documented preconditions (power of two, >= sizeof(void*))
        nob += 1
        prim = [e for e in p.events if e[0] == 'call' and e[1] in PRIMS]
        if len(prim) != 1:
            out('R3', name, 'aligned_malloc calls the allocation primitive %d times on a path' % len(prim), None)
            continue
        e = prim[0]
        spec = PRIMS[e[1]]
        if e[3][spec['size']] != ('arg', 0, None) or e[3][spec['align']] != ('arg', 1, None):
            out('R3', name, 'aligned_malloc passes (size=%s, alignment=%s) to %s' % (sym.fmt(e[3][spec['size']]), sym.fmt(e[3][spec['align']]), e[1]), e[4])
        if p.term[0] != 'ret':
            out('R3', name, 'aligned_malloc path does not return', e[4])
            continue
        conds = [(c, pol) for (c, pol, i) in p.conds]
        r = p.term[1]
        if spec['out'] is not None:
            # result must be null whenever rc != 0
            rc = ('call', e[1], e[2], 32)
            ok, _ = sym.implies(conds + [(mk('icmp', 1, 'eq', rc, C(32, 0)), False)], isnull(r), True)
            if not ok:
                out('R3', name, 'aligned_malloc can return a non-null pointer although %s failed' % e[1], e[4])
    return nob


def check_dealloc(name, fn, mod, out):
    paths = sym.Sym(mod, fn).run()
    for p in paths:
        calls = p.calls()
        fr = [e for e in calls if e[1] in FREES]
        if len(fr) != 1 or len(calls) != 1:
            out('R4', name, 'deallocate must release the block with exactly one call to free(): calls on this path: %s' % ([e[1] for e in calls] or 'none'), calls[0][4] if calls else None)
            continue
        if fr[0][3][0] != ('arg', 0, None):
            out('R4', name, 'free() is called with %s, not with the pointer passed to deallocate' % sym.fmt(fr[0][3][0]), fr[0][4])
        if p.term[0] != 'ret':
            out('R4', name, 'deallocate path does not return', None)
        for e in p.events:
            if e[0] in ('gstore', 'gload', 'store', 'load'):
                out('R5', name, 'deallocate touches memory/global state: %s' % (e[:2],), e[-1])
    return len(paths)


def const_ret(fn, mod):
    paths = sym.Sym(mod, fn).run()
    if len(paths) == 1 and paths[0].term[0] == 'ret' and paths[0].term[1] is not None and paths[0].term[1][0] == 'c' and not paths[0].events:
        return paths[0].term[1][2]
    return None


# ---- R8: closed form of get_alignment_offset, and its justification against the definition
def gao_closed_form(p, size, block, s):
    """the reviewed closed form, in the checker's own integer arithmetic"""
    if block == 1:
        return 0
    if p & (s - 1):
        return size
    mask = block - 1
    return min((block - ((p // s) & mask)) & mask, size)


def gao_definition(p, size, block, s):
    """property text: the smallest k <= size such that element pointer p+k is block-aligned, or size if none.
    'block-aligned' for a block of `block` elements of size s: the address is a multiple of block*s."""
    if block == 1:
        return 0          # a block of exactly one scalar: every element is its own (aligned) block
    for k in range(0, size + 1):
        if (p + k * s) % (block * s) == 0:
            return k
    return size


def justify_closed_form():
    n = 0
    for s in (1, 2, 4, 8):
        for block in (1, 2, 4, 8, 16):
            for p in range(0, 2 * block * s + 1):
                for size in range(0, 2 * block + 2):
                    if gao_closed_form(p, size, block, s) != gao_definition(p, size, block, s):
                        return n, 'closed form differs from the definition at p=%d size=%d block=%d sizeof=%d' % (p, size, block, s)
                    n += 1
    return n, None


def check_gao(name, t, sz, fn, mod, out):
    P, SIZE, BLOCK = ('arg', 0, None), ('arg', 1, None), ('arg', 2, None)
    paths = sym.Sym(mod, fn).run()
    pow2 = sz & (sz - 1) == 0
    mask = mk('add', 64, BLOCK, C(64, SIZE_MAX))
    q = P if sz == 1 else (mk('lshr', 64, P, C(64, sz.bit_length() - 1)) if pow2 else mk('udiv', 64, P, C(64, sz)))
    k = mk('and', 64, mk('sub', 64, BLOCK, mk('and', 64, mask, q)), mask)
    want3 = mk('umin', 64, k, SIZE)
    is1 = mk('icmp', 1, 'eq', BLOCK, C(64, 1))
    mis = mk('not', 1, mk('icmp', 1, 'eq', mk('and', 64, P, C(64, sz - 1)), C(64, 0))) if sz > 1 else C(1, 0)
    nob = 0
    for p in paths:
        nob += 1
        if p.term[0] != 'ret' or p.events:
            out('R8', name, 'get_alignment_offset<%s> has a path that does not simply return a value' % t, None)
            continue
        conds = [(c, pol) for (c, pol, i) in p.conds]
        r = p.term[1]
        # which case of the closed form does this path belong to?  decided from the path condition
        c1, _ = sym.implies(conds, is1, True)
        n1, _ = sym.implies(conds, is1, False)
        if c1:
            want, case = C(64, 0), 'block_size == 1 -> 0'
        elif n1 and sz > 1 and sym.implies(conds, mis, True)[0]:
            want, case = SIZE, 'pointer not a multiple of sizeof(T) -> size'
        elif n1 and (sz == 1 or sym.implies(conds, mis, False)[0]):
            want, case = want3, 'min((block - (p/sizeof(T) & (block-1))) & (block-1), size)'
        else:
            out('R8', name, 'a path of get_alignment_offset<%s> is not guarded by the case tests of the closed form (conditions: %s)' % (t, ' & '.join(('' if pol else '!') + sym.fmt(c, 4) for c, pol in conds)), None)
            continue
        if r != want:
            out('R8', name, 'get_alignment_offset<%s>, case "%s": returns %s, expected %s' % (t, case, sym.fmt(r, 8), sym.fmt(want, 8)), p.conds[-1][2] if p.conds else None)
    want_paths = 3 if sz > 1 else 2
    if len(paths) != want_paths:
        out('R8', name, 'get_alignment_offset<%s> has %d paths, the closed form has %d cases' % (t, len(paths), want_paths), None)
    return nob


def run(a):
    r = report.Run('C18', a.tier, 'proof')
    text, meta = tu_text()
    seen_keys = set()
    samples = []

    def out(rule, name, what, inst):
        if rule == 'broken':
            r.broke('%s: %s' % (name, what))
        else:
            key = '%s|%s' % (rule, name)
            if key in seen_keys:
                return
            seen_keys.add(key)
            r.violation(key, '%s [%s]' % (what, src(inst) or 'wrapper ' + name), {'rule': rule, 'wrapper': name, 'what': what, 'source': src(inst)})
    nob = 0
    flagsets = [('avx2', CF.BY_NAME['avx2'].flags)]
    ll, err = build.compile_tu(text, WIT.ALLX86[:-1])
    if ll is None:
        r.broke('wrapper TU does not compile: %s' % err[-600:])
        return r.finish({'obligations': 0, 'discharged': 0, 'checker_cmd': 'python3 /verif/check.py C18', 'trusted_base': []}, [])
    mod = ir.load_ll(ll)
    before = len(r.violations) + len(r.known_hits)
    counts = {}
    aligns = {}
    for name, m in sorted(meta.items()):
        fn = mod.functions.get(name)
        if fn is None or fn.get('decl'):
            r.broke('wrapper %s missing from IR' % name)
            continue
        kind = m[0]
        try:
            if kind == 'alloc':
                k = check_alloc(name, m[1], m[2], m[3], fn, mod, out)
            elif kind == 'dealloc':
                k = check_dealloc(name, fn, mod, out)
            elif kind == 'amalloc':
                k = check_amalloc(name, fn, mod, out)
            elif kind == 'eq':
                v = const_ret(fn, mod)
                want = (m[1] == m[2]) == m[3]
                k = 1
                if v is None or bool(v) != want:
                    out('R6', name, 'aligned_allocator<.,%d> %s aligned_allocator<.,%d> evaluates to %s, expected %s' % (m[1], '==' if m[3] else '!=', m[2], v, want), None)
            elif kind == 'maxsize':
                v = const_ret(fn, mod)
                k = 1
                if v != SIZE_MAX // m[2]:
                    out('R1', name, 'max_size() of aligned_allocator<%s> is %s, expected SIZE_MAX/sizeof(T) = %d' % (m[1], v, SIZE_MAX // m[2]), None)
            elif kind == 'alof':
                v = const_ret(fn, mod)
                k = 1
                if v is None:
                    r.broke('%s::alignment() is not a constant' % m[1])
                aligns[m[2]] = v
            elif kind == 'gao':
                k = check_gao(name, m[1], m[2], fn, mod, out)
            else:
                continue
        except sym.TooComplex as e:
            r.broke('%s: %s' % (name, e))
            k = 0
        counts[kind] = counts.get(kind, 0) + k
        nob += k
    # R7 is_aligned
    for name, m in sorted(meta.items()):
        if m[0] != 'isal':
            continue
        fn = mod.functions[name]
        A = aligns.get(m[2])
        nob += 1
        counts['isal'] = counts.get('isal', 0) + 1
        try:
            paths = sym.Sym(mod, fn).run()
        except sym.TooComplex as e:
            r.broke('%s: %s' % (name, e))
            continue
        P = ('arg', 0, None)
        if not A or A & (A - 1):
            out('R7', name, '%s::alignment() = %s is not a power of two' % (m[1], A), None)
            continue
        ok_forms = [mk('icmp', 1, 'eq', mk('and', 64, P, C(64, A - 1)), C(64, 0)), mk('icmp', 1, 'eq', mk('urem', 64, P, C(64, A)), C(64, 0))]
        if len(paths) != 1 or paths[0].term[0] != 'ret' or paths[0].term[1] not in ok_forms:
            got = sym.fmt(paths[0].term[1], 8) if paths and paths[0].term[0] == 'ret' else str([p.term for p in paths])[:200]
            out('R7', name, 'is_aligned<%s>(p) computes %s, expected (p mod %d) == 0' % (m[1], got, A), None)
        elif len(samples) < 3:
            samples.append({'obligation': 'R7|' + name, 'term': sym.fmt(paths[0].term[1], 8), 'alignment': A})
    # closed-form justification (checker arithmetic only)
    njust, bad = justify_closed_form()
    if bad:
        r.broke('internal: ' + bad)
    # witnesses: stateless class; default alignment
    ws = []
    for (tn, t, sz) in TYPES[:4]:
        for al in ALIGNS:
            ws.append(WIT.W('R5|empty|%s|%d' % (tn, al), 'std::is_empty<xsimd::aligned_allocator<%s, %d>>::value && xsimd::aligned_allocator<%s, %d>::alignment == %d && std::is_same<typename xsimd::aligned_allocator<%s, %d>::template rebind<int>::other, xsimd::aligned_allocator<int, %d>>::value' % (t, al, t, al, al, t, al, al),
                            'aligned_allocator<%s,%d> has no data members (stateless), reports its alignment, and rebinds to the same alignment' % (t, al)))
    wsd = [WIT.W('R7|default_align', 'xsimd::aligned_allocator<float>::alignment == xsimd::default_arch::alignment() && xsimd::aligned_allocator<double>::alignment >= alignof(typename xsimd::batch<double>::register_type) && xsimd::aligned_allocator<int8_t>::alignment % alignof(typename xsimd::batch<int8_t>::register_type) == 0',
                   'the default Align of aligned_allocator is default_arch::alignment() and satisfies the register alignment that load_aligned/store_aligned of the default architecture need'),
           WIT.W('R7|alloc_mode', 'std::is_same<xsimd::allocator_alignment_t<xsimd::aligned_allocator<float>>, xsimd::aligned_mode>::value && std::is_same<xsimd::allocator_alignment_t<std::allocator<float>>, xsimd::unaligned_mode>::value',
                 'containers using aligned_allocator (and only those) are loaded with aligned_mode')]
    wjobs = [('all', WIT.ALLX86, ws + wsd)] + [(c.name, c.flags, wsd) for c in CF.CONFIGS]
    for (n, fl, wl) in wjobs:
        res, cmd, un = WIT.run('#include <xsimd/xsimd.hpp>\n#include <memory>\n#include <type_traits>\n', wl, fl)
        for u in un:
            r.broke('witness TU %s: %s' % (n, u[:300]))
        for w in wl:
            nob += 1
            counts['witness'] = counts.get('witness', 0) + 1
            st, msg = res[w.key]
            if st != 'holds':
                out(w.key.split('|')[0], w.key + '|' + n, '%s -- %s [%s]' % (w.what, 'relation is false' if st == 'fails' else 'construct no longer type-checks', msg[:300]), None)
    if nob < 700:
        r.broke('only %d obligations generated (floor 700)' % nob)
    nviol = len(r.violations) + len(r.known_hits) - before
    samples.append({'obligation': 'R1/R2/R3|alloc_d_64', 'rule': 'every path of aligned_allocator<double,64>::allocate: size == n*8, path condition implies n <= SIZE_MAX/8, returning paths imply rc == 0 and block != null, other paths throw std::bad_alloc'})
    cov = {'obligations': nob, 'discharged': nob - len(set(k for (k, w, d) in r.violations)) - len(set(x[1] for x in r.known_hits)),
           'checker_cmd': 'python3 /verif/check.py C18 --tier %s' % a.tier,
           'trusted_base': ['clang 14 -O2 translation of the headers to LLVM IR', 'engine/sym.py path enumeration and propositional predicate abstraction',
                            'POSIX contract of posix_memalign (0 on success, block in *memptr aligned to the alignment argument, at least size bytes) and free',
                            'the closed form of get_alignment_offset is justified against the definition by enumeration in the checker (%d parameter tuples)' % njust],
           'per_rule_obligations': counts, 'wrappers': len(meta), 'samples': samples, 'evaluations': nob, 'distinct_nontrivial': nob,
           'rule': 'R1..R8 of checks/c18.py over every path of every wrapper: T in %s x Align in %s' % ([t for _, t, _ in TYPES], ALIGNS),
           'exhaustive': True, 'headers_sha256': build.headers_hash()}
    return r.finish(cov, ['heap behaviour of libc (posix_memalign/free) is trusted, not analysed',
                          'the _WIN32 arm (_aligned_malloc/_aligned_free) cannot be parsed on this image and is not claimed',
                          'allocate/deallocate are stateless (R5), so histories decompose into independent blocks; "exactly once" is the caller\'s obligation'])
