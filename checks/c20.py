"""C20 -- architecture descriptions and batch geometry: compile-time witnesses (DESIGN 2.6 / 3.C20).

Every relation of the property is a C++ constant expression over the headers; the obligations are
generated here per (architecture, element type, lane count) and decided by clang's type checker in
one all-features translation unit (plus one per single-ISA flag set for the relations that depend on
which architectures are `supported()`).  Nothing is executed.
"""
import os
from concurrent.futures import ThreadPoolExecutor

from engine import witness as WIT, report, build
from catalogue import configs as C

# ISA knowledge the headers are checked against (Intel SDM: XMM = 128, YMM = 256, ZMM = 512 bits)
ARCHS = [(c.name, c.arch, c.bits) for c in C.CONFIGS] + [
    ('avx512er', 'xsimd::avx512er', 512), ('avx512pf', 'xsimd::avx512pf', 512)]
EMU = [('emulated128', 'xsimd::emulated<128>', 128), ('emulated256', 'xsimd::emulated<256>', 256)]

TYPES = [('i8', 'int8_t'), ('u8', 'uint8_t'), ('i16', 'int16_t'), ('u16', 'uint16_t'), ('i32', 'int32_t'), ('u32', 'uint32_t'),
         ('i64', 'int64_t'), ('u64', 'uint64_t'), ('f32', 'float'), ('f64', 'double'),
         ('char', 'char'), ('schar', 'signed char'), ('uchar', 'unsigned char'), ('short', 'short'), ('ushort', 'unsigned short'),
         ('int', 'int'), ('uint', 'unsigned int'), ('long', 'long'), ('ulong', 'unsigned long'), ('llong', 'long long'), ('ullong', 'unsigned long long')]
FP = ('float', 'double')

PRELUDE = r'''
#include <xsimd/xsimd.hpp>
#include <cstdint>
#include <complex>
#include <type_traits>
namespace vw {
template <class A, class L> struct index_of;
template <class A, class... Ts> struct index_of<A, xsimd::arch_list<A, Ts...>> { static constexpr int value = 0; };
template <class A> struct index_of<A, xsimd::arch_list<>> { static constexpr int value = -1000000; };
template <class A, class H, class... Ts> struct index_of<A, xsimd::arch_list<H, Ts...>> { static constexpr int value = 1 + index_of<A, xsimd::arch_list<Ts...>>::value; };
template <class L> struct list_size;
template <class... Ts> struct list_size<xsimd::arch_list<Ts...>> { static constexpr int value = sizeof...(Ts); };
constexpr bool pow2(std::size_t x) { return x != 0 && (x & (x - 1)) == 0; }
constexpr std::size_t max2(std::size_t a, std::size_t b) { return a > b ? a : b; }
template <class B, class T, std::size_t N> struct sized_ok { static constexpr bool value = B::size == N && std::is_same<typename B::value_type, T>::value && xsimd::is_batch<B>::value; };
template <class T, std::size_t N> struct sized_ok<void, T, N> { static constexpr bool value = true; };
template <class B> struct is_void_ { static constexpr bool value = std::is_void<B>::value; };
// the first architecture of list L whose batch<T> has N lanes (what make_sized_batch must name), or void
template <class T, std::size_t N, class L> struct first_sized { using type = void; };
template <class T, std::size_t N, class H, class... Ts> struct first_sized<T, N, xsimd::arch_list<H, Ts...>> {
  using type = typename std::conditional<xsimd::has_simd_register<T, H>::value && (sizeof(typename xsimd::types::simd_register<T, H>::register_type) == N * sizeof(T)),
        xsimd::batch<T, H>, typename first_sized<T, N, xsimd::arch_list<Ts...>>::type>::type; };
// order preservation: supported_architectures is a sub-sequence of all_architectures
template <class S, class L> struct subseq;
template <class... Ls> struct subseq<xsimd::arch_list<>, xsimd::arch_list<Ls...>> { static constexpr bool value = true; };
template <class S, class... Ss> struct subseq<xsimd::arch_list<S, Ss...>, xsimd::arch_list<>> { static constexpr bool value = false; };
template <class S, class... Ss, class H, class... Ls> struct subseq<xsimd::arch_list<S, Ss...>, xsimd::arch_list<H, Ls...>> {
  static constexpr bool value = std::is_same<S, H>::value ? subseq<xsimd::arch_list<Ss...>, xsimd::arch_list<Ls...>>::value : subseq<xsimd::arch_list<S, Ss...>, xsimd::arch_list<Ls...>>::value; };
}
'''


def geometry_witnesses():
    ws = []
    LX = 'xsimd::all_x86_architectures'
    ws.append(WIT.W('list|size', 'vw::list_size<%s>::value == %d' % (LX, len(ARCHS)),
                    'all_x86_architectures has exactly the %d architectures of the checker\'s table (a new/removed architecture needs a table row)' % len(ARCHS)))
    for (n, a, bits) in ARCHS:
        ws.append(WIT.W('list|contains|%s' % n, '%s::contains<%s>() && vw::index_of<%s, %s>::value >= 0' % (LX, a, a, LX), '%s is a member of all_x86_architectures' % a))
    for (n, a, bits) in ARCHS + EMU:
        B = bits // 8
        ws.append(WIT.W('align|pow2|%s' % n, 'vw::pow2(%s::alignment())' % a, '%s::alignment() is a power of two' % a))
        ws.append(WIT.W('supported|%s' % n, '%s::supported()' % a, '%s is supported() when its ISA flags are enabled' % a))
        for (tn, t) in TYPES:
            bt = 'xsimd::batch<%s, %s>' % (t, a)
            ws.append(WIT.W('size|%s|%s' % (n, tn), '%s::size * sizeof(%s) == %d' % (bt, t, B), 'batch<%s,%s>::size*sizeof(T) == %d bytes (register width of the ISA family)' % (t, a, B)))
            ws.append(WIT.W('regsize|%s|%s' % (n, tn), 'sizeof(typename %s::register_type) == %d' % (bt, B), 'sizeof(register_type) of batch<%s,%s> == %d' % (t, a, B)))
            ws.append(WIT.W('boolsize|%s|%s' % (n, tn), 'xsimd::batch_bool<%s, %s>::size == %s::size && std::is_same<typename %s::batch_bool_type, xsimd::batch_bool<%s, %s>>::value' % (t, a, bt, bt, t, a),
                            'batch_bool<%s,%s> has the lane count of the batch and is its batch_bool_type' % (t, a)))
            ws.append(WIT.W('align|reg|%s|%s' % (n, tn), '%s::alignment() >= alignof(typename %s::register_type) && %s::alignment() %% alignof(typename %s::register_type) == 0' % (a, bt, a, bt),
                            '%s::alignment() satisfies the alignment the compiler requires of batch<%s>::register_type (what aligned loads fault on)' % (a, t)))
            ws.append(WIT.W('align|elem|%s|%s' % (n, tn), '%s::alignment() >= alignof(%s)' % (a, t), 'alignment() >= alignof(T)'))
            # traits
            ws.append(WIT.W('trait|is_batch|%s|%s' % (n, tn), 'xsimd::is_batch<%s>::value && !xsimd::is_batch<%s>::value && !xsimd::is_batch<xsimd::batch_bool<%s, %s>>::value && xsimd::is_batch_bool<xsimd::batch_bool<%s, %s>>::value && !xsimd::is_batch_bool<%s>::value && !xsimd::is_batch_complex<%s>::value' % (bt, t, t, a, t, a, bt, bt), 'is_batch / is_batch_bool / is_batch_complex classify batch<%s,%s>' % (t, a)))
            ws.append(WIT.W('trait|scalar_type|%s|%s' % (n, tn), 'std::is_same<xsimd::scalar_type_t<%s>, %s>::value && std::is_same<typename %s::value_type, %s>::value && std::is_same<xsimd::scalar_type_t<%s>, %s>::value' % (bt, t, bt, t, t, t), 'scalar_type / value_type of batch<%s,%s> is T' % (t, a)))
            ws.append(WIT.W('trait|mask_type|%s|%s' % (n, tn), 'std::is_same<xsimd::mask_type_t<%s>, xsimd::batch_bool<%s, %s>>::value && std::is_same<xsimd::mask_type_t<%s>, bool>::value && std::is_same<xsimd::as_logical_t<%s>, xsimd::batch_bool<%s, %s>>::value' % (bt, t, a, t, bt, t, a), 'mask_type / as_logical of batch<%s,%s>' % (t, a)))
            if t not in ('char', 'long long', 'unsigned long long', 'signed char', 'unsigned char', 'short', 'unsigned short', 'int', 'unsigned int', 'long', 'unsigned long') or True:
                ws.append(WIT.W('trait|simd_return|%s|%s' % (n, tn), 'std::is_same<xsimd::simd_return_type<%s, %s, %s>, %s>::value && std::is_same<xsimd::simd_return_type<bool, %s, %s>, xsimd::batch_bool<%s, %s>>::value' % (t, t, a, bt, t, a, t, a), 'simd_return_type<T,T,A> is batch<T,A>, simd_return_type<bool,T,A> is batch_bool<T,A>'))
            # as_integer / as_unsigned_integer / as_float: same lane count, same lane width, right kind
            ws.append(WIT.W('trait|as_integer|%s|%s' % (n, tn), 'xsimd::as_integer_t<%s>::size == %s::size && sizeof(typename xsimd::as_integer_t<%s>::value_type) == sizeof(%s) && std::is_integral<typename xsimd::as_integer_t<%s>::value_type>::value && std::is_signed<typename xsimd::as_integer_t<%s>::value_type>::value && std::is_same<typename xsimd::as_integer_t<%s>::arch_type, %s>::value' % (bt, bt, bt, t, bt, bt, bt, a), 'as_integer_t<batch<%s,%s>>: signed integer lanes of the same width and count on the same architecture' % (t, a)))
            ws.append(WIT.W('trait|as_unsigned|%s|%s' % (n, tn), 'xsimd::as_unsigned_integer_t<%s>::size == %s::size && sizeof(typename xsimd::as_unsigned_integer_t<%s>::value_type) == sizeof(%s) && std::is_unsigned<typename xsimd::as_unsigned_integer_t<%s>::value_type>::value && std::is_same<typename xsimd::as_unsigned_integer_t<%s>::arch_type, %s>::value' % (bt, bt, bt, t, bt, bt, a), 'as_unsigned_integer_t<batch<%s,%s>>: unsigned lanes of the same width and count' % (t, a)))
            if t in ('int32_t', 'int64_t', 'int', 'long'):
                ws.append(WIT.W('trait|as_float|%s|%s' % (n, tn), 'xsimd::as_float_t<%s>::size == %s::size && sizeof(typename xsimd::as_float_t<%s>::value_type) == sizeof(%s) && std::is_floating_point<typename xsimd::as_float_t<%s>::value_type>::value' % (bt, bt, bt, t, bt), 'as_float_t<batch<%s,%s>>: floating lanes of the same width and count' % (t, a)))
            if t in FP:
                cb = 'xsimd::batch<std::complex<%s>, %s>' % (t, a)
                ws.append(WIT.W('complex|%s|%s' % (n, tn), '%s::size == %s::size && std::is_same<typename %s::real_batch, %s>::value && xsimd::is_batch_complex<%s>::value && std::is_same<typename %s::batch_bool_type, xsimd::batch_bool<%s, %s>>::value' % (cb, bt, cb, bt, cb, cb, t, a),
                                'batch<complex<%s>,%s> has the lane count / real_batch / mask type of batch<%s,%s>' % (t, a, t, a)))
                ws.append(WIT.W('trait|complex_bool_ret|%s|%s' % (n, tn), 'std::is_same<xsimd::simd_return_type<bool, std::complex<%s>, %s>, typename %s::batch_bool_type>::value && xsimd::simd_return_type<bool, std::complex<%s>, %s>::size == %s::size' % (t, a, cb, t, a, cb),
                                'simd_return_type<bool, complex<%s>, %s> is the mask type of the complex batch on the SAME architecture' % (t, a)))
                ws.append(WIT.W('trait|complex_mixed_ret|%s|%s' % (n, tn), 'std::is_same<xsimd::simd_return_type<std::complex<%s>, %s, %s>, %s>::value' % (t, t, a, cb),
                                'simd_return_type<complex<T>, T, A> is batch<complex<T>, A>'))
                ws.append(WIT.W('trait|complex_ret|%s|%s' % (n, tn), 'std::is_same<xsimd::simd_return_type<std::complex<%s>, std::complex<%s>, %s>, %s>::value && std::is_same<xsimd::scalar_type_t<%s>, std::complex<%s>>::value' % (t, t, a, cb, cb, t), 'simd_return_type / scalar_type for complex batches'))
    # every extension parent appears after its child; the list is ordered widest-first
    for i, (n1, a1, b1) in enumerate(ARCHS):
        for (n2, a2, b2) in ARCHS:
            if n1 == n2:
                continue
            ws.append(WIT.W('order|parent_after|%s|%s' % (n1, n2),
                            '!(std::is_base_of<%s, %s>::value) || vw::index_of<%s, %s>::value < vw::index_of<%s, %s>::value' % (a2, a1, a1, LX, a2, LX),
                            'if %s derives from %s (inherits its kernels) then %s precedes %s in all_x86_architectures' % (a1, a2, a1, a2)))
            if b1 > b2:
                ws.append(WIT.W('order|wider_first|%s|%s' % (n1, n2), 'vw::index_of<%s, %s>::value < vw::index_of<%s, %s>::value' % (a1, LX, a2, LX),
                                '%d-bit %s precedes %d-bit %s in the best-first list' % (b1, a1, b2, a2)))
            if ARCHS.index((n1, a1, b1)) < ARCHS.index((n2, a2, b2)):
                ws.append(WIT.W('listalign|pair|%s|%s' % (n1, n2), 'xsimd::arch_list<%s, %s>::alignment() == vw::max2(%s::alignment(), %s::alignment()) && xsimd::arch_list<%s, %s>::alignment() == xsimd::arch_list<%s, %s>::alignment()' % (a1, a2, a1, a2, a2, a1, a1, a2),
                                'arch_list<%s,%s>::alignment() is the maximum member alignment, in either order' % (a1, a2)))
        ws.append(WIT.W('listalign|single|%s' % n1, 'xsimd::arch_list<%s>::alignment() == %s::alignment()' % (a1, a1), 'arch_list<%s>::alignment()' % a1))
    # triples across families
    fams = [[x for x in ARCHS if x[2] == b] for b in (128, 256, 512)]
    for x in fams[0]:
        for y in fams[1][:3]:
            for z in fams[2][:3]:
                for perm in ((x, y, z), (z, x, y), (y, z, x), (y, x, z), (x, z, y), (z, y, x)):
                    ws.append(WIT.W('listalign|triple|%s|%s|%s' % tuple(p[0] for p in perm), 'xsimd::arch_list<%s, %s, %s>::alignment() == vw::max2(%s::alignment(), vw::max2(%s::alignment(), %s::alignment()))' % tuple([p[1] for p in perm] * 2), 'arch_list alignment of a 3-element list is the maximum'))
    ws.append(WIT.W('listalign|all', 'xsimd::all_x86_architectures::alignment() == 64 && xsimd::supported_architectures::alignment() == 64', 'alignment of the full x86 list is the AVX512 alignment'))
    return ws


def support_witnesses(cfgname, arch, flagset_names):
    """relations that depend on the enabled ISA flags: supported list construction, best/default arch,
    make_sized_batch for every N in 1..128"""
    ws = []
    S = 'xsimd::supported_architectures'
    ws.append(WIT.W('supported|subseq', 'vw::subseq<%s, xsimd::all_architectures>::value' % S, 'supported_architectures is an order-preserving sub-list of all_architectures'))
    ws.append(WIT.W('supported|best', 'std::is_same<xsimd::best_arch, typename %s::best>::value && vw::index_of<xsimd::best_arch, %s>::value == 0 && std::is_same<xsimd::default_arch, xsimd::best_arch>::value' % (S, S), 'best_arch/default_arch is the head of supported_architectures'))
    for (n, a, bits) in ARCHS:
        ws.append(WIT.W('supported|iff|%s' % n, '%s::contains<%s>() == %s::supported()' % (S, a, a), '%s is in supported_architectures iff %s::supported()' % (a, a)))
    if arch:
        ws.append(WIT.W('supported|self', '%s::supported() && %s::contains<%s>()' % (arch, S, arch), '%s is supported under its own minimal flag set' % arch))
    for (tn, t) in TYPES:
        sz = {'i8': 1, 'u8': 1, 'char': 1, 'schar': 1, 'uchar': 1, 'i16': 2, 'u16': 2, 'short': 2, 'ushort': 2, 'i32': 4, 'u32': 4, 'int': 4, 'uint': 4, 'f32': 4}.get(tn, 8)
        for N in range(1, 129):
            ws.append(WIT.W('sized|%s|%d' % (tn, N),
                            'vw::sized_ok<xsimd::make_sized_batch_t<%s, %d>, %s, %d>::value && std::is_same<xsimd::make_sized_batch_t<%s, %d>, typename vw::first_sized<%s, %d, %s>::type>::value' % (t, N, t, N, t, N, t, N, S),
                            'make_sized_batch<%s,%d> is void or a batch<%s> with exactly %d lanes, and is void only if no supported architecture has such a batch' % (t, N, t, N)))
    return ws


def flagsets():
    out = [('all', WIT.ALLX86, None)]
    for c in C.CONFIGS:
        out.append((c.name, c.flags, c.arch))
    return out


def run(a):
    r = report.Run('C20', a.tier, 'proof')
    jobs = [('all', WIT.ALLX86, geometry_witnesses() + support_witnesses('all', None, None))]
    for (n, fl, arch) in flagsets()[1:]:
        jobs.append((n, fl, support_witnesses(n, arch, None)))

    def work(j):
        n, fl, ws = j
        res, cmd, un = WIT.run(PRELUDE, ws, fl)
        return n, ws, res, cmd, un
    total = held = 0
    samples = []
    cmds = []
    per_cfg = {}
    with ThreadPoolExecutor(max_workers=16) as ex:
        for (n, ws, res, cmd, un) in ex.map(work, jobs):
            cmds.append(cmd)
            for u in un:
                r.broke('flag set %s: diagnostic not attributable to a witness: %s' % (n, u[:300]))
            per_cfg[n] = len(ws)
            for w in ws:
                total += 1
                st, msg = res[w.key]
                key = '%s|%s' % (w.key, n)
                if st == 'holds':
                    held += 1
                    if len(samples) < 8 and total % 977 == 1:
                        samples.append({'obligation': key, 'witness': 'static_assert((%s), ...)' % w.expr, 'states': w.what, 'verdict': 'type-checks'})
                else:
                    r.violation(key, '%s -- %s [%s: %s]' % (w.what, 'relation is false' if st == 'fails' else 'construct no longer type-checks', st, msg[:300]),
                                {'witness': w.expr, 'flagset': n, 'status': st, 'diagnostic': msg})
    FLOOR = 14000
    if total < FLOOR:
        r.broke('only %d witnesses generated (floor %d)' % (total, FLOOR))
    cov = {'obligations': total, 'discharged': held, 'checker_cmd': 'python3 /verif/check.py C20 --tier %s  (each witness TU: %s)' % (a.tier, cmds[0]),
           'trusted_base': ['clang 14 front end (constant evaluation, template instantiation, alignof/sizeof of the x86 vector types)',
                            'the register widths 128/256/512 of the SSE/AVX/AVX512 families (Intel SDM)'],
           'rule': 'one static_assert witness per (relation, architecture, element type[, lane count N=1..128][, flag set]); decided by the type checker',
           'witnesses_per_flagset': per_cfg, 'flagsets': len(jobs), 'architectures': [x[1] for x in ARCHS + EMU], 'element_types': [t for _, t in TYPES],
           'samples': samples, 'evaluations': total, 'distinct_nontrivial': held, 'exhaustive': True, 'headers_sha256': build.headers_hash()}
    return r.finish(cov, ['the relations are decided for clang 14\'s view of the headers with every x86 ISA macro enabled (and once per single-ISA flag set for the supported-list relations)',
                          'NEON/SVE/RVV/WASM architectures are out of scope (no target headers on this image)'])
