"""C13 -- element-wise results depend only on the lane's own operands (DESIGN 3.C13).

(i)  Exact operations (every catalogued element-wise op of C01-C03, C06-C08, per type and configuration): the wrapper
     must be straight-line (only pruned assert preconditions) and the normalised term of output lane i may contain
     only atoms of lane i of the batch operands (and scalar operands): decided from the lane terms, for the
     decided AND the undecided wrappers (dependence needs no spec form).
(ii) Elementary functions (real + complex, float/double, on sse4_1 / avx2 / avx512f): fixpoint lane-dependence
     analysis over the CFG (engine/lanedep.py): output lane i may depend, through data edges and through
     control dependence on data-dependent branches, only on lane i of the arguments; whole-batch reductions of a mask
     (any/all/none) may steer branches and scalar-condition selects only -- if such a result reaches lane data through
     any other operation it counts as a dependence on every lane.
Together: a lane's result can be influenced by its neighbours only through which whole-batch tier is taken, never by
their data.  That the tiers agree to within the accuracy bound is C10/C11 and is not decided here.
"""
import collections
import json
import os
from concurrent.futures import ProcessPoolExecutor

from engine import build, ir, report, lanedep, lanecheck as L
from engine.ir import parse_type
from catalogue import configs as CF, ops as O
from . import c14

MATH_CONFIGS = ['sse4_1', 'avx2', 'avx512f']


def analyse_math(cfgname):
    c = CF.BY_NAME[cfgname]
    text, names = c14.math_tu(c.arch)
    ll, err = build.compile_tu(text, c.flags)
    if ll is None:
        return {'cfg': cfgname, 'broken': 'math wrapper TU does not compile: %s' % err[-500:]}
    mod = ir.load_ll(ll)
    res = {'cfg': cfgname, 'ok': [], 'bad': [], 'broken_list': [], 'unknown_calls': set()}
    defined = dict((n, f) for n, f in mod.functions.items() if not f.get('decl') and f['blocks'])
    summaries = {}
    # callees first (bottom-up over the call graph; cycles get a second round)
    calls = collections.defaultdict(set)
    for n, f in defined.items():
        for b in f['blocks']:
            for i in b['insts']:
                if i['op'] in ('call', 'invoke') and i.get('callee') in defined:
                    calls[n].add(i['callee'])
    order = []
    seen = set()

    def visit(n):
        if n in seen:
            return
        seen.add(n)
        for m_ in sorted(calls[n]):
            visit(m_)
        order.append(n)
    for n in sorted(defined):
        visit(n)
    outs = {}
    for rnd in range(2):
        for n in order:
            f = defined[n]
            try:
                ld = lanedep.LaneDep(mod, f, summaries)
                out = ld.run()
            except (ValueError, KeyError, IndexError, RecursionError) as e:
                outs[n] = ('err', repr(e)[:200])
                continue
            summaries[n] = lanedep.Summary(out, True)
            outs[n] = ('ok', out, ld)
        if not any(n in calls[n] or any(n in calls[m_] for m_ in calls[n]) for n in order):
            break
    for n, r_ in outs.items():
        if r_[0] == 'ok':
            res['unknown_calls'] |= r_[2].unknown_calls       # of the final round only
    for n in sorted(names):
        if n not in outs:
            res['broken_list'].append('wrapper %s missing' % n)
            continue
        r = outs[n]
        if r[0] == 'err':
            res['broken_list'].append('%s: analysis error %s' % (n, r[1]))
            continue
        f = defined[n]
        ok, bad = lanedep.lane_report(f, r[1])
        rt = parse_type(f['ret'])
        if ok:
            res['ok'].append((n, rt.n if rt.kind == 'vec' else 1))
        else:
            lane, atoms = bad[0]
            # locate a source line: the first instruction whose value already carries a foreign atom
            where = first_offender(f, r[2], lane)
            res['bad'].append((n, lane, [fmt_atom(a) for a in atoms], len(bad), where))
    res['unknown_calls'] = sorted(res['unknown_calls'])
    return res


def fmt_atom(a):
    if a[0] == 'a':
        return 'lane %s of argument %d' % (a[2], a[1])
    if a[0] == 'RX':
        return 'a whole-batch reduction result used as data (every lane)'
    return repr(a)


def first_offender(fn, ld, lane):
    """earliest instruction (in block order) whose element `lane`-th part depends on another lane"""
    for b in fn['blocks']:
        for inst in b['insts']:
            v = ld.env.get(inst['id'])
            if v is None:
                continue
            ty = parse_type(inst['ty'])
            if ty.kind != 'vec':
                continue
            ne = ty.n
            k = len(v.cells) // ne if ne else 1
            if k == 0:
                continue
            for e in range(ne):
                u = frozenset().union(*v.cells[e * k:(e + 1) * k])
                # map element e of this (possibly re-typed) register onto the result lanes it overlaps
                if any((a[0] == 'a' and isinstance(a[2], int) and not overlaps(ty, e, a[2], fn)) or a[0] == 'RX' for a in u):
                    return c14.src_of(inst)
    return None


def overlaps(ty, e, lane, fn):
    rt = parse_type(fn['ret'])
    if rt.kind != 'vec':
        return True
    lo, hi = e * ty.elem.bits, (e + 1) * ty.elem.bits
    llo, lhi = lane * rt.elem.bits, (lane + 1) * rt.elem.bits
    return lo < lhi and llo < hi


# ---------------------------------------------------------------- (iii) masked updates under a whole-batch any()
def _strip(fn, o):
    """look through bitcasts"""
    while o['k'] == 'v':
        i = fn['insts'][o['id']]
        if i['op'] in ('bitcast', 'freeze') and i['ops']:
            o = i['ops'][0]
            continue
        break
    return o


def _is_wholebatch(fn, o, depth=0):
    """is this i1 value computed from a whole-batch mask reduction (any/all/none)"""
    if depth > 8 or o['k'] != 'v':
        return False
    i = fn['insts'][o['id']]
    op = i['op']
    if op in ('call', 'invoke'):
        nm = i.get('callee') or ''
        return bool(lanedep.REDUCE_CALLS.match(nm) or lanedep.MOVMSK_CALLS.match(nm))
    if op == 'bitcast':
        st = parse_type(fn['insts'][i['ops'][0]['id']]['ty']) if i['ops'][0]['k'] == 'v' else None
        if st is not None and st.kind == 'vec' and st.elem.bits == 1 and parse_type(i['ty']).kind == 'int':
            return True
    if op in ('icmp', 'and', 'or', 'xor', 'zext', 'trunc', 'bitcast', 'freeze', 'select'):
        return any(_is_wholebatch(fn, x, depth + 1) for x in i['ops'])
    return False


def _vec_select(fn, o):
    """(mask, then, else) if o is a per-lane select / blend of two vectors, else None"""
    o = _strip(fn, o)
    if o['k'] != 'v':
        return None
    i = fn['insts'][o['id']]
    if i['op'] == 'select':
        ct = parse_type(fn['insts'][i['ops'][0]['id']]['ty']) if i['ops'][0]['k'] == 'v' else None
        if ct is not None and ct.kind == 'vec':
            return (i['ops'][0], i['ops'][1], i['ops'][2], i)
    if i['op'] in ('call', 'invoke') and 'blendv' in (i.get('callee') or ''):
        return (i['ops'][2], i['ops'][1], i['ops'][0], i)
    return None


def _same(fn, a, b):
    a, b = _strip(fn, a), _strip(fn, b)
    if a['k'] == 'c' and b['k'] == 'c':
        return a == b
    return a['k'] == b['k'] and ((a['k'] == 'v' and a['id'] == b['id']) or (a['k'] == 'a' and a['i'] == b['i']))


def masked_updates(cfgname):
    """At the join of `if (any(M)) { ... }`: a value that is rewritten inside the block by a per-lane select must keep its
    previous value in the lanes the select does not take -- select(m, new, OLD) -- otherwise a lane that does not belong
    to M changes its value depending on whether some neighbour made any(M) true."""
    c = CF.BY_NAME[cfgname]
    text, names = c14.math_tu(c.arch)
    ll, err = build.compile_tu(text, c.flags)
    if ll is None:
        return {'cfg': cfgname, 'broken': 'math wrapper TU does not compile'}
    res = scan_masked_updates(ir.load_ll(ll))
    res['cfg'] = cfgname
    # the positive example: the rule must report it (and must accept its corrected twin) on every run
    ptext = open(os.path.join(os.path.dirname(os.path.dirname(os.path.abspath(__file__))), 'catalogue', 'positive', 'lost_update.cpp')).read().replace('ARCH', c.arch)
    pll, perr = build.compile_tu(ptext, c.flags)
    if pll is None:
        res['positive'] = 'does not compile: %s' % perr[-300:]
    else:
        pr = scan_masked_updates(ir.load_ll(pll))
        fired = [x[0] for x in pr['bad']]
        wrongmask = set(x[0] for x in pr.get('impl', []) if not x[2])
        if wrongmask != set(['positive_wrong_mask']):
            res['positive'] = 'mask-implication rule reported %s on the positive example (expected exactly positive_wrong_mask)' % sorted(wrongmask)
            return res
        res['positive'] = 'ok' if set(fired) == set(['positive_lost_update']) and pr['ok'] >= 1 else 'rule reported %s on the positive example (expected exactly positive_lost_update; %d accepted)' % (fired, pr['ok'])
    return res


def scan_masked_updates(mod):
    res = {'sites': 0, 'ok': 0, 'bad': [], 'oks': []}
    from engine import cfg as CFGM
    for n, f in mod.functions.items():
        if f.get('decl') or not f['blocks']:
            continue
        try:
            loops, _irr = CFGM.natural_loops(f)
            headers = set(lp.header for lp in loops)
        except (KeyError, ValueError):
            headers = set()
        idom, _rpo, _pred = CFGM.dominators(f, CFGM.successors(f))
        for b in f['blocks']:
            for inst in b['insts']:
                pairs = []
                if inst['op'] == 'phi' and b['id'] in headers:
                    continue                              # a loop-carried value, not the join of an if-region
                if inst['op'] == 'phi' and len(inst['incoming']) == 2 and parse_type(inst['ty']).kind == 'vec':
                    # a join of a conditional region entered on a whole-batch test
                    for k in (0, 1):
                        skip_bb = inst['incoming'][k]['bb']
                        term = [x for x in f['blocks'] if x['id'] == skip_bb][0]['insts'][-1]
                        if term['op'] == 'br' and len(term['ops']) == 3 and _is_wholebatch(f, term['ops'][0]) and b['id'] in (term['ops'][1]['id'], term['ops'][2]['id']) \
                                and skip_bb != inst['incoming'][1 - k]['bb'] and CFGM.dominates(idom, skip_bb, inst['incoming'][1 - k]['bb']):
                            # the block that tests any(M) dominates the region whose exit is the other incoming edge
                            pairs.append((inst['incoming'][k]['v'], inst['incoming'][1 - k]['v'], term['ops'][0]))
                elif inst['op'] == 'select' and parse_type(inst['ty']).kind == 'vec' and inst['ops'][0]['k'] == 'v' and parse_type(f['insts'][inst['ops'][0]['id']]['ty']).kind != 'vec' and _is_wholebatch(f, inst['ops'][0]):
                    # the same region if-converted by the compiler: select(any(M), new, old) either way round
                    pairs.append((inst['ops'][2], inst['ops'][1], inst['ops'][0]))
                    pairs.append((inst['ops'][1], inst['ops'][2], inst['ops'][0]))
                for (old, new, wb_cond) in pairs:
                    old_is_const = _strip(f, old)['k'] == 'c'
                    vs = _vec_select(f, new)
                    if vs is None:
                        continue                          # not a per-lane update (whole value recomputed): no claim
                    res['sites'] += 1
                    w = vs[2]
                    site = vs[3]
                    hops = 0
                    while not _same(f, w, old) and hops < 8:
                        nxt = _vec_select(f, w)
                        if nxt is None:
                            break
                        w = nxt[2]
                        hops += 1
                    if _same(f, w, old):
                        res['ok'] += 1
                        res['oks'].append((n, _src_user(site)))
                        # does the select's mask imply the mask whose any() guards the region: every conjunct of M occurs in m
                        M = _reduced_mask(f, wb_cond) if wb_cond is not None else None
                        if M is not None:
                            cm, cM = _conjuncts(f, vs[0]), _conjuncts(f, M)
                            res.setdefault('impl', []).append((n, _src_user(site), cM <= cm))
                    elif old_is_const:
                        res['sites'] -= 1                 # an initial constant that is not kept: nothing to preserve
                    elif inst['op'] == 'select' and _vec_select(f, old) is not None and _chain_ends(f, old, new):
                        res['sites'] -= 1                 # the other orientation of an if-converted region
                    elif _strip(f, w)['k'] != 'c' and any(_same(f, bb_, w) for bb_ in _bases(f, old)) and not _same(f, old, w):
                        # LOST UPDATE: the old value is base w plus masked updates; the new value restarts from the same
                        # base w without going through the old value: lanes updated before and not re-selected now revert
                        res['bad'].append((n, c14.src_of(site), c14.src_of(inst), _src_user(site)))
                    else:
                        res['other'] = res.get('other', 0) + 1
    return res


def _bases(fn, v, depth=0, seen=None):
    """the values a chain of masked updates starts from: follow the else-operand of per-lane selects and both incoming
    values of merges"""
    seen = set() if seen is None else seen
    v = _strip(fn, v)
    if v['k'] != 'v' or depth > 10 or v['id'] in seen:
        return [v]
    seen.add(v['id'])
    vs = _vec_select(fn, v)
    if vs is not None:
        return _bases(fn, vs[2], depth + 1, seen)
    i = fn['insts'][v['id']]
    if i['op'] == 'phi':
        out = []
        for inc in i['incoming']:
            out += _bases(fn, inc['v'], depth + 1, seen)
        return out
    return [v]


def _mask_root(fn, o):
    """look through the representation changes of a lane mask (sext / bitcast / icmp slt x,0 / icmp ne x,0)"""
    for _ in range(8):
        o = _strip(fn, o)
        if o['k'] != 'v':
            return o
        i = fn['insts'][o['id']]
        if i['op'] in ('sext', 'zext', 'trunc') and i['ops']:
            o = i['ops'][0]
            continue
        if i['op'] == 'icmp' and i.get('pred') in ('slt', 'ne') and i['ops'][1]['k'] == 'c' and ('zero' in i['ops'][1] or i['ops'][1].get('int') in (0, '0')):
            o = i['ops'][0]
            continue
        return o
    return o


def _conjuncts(fn, o, depth=0):
    """the set of instruction ids / argument keys whose conjunction the mask is"""
    o = _mask_root(fn, o)
    if o['k'] != 'v' or depth > 6:
        return set([(o['k'], o.get('id', o.get('i', repr(sorted(o.items()))[:40])))])
    i = fn['insts'][o['id']]
    if i['op'] == 'and':
        return _conjuncts(fn, i['ops'][0], depth + 1) | _conjuncts(fn, i['ops'][1], depth + 1)
    if i['op'] in ('call', 'invoke') and 'pand' in (i.get('callee') or ''):
        return _conjuncts(fn, i['ops'][0], depth + 1) | _conjuncts(fn, i['ops'][1], depth + 1)
    return set([('v', o['id'])])


def _reduced_mask(fn, cond, depth=0):
    """the lane mask whose any()/none() the whole-batch condition tests (None if not a plain any/none)"""
    if depth > 8 or cond['k'] != 'v':
        return None
    i = fn['insts'][cond['id']]
    op = i['op']
    if op in ('call', 'invoke'):
        nm = i.get('callee') or ''
        if lanedep.MOVMSK_CALLS.match(nm):
            return i['ops'][0]
        if lanedep.REDUCE_CALLS.match(nm):
            if 'ptest' in nm or 'vtest' in nm:
                a, b = _strip(fn, i['ops'][0]), _strip(fn, i['ops'][1])
                if a == b or (a['k'] == 'v' and b['k'] == 'v' and a['id'] == b['id']):
                    return i['ops'][0]
                return None
            return i['ops'][0]
    if op == 'bitcast':
        return i['ops'][0]
    if op in ('icmp', 'zext', 'trunc', 'freeze'):
        for x in i['ops']:
            r_ = _reduced_mask(fn, x, depth + 1)
            if r_ is not None:
                return r_
    return None


def _chain_base(fn, v):
    w = v
    for _ in range(8):
        nxt = _vec_select(fn, w)
        if nxt is None:
            return w
        w = nxt[2]
    return None


def _src_user(inst):
    """outermost user-code frame of the instruction (the kernel line, not the select wrapper)"""
    fr = [(f_, l_) for (f_, l_, fn_) in inst.get('dbg', []) if 'generic/' in f_ and l_]
    if not fr:
        return '?'
    f_, l_ = fr[0]
    i = f_.find('include/xsimd/')
    return '%s:%d' % (f_[i + len('include/xsimd/'):] if i >= 0 else f_, l_)


def _chain_ends(fn, v, target):
    w = v
    for _ in range(8):
        if _same(fn, w, target):
            return True
        nxt = _vec_select(fn, w)
        if nxt is None:
            return False
        w = nxt[2]
    return False


def run(a):
    r = report.Run('C13', a.tier, 'proof')
    nob = 0
    bad_keys = 0
    samples = []
    # ---- (i) exact operations: dependence read off the lane terms
    obls = {}
    nops = 0
    for c in CF.CONFIGS:
        l = []
        for o in O.OPS:
            if 'C13' not in o.props or (getattr(o, 'whole', False) and not getattr(o, 'elementwise', False)):
                continue
            for t in o.types:
                vs = L.variants_of(o, t, c, a.tier)
                # shifts/rotates: dependence does not vary with the literal count -- three counts per type suffice
                if len(vs) > 3:
                    vs = [vs[0], vs[len(vs) // 2], vs[-1]]
                for v in vs:
                    l.append((o.name, t.name, v))
        obls[c.name] = l
    res = L.run_obligations(obls)
    ufloor_p = os.path.join(os.path.dirname(os.path.dirname(os.path.abspath(__file__))), 'catalogue', 'decided_c13_uniform.json')
    ufloor = json.load(open(ufloor_p)) if os.path.exists(ufloor_p) else {}
    uniform_now = {}
    stats = collections.Counter()
    undec = []
    for x in res:
        st = x.get('status')
        if st == 'broken':
            r.broke('%s: %s' % (x.get('cfg'), (x.get('why') or '')[:300]))
            continue
        if st == 'rejected':
            continue
        key = 'exact|%s|%s|%s' % (x['op'], x['ty'], x['cfg'])
        if st == 'undecided' and 'deps_ok' not in x:
            undec.append({'obligation': key, 'why': x.get('why')})
            stats['undecided'] += 1
            continue
        nob += 1
        if x.get('deps_ok') is False or 'dep_violation' in x:
            dv = x.get('dep_violation', {})
            r.violation(key, 'output lane %s of %s<%s> on %s depends on %s (source %s)' % (dv.get('lane'), x['op'], x['ty'], x['cfg'], dv.get('depends_on'), ' <- '.join((x.get('chain') or [])[:3])), x)
        else:
            stats['lane-local'] += 1
            # position uniformity: the same value in any lane gives the same result (statement of C13): every lane's term
            # is lane 0's term with the lane index renamed.  Claimed for the obligations where it held when the floor was
            # frozen (catalogue/decided_c13_uniform.json); lost later = violation
            ukey = 'uniform|%s|%s|%s|%s' % (x['op'], x['ty'], x['cfg'], ''.join('%s%s' % (k_, L._vstr((x.get('var') or {})[k_])) for k_ in sorted(x.get('var') or {})))
            if x.get('uniform') is True:
                uniform_now[ukey] = 1
                if ukey in ufloor:
                    nob += 1
            elif ukey in ufloor:
                nob += 1
                r.violation(ukey, 'lane %s of %s<%s> on %s is not the same function of its own operand lane as lane 0 is of lane 0: the result depends on the lane POSITION (source %s)' % (
                    (x.get('nonuniform_lanes') or ['?'])[0], x['op'], x['ty'], x['cfg'], ' <- '.join((x.get('chain') or [])[:3])), x)
            if len(samples) < 3 and x['cfg'] == 'avx' and x['op'] in ('mul', 'lt', 'shl'):
                samples.append({'obligation': key, 'rule': 'atoms of output lane i are a subset of lane i of the operands', 'verdict': 'lane-local'})
    # ---- (ii) elementary functions
    with ProcessPoolExecutor(max_workers=3) as ex:
        for m in ex.map(analyse_math, MATH_CONFIGS):
            if 'broken' in m:
                r.broke(m['broken'])
                continue
            for b in m['broken_list']:
                r.broke('%s: %s' % (m['cfg'], b))
            if m['unknown_calls']:
                r.broke('%s: calls without a dependence model: %s' % (m['cfg'], ', '.join(m['unknown_calls'][:6])))
            for (n, lanes) in m['ok']:
                nob += 1
                stats['math lane-local'] += 1
                if len(samples) < 8 and n in ('m_tanh_f32', 'm_lgamma_f64', 'm_sin_f32', 'c_log_f64', 'm_pow_f32'):
                    samples.append({'obligation': 'math|%s|%s' % (n, m['cfg']), 'rule': 'fixpoint lane dependence incl. control dependence; %d output lanes each depend on their own lane only' % lanes, 'verdict': 'lane-local'})
            for (n, lane, atoms, nbad, where) in m['bad']:
                nob += 1
                stats['math dependence violations'] += 1
                r.violation('math|%s|%s' % (n, m['cfg']), 'output lane %d of %s (%s) depends on %s%s (%d lanes affected)' % (
                    lane, n, m['cfg'], '; '.join(atoms[:3]), ' -- first seen at %s' % where if where else '', nbad), {'fn': n, 'cfg': m['cfg'], 'lane': lane, 'atoms': atoms, 'source': where})
    # ---- (iii) masked updates under whole-batch any()
    with ProcessPoolExecutor(max_workers=3) as ex:
        for m in ex.map(masked_updates, MATH_CONFIGS):
            if 'broken' in m:
                r.broke(m['broken'])
                continue
            if m.get('positive') != 'ok':
                r.broke('%s: lost-update rule self-test: %s' % (m['cfg'], m.get('positive')))
            for (n, where) in m['oks']:
                nob += 1
                stats['masked update keeps the old value'] += 1
            for (n, where, holds) in sorted(set(m.get('impl', []))):
                if not holds:
                    nob += 1
                    r.violation('masked-update-mask|%s|%s|%s' % (n, where, m['cfg']),
                                'in %s (%s) the per-lane select at %s inside an `if (any(M))` block uses a mask that does not imply M: lanes that do not satisfy M are rewritten whenever a NEIGHBOUR makes any(M) true' % (n, m['cfg'], where),
                                {'fn': n, 'cfg': m['cfg'], 'source': where})
                else:
                    stats['update mask implies the guard mask'] += 1
            for bad in sorted(set(m['bad'])):
                nob += 1
                r.violation('masked-update|%s|%s|%s' % (bad[0], bad[3], m['cfg']),
                            'in %s (%s) the value rewritten at %s inside an `if (any(mask))` block restarts from the base of the earlier masked updates instead of from its previous value: lanes updated before and not selected here change when a NEIGHBOUR makes any(mask) true' % (bad[0], m['cfg'], bad[3]),
                            {'fn': bad[0], 'cfg': m['cfg'], 'source': bad[3]})
            if len(samples) < 10 and m['oks']:
                samples.append({'obligation': 'masked-update|%s|%s|%s' % (m['oks'][0][0], m['oks'][0][1], m['cfg']), 'rule': 'select(m, new, OLD) at the join of if(any(M)): lanes outside m keep the value they had', 'verdict': 'kept'})
    if stats['masked update keeps the old value'] < 90:
        r.broke('masked-update rule found only %d sites' % stats['masked update keeps the old value'])
    if stats['lane-local'] + len(r.violations) < 5000 or stats['math lane-local'] + stats['math dependence violations'] < 500:
        r.broke('coverage below the floor: %s' % dict(stats))
    nbad = len(set(k for (k, w, d) in r.violations)) + len(set(x[1] for x in r.known_hits))
    cov = {'obligations': nob, 'discharged': nob - nbad, 'checker_cmd': 'python3 /verif/check.py C13 --tier %s' % a.tier,
           'trusted_base': ['clang 14 -O2 translation of the headers', 'lane-term normaliser (engine/terms.py, lanes.py) for the exact operations',
                            'engine/lanedep.py: cell-granular dependence fixpoint with post-dominator control dependence; the table of element-wise intrinsics (ELEMWISE_CALLS)'],
           'counts': dict(stats), 'undecided': len(undec), 'undecided_list': undec[:100], 'samples': samples, 'evaluations': nob, 'distinct_nontrivial': nob - nbad,
           'rule': '(i) exact element-wise ops x types x 21 configurations from lane terms; (ii) %d math wrappers x %s by dependence fixpoint; (iii) lost-update rule at the joins of if(any(M)) regions of the same wrappers' % (len(c14.math_tu('xsimd::sse2')[1]), MATH_CONFIGS),
           'exhaustive': True, 'headers_sha256': build.headers_hash()}
    if getattr(a, 'freeze', False):
        json.dump(uniform_now, open(ufloor_p, 'w'), indent=0, sort_keys=True)
        print('froze %d position-uniformity obligations' % len(uniform_now))
    cov['position_uniform_obligations'] = len([k for k in uniform_now if k in ufloor])
    cov['position_uniform_not_claimed'] = sorted(k for k in uniform_now if k not in ufloor)[:20]
    return r.finish(cov, ['cross-lane CONTROL through any()/all()/none() is allowed (tier selection); that tiers agree within the accuracy bound is C10/C11 and not decided -- except for the lost-update rule (iii): a per-lane select inside an if(any(M)) block that restarts from the base of earlier masked updates is reported',
                          'the elementary functions are analysed on sse4_1/avx2/avx512f; their per-architecture primitives are covered by part (i)'])
