"""C13 -- element-wise results depend only on the lane's own operands (DESIGN 3.C13).

(i)  Exact operations (every catalogued element-wise op of C01-C03, C06-C08, per type and configuration): the wrapper
     must be straight-line (only pruned assert preconditions) and the normalised term of output lane i may contain
     only atoms of lane i of the batch operands (and scalar operands): decided from the lane terms, for the
     decided AND the undecided wrappers (dependence needs no spec form).
(ii) Elementary functions (real + complex, float/double, on sse4_1 / avx2 / avx512f): fixpoint lane-dependence
     analysis over the CFG (engine/lanedep.py): output lane i may depend, through data edges and through
     control dependence on data-dependent branches, only on lane i of the arguments; whole-batch reductions of a mask
     (any/all/none) may steer branches and scalar-condition selects only -- if such a result reaches lane data through
     any other operation it counts as a dependence on every lane.
Together: a lane's result can be influenced by its neighbours only through which whole-batch tier is taken, never by
their data.  That the tiers agree to within the accuracy bound is C10/C11 and is not decided here.
"""
import collections
from concurrent.futures import ProcessPoolExecutor

from engine import build, ir, report, lanedep, lanecheck as L
from engine.ir import parse_type
from catalogue import configs as CF, ops as O
from . import c14

MATH_CONFIGS = ['sse4_1', 'avx2', 'avx512f']


def analyse_math(cfgname):
    c = CF.BY_NAME[cfgname]
    text, names = c14.math_tu(c.arch)
    ll, err = build.compile_tu(text, c.flags)
    if ll is None:
        return {'cfg': cfgname, 'broken': 'math wrapper TU does not compile: %s' % err[-500:]}
    mod = ir.load_ll(ll)
    res = {'cfg': cfgname, 'ok': [], 'bad': [], 'broken_list': [], 'unknown_calls': set()}
    defined = dict((n, f) for n, f in mod.functions.items() if not f.get('decl') and f['blocks'])
    summaries = {}
    # callees first (bottom-up over the call graph; cycles get a second round)
    calls = collections.defaultdict(set)
    for n, f in defined.items():
        for b in f['blocks']:
            for i in b['insts']:
                if i['op'] in ('call', 'invoke') and i.get('callee') in defined:
                    calls[n].add(i['callee'])
    order = []
    seen = set()

    def visit(n):
        if n in seen:
            return
        seen.add(n)
        for m_ in sorted(calls[n]):
            visit(m_)
        order.append(n)
    for n in sorted(defined):
        visit(n)
    outs = {}
    for rnd in range(2):
        for n in order:
            f = defined[n]
            try:
                ld = lanedep.LaneDep(mod, f, summaries)
                out = ld.run()
            except (ValueError, KeyError, IndexError, RecursionError) as e:
                outs[n] = ('err', repr(e)[:200])
                continue
            summaries[n] = lanedep.Summary(out, True)
            outs[n] = ('ok', out, ld)
        if not any(n in calls[n] or any(n in calls[m_] for m_ in calls[n]) for n in order):
            break
    for n, r_ in outs.items():
        if r_[0] == 'ok':
            res['unknown_calls'] |= r_[2].unknown_calls       # of the final round only
    for n in sorted(names):
        if n not in outs:
            res['broken_list'].append('wrapper %s missing' % n)
            continue
        r = outs[n]
        if r[0] == 'err':
            res['broken_list'].append('%s: analysis error %s' % (n, r[1]))
            continue
        f = defined[n]
        ok, bad = lanedep.lane_report(f, r[1])
        rt = parse_type(f['ret'])
        if ok:
            res['ok'].append((n, rt.n if rt.kind == 'vec' else 1))
        else:
            lane, atoms = bad[0]
            # locate a source line: the first instruction whose value already carries a foreign atom
            where = first_offender(f, r[2], lane)
            res['bad'].append((n, lane, [fmt_atom(a) for a in atoms], len(bad), where))
    res['unknown_calls'] = sorted(res['unknown_calls'])
    return res


def fmt_atom(a):
    if a[0] == 'a':
        return 'lane %s of argument %d' % (a[2], a[1])
    if a[0] == 'RX':
        return 'a whole-batch reduction result used as data (every lane)'
    return repr(a)


def first_offender(fn, ld, lane):
    """earliest instruction (in block order) whose element `lane`-th part depends on another lane"""
    for b in fn['blocks']:
        for inst in b['insts']:
            v = ld.env.get(inst['id'])
            if v is None:
                continue
            ty = parse_type(inst['ty'])
            if ty.kind != 'vec':
                continue
            ne = ty.n
            k = len(v.cells) // ne if ne else 1
            if k == 0:
                continue
            for e in range(ne):
                u = frozenset().union(*v.cells[e * k:(e + 1) * k])
                # map element e of this (possibly re-typed) register onto the result lanes it overlaps
                if any((a[0] == 'a' and isinstance(a[2], int) and not overlaps(ty, e, a[2], fn)) or a[0] == 'RX' for a in u):
                    return c14.src_of(inst)
    return None


def overlaps(ty, e, lane, fn):
    rt = parse_type(fn['ret'])
    if rt.kind != 'vec':
        return True
    lo, hi = e * ty.elem.bits, (e + 1) * ty.elem.bits
    llo, lhi = lane * rt.elem.bits, (lane + 1) * rt.elem.bits
    return lo < lhi and llo < hi


def run(a):
    r = report.Run('C13', a.tier, 'proof')
    nob = 0
    bad_keys = 0
    samples = []
    # ---- (i) exact operations: dependence read off the lane terms
    obls = {}
    nops = 0
    for c in CF.CONFIGS:
        l = []
        for o in O.OPS:
            if 'C13' not in o.props or getattr(o, 'whole', False):
                continue
            for t in o.types:
                vs = L.variants_of(o, t, c, a.tier)
                # shifts/rotates: dependence does not vary with the literal count -- three counts per type suffice
                if len(vs) > 3:
                    vs = [vs[0], vs[len(vs) // 2], vs[-1]]
                for v in vs:
                    l.append((o.name, t.name, v))
        obls[c.name] = l
    res = L.run_obligations(obls)
    stats = collections.Counter()
    undec = []
    for x in res:
        st = x.get('status')
        if st == 'broken':
            r.broke('%s: %s' % (x.get('cfg'), (x.get('why') or '')[:300]))
            continue
        if st == 'rejected':
            continue
        key = 'exact|%s|%s|%s' % (x['op'], x['ty'], x['cfg'])
        if st == 'undecided' and 'deps_ok' not in x:
            undec.append({'obligation': key, 'why': x.get('why')})
            stats['undecided'] += 1
            continue
        nob += 1
        if x.get('deps_ok') is False or 'dep_violation' in x:
            dv = x.get('dep_violation', {})
            r.violation(key, 'output lane %s of %s<%s> on %s depends on %s (source %s)' % (dv.get('lane'), x['op'], x['ty'], x['cfg'], dv.get('depends_on'), ' <- '.join((x.get('chain') or [])[:3])), x)
        else:
            stats['lane-local'] += 1
            if len(samples) < 3 and x['cfg'] == 'avx' and x['op'] in ('mul', 'lt', 'shl'):
                samples.append({'obligation': key, 'rule': 'atoms of output lane i are a subset of lane i of the operands', 'verdict': 'lane-local'})
    # ---- (ii) elementary functions
    with ProcessPoolExecutor(max_workers=3) as ex:
        for m in ex.map(analyse_math, MATH_CONFIGS):
            if 'broken' in m:
                r.broke(m['broken'])
                continue
            for b in m['broken_list']:
                r.broke('%s: %s' % (m['cfg'], b))
            if m['unknown_calls']:
                r.broke('%s: calls without a dependence model: %s' % (m['cfg'], ', '.join(m['unknown_calls'][:6])))
            for (n, lanes) in m['ok']:
                nob += 1
                stats['math lane-local'] += 1
                if len(samples) < 8 and n in ('m_tanh_f32', 'm_lgamma_f64', 'm_sin_f32', 'c_log_f64', 'm_pow_f32'):
                    samples.append({'obligation': 'math|%s|%s' % (n, m['cfg']), 'rule': 'fixpoint lane dependence incl. control dependence; %d output lanes each depend on their own lane only' % lanes, 'verdict': 'lane-local'})
            for (n, lane, atoms, nbad, where) in m['bad']:
                nob += 1
                r.violation('math|%s|%s' % (n, m['cfg']), 'output lane %d of %s (%s) depends on %s%s (%d lanes affected)' % (
                    lane, n, m['cfg'], '; '.join(atoms[:3]), ' -- first seen at %s' % where if where else '', nbad), {'fn': n, 'cfg': m['cfg'], 'lane': lane, 'atoms': atoms, 'source': where})
    if stats['lane-local'] < 5000 or stats['math lane-local'] < 500:
        r.broke('coverage below the floor: %s' % dict(stats))
    nbad = len(set(k for (k, w, d) in r.violations)) + len(set(x[1] for x in r.known_hits))
    cov = {'obligations': nob, 'discharged': nob - nbad, 'checker_cmd': 'python3 /verif/check.py C13 --tier %s' % a.tier,
           'trusted_base': ['clang 14 -O2 translation of the headers', 'lane-term normaliser (engine/terms.py, lanes.py) for the exact operations',
                            'engine/lanedep.py: cell-granular dependence fixpoint with post-dominator control dependence; the table of element-wise intrinsics (ELEMWISE_CALLS)'],
           'counts': dict(stats), 'undecided': len(undec), 'undecided_list': undec[:100], 'samples': samples, 'evaluations': nob, 'distinct_nontrivial': nob - nbad,
           'rule': '(i) exact element-wise ops x types x 21 configurations from lane terms; (ii) %d math wrappers x %s by dependence fixpoint' % (len(c14.math_tu('xsimd::sse2')[1]), MATH_CONFIGS),
           'exhaustive': True, 'headers_sha256': build.headers_hash()}
    return r.finish(cov, ['cross-lane CONTROL through any()/all()/none() is allowed (tier selection); that tiers agree within the accuracy bound is C10/C11 and not decided',
                          'the elementary functions are analysed on sse4_1/avx2/avx512f; their per-architecture primitives are covered by part (i)'])
