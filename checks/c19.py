"""C19 -- compile-time constant batches (DESIGN 3.C19).

Two static engines:
 (1) type-level witnesses (engine/witness.py): get(i), mask(), make_batch_constant<G>, every compile-time operator
     -- each obligation is a static_assert decided by clang's constant evaluator / type identity;
 (2) IR provenance (lane engine): as_batch()/as_batch_bool() of a constant must be the literal vector / mask, and
     every API taking a constant (select, swizzle, shuffle, insert, slide, rotate) must produce the lanes its
     definition (= the proven run-time form) names, for every enumerated instantiation.
"""
import os
import random
from concurrent.futures import ThreadPoolExecutor

from engine import witness as WIT, report, build
from catalogue import configs as C, masks as MK
from . import lane_props

PRELUDE = r'''
#include <xsimd/xsimd.hpp>
#include <cstdint>
#include <type_traits>
namespace vw {
struct g_id   { static constexpr unsigned get(unsigned i, unsigned n) { return i; } };
struct g_rev  { static constexpr unsigned get(unsigned i, unsigned n) { return n - 1 - i; } };
struct g_rot  { static constexpr unsigned get(unsigned i, unsigned n) { return (i + n - 1) % n; } };
struct g_c7   { static constexpr unsigned get(unsigned i, unsigned n) { return 7; } };
struct g_sq   { static constexpr unsigned get(unsigned i, unsigned n) { return (i * i + 3) % n; } };
struct g_x1   { static constexpr unsigned get(unsigned i, unsigned n) { return i ^ 1u; } };
struct g_n    { static constexpr unsigned get(unsigned i, unsigned n) { return n; } };
struct g_half { static constexpr unsigned get(unsigned i, unsigned n) { return i < n / 2 ? 2 * i : 2 * (i - n / 2) + 1; } };
struct b_even { static constexpr bool get(unsigned i, unsigned n) { return i % 2 == 0; } };
struct b_lo   { static constexpr bool get(unsigned i, unsigned n) { return i < n / 2; } };
struct b_last { static constexpr bool get(unsigned i, unsigned n) { return i + 1 == n; } };
struct b_thr  { static constexpr bool get(unsigned i, unsigned n) { return (i * 7 + 3) % 5 < 2; } };
}
'''
GENS = {
    'g_id': lambda i, n: i, 'g_rev': lambda i, n: n - 1 - i, 'g_rot': lambda i, n: (i + n - 1) % n, 'g_c7': lambda i, n: 7,
    'g_sq': lambda i, n: (i * i + 3) % n, 'g_x1': lambda i, n: i ^ 1, 'g_n': lambda i, n: n,
    'g_half': lambda i, n: 2 * i if i < n // 2 else 2 * (i - n // 2) + 1,
}
BGENS = {'b_even': lambda i, n: i % 2 == 0, 'b_lo': lambda i, n: i < n // 2, 'b_last': lambda i, n: i + 1 == n, 'b_thr': lambda i, n: (i * 7 + 3) % 5 < 2}

ARCHS = [(c.name, c.arch, c.bits) for c in C.CONFIGS] + [('emulated128', 'xsimd::emulated<128>', 128), ('emulated256', 'xsimd::emulated<256>', 256)]


def lit(ty, v):
    if ty.bits == 64:
        return ('%dull' % v) if v >= 0 and not ty.signed else (('%dll' % v) if v >= 0 else '(-%dll)' % (-v))
    if not ty.signed:
        return '%du' % v
    return str(v) if v >= 0 else '(%d)' % v


def pack(ty, vs):
    return ', '.join('(%s)%s' % (ty.c, lit(ty, v)) for v in vs)


def witnesses(name, arch, bits, tier, seed):
    ws = []
    rnd = random.Random('%d:c19w:%s' % (seed, name))
    for ty in C.ALL:
        n = bits // ty.bits
        t = ty.c
        # ---- batch_bool_constant: get(i), mask(), operators
        bpacks = MK.bool_packs(n, tier, 'c19w' + name)
        for bp in bpacks:
            bc = 'xsimd::batch_bool_constant<%s, %s, %s>' % (t, arch, ', '.join('true' if b else 'false' for b in bp))
            key = ''.join(str(b) for b in bp)
            ws.append(WIT.W('bget|%s|%s|%s' % (name, ty.name, key), ' && '.join('%s{}.get(%d) == %s' % (bc, i, 'true' if b else 'false') for i, b in enumerate(bp)) + ' && %s::size == %d' % (bc, n),
                            'batch_bool_constant<%s,%s,%s>::get(i) == b_i for every i' % (t, arch, key)))
            if n <= 32:
                m = sum(b << i for i, b in enumerate(bp))
                ws.append(WIT.W('bmask|%s|%s|%s' % (name, ty.name, key), '%s::mask() == (int)%du && (unsigned)%s::mask() == %du' % (bc, m, bc, m),
                                'batch_bool_constant<...,%s>::mask() has bit i == b_i (value %d)' % (key, m)))
        # compile-time boolean operators against the scalar operator on each lane
        for k in range(4 if tier == 'quick' else 24):
            x = [rnd.randrange(2) for _ in range(n)]
            y = [rnd.randrange(2) for _ in range(n)]
            X = 'xsimd::batch_bool_constant<%s, %s, %s>' % (t, arch, ', '.join('true' if b else 'false' for b in x))
            Y = 'xsimd::batch_bool_constant<%s, %s, %s>' % (t, arch, ', '.join('true' if b else 'false' for b in y))
            for opn, cop in (('and', '&'), ('or', '|'), ('xor', '^'), ('land', '&&'), ('lor', '||')):
                sc = {'&': '&&', '|': '||', '^': '!=', '&&': '&&', '||': '||'}[cop]
                want = 'xsimd::batch_bool_constant<%s, %s, %s>' % (t, arch, ', '.join('(%s %s %s)' % ('true' if a_ else 'false', sc, 'true' if b_ else 'false') for a_, b_ in zip(x, y)))
                ws.append(WIT.W('bop|%s|%s|%s|%d' % (name, ty.name, opn, k), 'std::is_same<decltype(%s{} %s %s{}), %s>::value' % (X, cop, Y, want),
                                'compile-time batch_bool_constant operator%s is the lane-wise scalar operation' % cop))
            for opn, cop in (('not', '!'), ('bnot', '~')):
                want = 'xsimd::batch_bool_constant<%s, %s, %s>' % (t, arch, ', '.join('(!%s)' % ('true' if a_ else 'false') for a_ in x))
                ws.append(WIT.W('bop|%s|%s|%s|%d' % (name, ty.name, opn, k), 'std::is_same<decltype(%s%s{}), %s>::value' % (cop, X, want),
                                'compile-time batch_bool_constant operator%s is lane-wise negation' % cop))
        for g, f in sorted(BGENS.items()):
            want = 'xsimd::batch_bool_constant<%s, %s, %s>' % (t, arch, ', '.join('true' if f(i, n) else 'false' for i in range(n)))
            ws.append(WIT.W('bgen|%s|%s|%s' % (name, ty.name, g), 'std::is_same<decltype(xsimd::make_batch_bool_constant<%s, vw::%s, %s>()), %s>::value' % (t, g, arch, want),
                            'make_batch_bool_constant<%s, %s, %s> places G::get(i,n) in lane i' % (t, g, arch)))
        if not ty.is_int:
            continue
        # ---- batch_constant: get(i), generators, operators
        for vp in MK.value_packs(ty, n, tier, 'c19w' + name):
            bc = 'xsimd::batch_constant<%s, %s, %s>' % (t, arch, pack(ty, vp))
            key = 'x'.join(str(v) for v in vp)
            if len(key) > 60:
                import hashlib
                key = hashlib.sha1(key.encode()).hexdigest()[:16]
            ws.append(WIT.W('get|%s|%s|%s' % (name, ty.name, key), ' && '.join('%s{}.get(%d) == (%s)%s' % (bc, i, t, lit(ty, v)) for i, v in enumerate(vp)) + ' && %s::size == %d' % (bc, n),
                            'batch_constant<%s,%s,...>::get(i) == v_i for every i' % (t, arch)))
        for g, f in sorted(GENS.items()):
            want = 'xsimd::batch_constant<%s, %s, %s>' % (t, arch, pack(ty, [f(i, n) for i in range(n)]))
            ws.append(WIT.W('gen|%s|%s|%s' % (name, ty.name, g), 'std::is_same<decltype(xsimd::make_batch_constant<%s, vw::%s, %s>()), %s>::value' % (t, g, arch, want),
                            'make_batch_constant<%s, %s, %s> places G::get(i,n) in lane i' % (t, g, arch)))
        # operators: the expected constants are written as the scalar expression, evaluated by the compiler
        W_ = ty.bits
        lim = (1 << ((W_ - 2) // 2)) if (ty.signed and W_ >= 32) else ((1 << (W_ - 1)) - 1 if ty.signed else (1 << W_) - 1)
        for k in range(4 if tier == 'quick' else 24):
            if ty.signed:
                x = [rnd.randint(-lim, lim) for _ in range(n)]
                y = [rnd.choice([v for v in (rnd.randint(-lim, lim), 1, 2, 3, -3, 7) if v not in (0, -1)]) for _ in range(n)]
            else:
                x = [rnd.randint(0, lim) for _ in range(n)]
                # uint16*uint16 is evaluated in int: keep the product below 2^31 (beyond it the scalar operation itself is UB)
                y = [rnd.randint(1, lim if W_ != 16 else 32767) for _ in range(n)]
            X = 'xsimd::batch_constant<%s, %s, %s>' % (t, arch, pack(ty, x))
            Y = 'xsimd::batch_constant<%s, %s, %s>' % (t, arch, pack(ty, y))
            for opn, cop in (('add', '+'), ('sub', '-'), ('mul', '*'), ('div', '/'), ('mod', '%'), ('and', '&'), ('or', '|'), ('xor', '^')):
                want = 'xsimd::batch_constant<%s, %s, %s>' % (t, arch, ', '.join('(%s)((%s)%s %s (%s)%s)' % (t, t, lit(ty, a_), cop, t, lit(ty, b_)) for a_, b_ in zip(x, y)))
                ws.append(WIT.W('op|%s|%s|%s|%d' % (name, ty.name, opn, k), 'std::is_same<decltype(%s{} %s %s{}), %s>::value' % (X, cop, Y, want),
                                'compile-time batch_constant operator%s yields the constants of the lane-wise scalar %s' % (cop, cop)))
            for opn, cop in (('neg', '-'), ('pos', '+'), ('bnot', '~')):
                want = 'xsimd::batch_constant<%s, %s, %s>' % (t, arch, ', '.join('(%s)(%s(%s)%s)' % (t, cop, t, lit(ty, a_)) for a_ in x))
                ws.append(WIT.W('op|%s|%s|%s|%d' % (name, ty.name, opn, k), 'std::is_same<decltype(%s%s{}), %s>::value' % (cop, X, want),
                                'compile-time batch_constant unary operator%s' % cop))
    # negative witnesses: a constant with the wrong number of values must be rejected
    ws.append(WIT.W('neg|count|%s' % name, 'xsimd::batch_constant<int32_t, %s, 1, 2, 3>::size == 3' % arch, 'batch_constant with 3 values for a %d-lane batch is rejected' % (bits // 32), neg=True))
    ws.append(WIT.W('neg|bcount|%s' % name, 'xsimd::batch_bool_constant<int32_t, %s, true>::size == 1' % arch, 'batch_bool_constant with 1 value is rejected', neg=True))
    return ws


def witness_part(a):
    def extra(r):
        jobs = [(n, arch, bits) for (n, arch, bits) in ARCHS]

        def work(j):
            n, arch, bits = j
            ws = witnesses(n, arch, bits, a.tier, r.seed)
            res, cmd, un = WIT.run(PRELUDE, ws, WIT.ALLX86, std='c++17')
            return n, ws, res, cmd, un
        total = held = 0
        samples = []
        cmd0 = ''
        with ThreadPoolExecutor(max_workers=16) as ex:
            for (n, ws, res, cmd, un) in ex.map(work, jobs):
                cmd0 = cmd
                for u in un:
                    r.broke('witness TU %s: diagnostic not attributable to a witness: %s' % (n, u[:300]))
                for w in ws:
                    total += 1
                    st, msg = res[w.key]
                    if st == 'holds':
                        held += 1
                        if len(samples) < 5 and total % 3001 == 7:
                            samples.append({'obligation': 'witness|' + w.key, 'witness': ('static_assert((%s))' % w.expr)[:700], 'states': w.what})
                    else:
                        r.violation('witness|' + w.key, '%s -- %s [%s]' % (w.what, 'relation is false' if st == 'fails' else 'construct no longer type-checks', msg[:300]),
                                    {'witness': w.expr[:3000], 'status': st, 'diagnostic': msg})
        if total < 9000:
            r.broke('only %d compile-time witnesses generated (floor 9000)' % total)
        return {'obligations': total, 'discharged': held, 'evaluations': total, 'distinct_nontrivial': held, 'samples': samples,
                'witnesses': total, 'witness_cmd': cmd0, 'witness_architectures': [x[1] for x in ARCHS]}
    return extra


def run(a):
    return lane_props.run('C19', 'exploration', a,
                          'exploration over instantiations (value packs covering each lane independently: one-hot, all-but-one, extremes, alternating, VERIF_SEED random; generator functors; operator pairs); each instantiation is decided exactly: (1) get/mask/make_batch_constant/compile-time operators by static_assert witnesses (type identity against the lane-wise scalar expression evaluated by the compiler), (2) as_batch/as_batch_bool and the constant-taking APIs by IR provenance (result lanes must be the literal constants / the lanes the run-time definition names)',
                          extra=witness_part(a), trusted=['clang 14 constant evaluator and type identity (std::is_same) for the static_assert witnesses'])
