"""C15 -- availability flags and dispatch (DESIGN 3.C15).

(a) Must-imply analysis of the CPUID/XGETBV decoder.  One wrapper per architecture,
      bool has_X() { return xsimd::detail::supported_arch().has(X{}); }
    is compiled; every path is enumerated (engine/sym.py) and every value is abstracted bit by bit to the set of
    hardware atoms -- cpuid(leaf,sub).reg[bit], xcr0[bit] -- that are NECESSARILY 1 when the bit is 1.  Obligation per
    path:  Required(X)  is contained in  Facts(path conditions)  united with  MustImply(result != 0).
    Required(X) is the frozen table below (Intel SDM vol.1 13.2/14.3/15.2, vol.2 CPUID; AMD APM for FMA4).
(b) Dispatcher walk.  For a family of arch_lists the CFG of dispatch<L>(f)(a,b) must call exactly one f_X per path,
    X being the first list member whose cached flag is non-zero (or the last member), forward (a,b) in order and
    return the call's result.  The flag read for has(X) is resolved through the record layout taken from the source.
(c) The function-local cache is written only between __cxa_guard_acquire (successful) and __cxa_guard_release.
Nothing is executed: the cpuid/xgetbv instructions are never run, they are symbolic sources of atoms.
"""
import itertools
import os
import random
import re
from concurrent.futures import ProcessPoolExecutor

from engine import build, ir, sym, report, witness as WIT
from engine.sym import C, mk

REG = {0: 'eax', 1: 'ebx', 2: 'ecx', 3: 'edx'}
L1, L7, L7_1, L8 = (1, 0), (7, 0), (7, 1), (0x80000001, 0)
OSXSAVE = ('cpuid', 1, 0, 'ecx', 27)


def bit(leafsub, reg, b):
    return ('cpuid', leafsub[0], leafsub[1], reg, b)


# name, C++ type, own feature bits, state class
ARCHS = [
    ('sse2', 'xsimd::sse2', [bit(L1, 'edx', 26)], 'xmm'),
    ('sse3', 'xsimd::sse3', [bit(L1, 'ecx', 0)], 'xmm'),
    ('ssse3', 'xsimd::ssse3', [bit(L1, 'ecx', 9)], 'xmm'),
    ('sse4_1', 'xsimd::sse4_1', [bit(L1, 'ecx', 19)], 'xmm'),
    ('sse4_2', 'xsimd::sse4_2', [bit(L1, 'ecx', 20)], 'xmm'),
    ('fma3_sse', 'xsimd::fma3<xsimd::sse4_2>', [bit(L1, 'ecx', 12)], 'ymm'),
    ('fma4', 'xsimd::fma4', [bit(L8, 'ecx', 16)], 'ymm'),
    ('avx', 'xsimd::avx', [bit(L1, 'ecx', 28)], 'ymm'),
    ('fma3_avx', 'xsimd::fma3<xsimd::avx>', [bit(L1, 'ecx', 12), bit(L1, 'ecx', 28)], 'ymm'),
    ('avx2', 'xsimd::avx2', [bit(L7, 'ebx', 5)], 'ymm'),
    ('avxvnni', 'xsimd::avxvnni', [bit(L7_1, 'eax', 4)], 'ymm'),
    ('fma3_avx2', 'xsimd::fma3<xsimd::avx2>', [bit(L7, 'ebx', 5), bit(L1, 'ecx', 12)], 'ymm'),
    ('avx512f', 'xsimd::avx512f', [bit(L7, 'ebx', 16)], 'zmm'),
    ('avx512cd', 'xsimd::avx512cd', [bit(L7, 'ebx', 28)], 'zmm'),
    ('avx512dq', 'xsimd::avx512dq', [bit(L7, 'ebx', 17)], 'zmm'),
    ('avx512bw', 'xsimd::avx512bw', [bit(L7, 'ebx', 30)], 'zmm'),
    ('avx512er', 'xsimd::avx512er', [bit(L7, 'ebx', 27)], 'zmm'),
    ('avx512pf', 'xsimd::avx512pf', [bit(L7, 'ebx', 26)], 'zmm'),
    ('avx512ifma', 'xsimd::avx512ifma', [bit(L7, 'ebx', 21)], 'zmm'),
    ('avx512vbmi', 'xsimd::avx512vbmi', [bit(L7, 'ecx', 1)], 'zmm'),
    ('avx512vbmi2', 'xsimd::avx512vbmi2', [bit(L7, 'ecx', 6)], 'zmm'),
    ('avx512vnni_bw', 'xsimd::avx512vnni<xsimd::avx512bw>', [bit(L7, 'ecx', 11)], 'zmm'),
    ('avx512vnni_vbmi2', 'xsimd::avx512vnni<xsimd::avx512vbmi2>', [bit(L7, 'ecx', 6), bit(L7, 'ecx', 11)], 'zmm'),
]
# an order used only to BUILD explicit arch_lists for the dispatcher sweep (any order would do); the default list's own
# order is read from the source (default_order) and checked to be best-first there
LIST_ORDER = ['avx512vnni_vbmi2', 'avx512vbmi2', 'avx512vbmi', 'avx512ifma', 'avx512pf', 'avx512vnni_bw', 'avx512bw', 'avx512er', 'avx512dq', 'avx512cd', 'avx512f',
              'avxvnni', 'fma3_avx2', 'avx2', 'fma3_avx', 'avx', 'fma4', 'fma3_sse', 'sse4_2', 'sse4_1', 'ssse3', 'sse3', 'sse2']
BY = dict((a[0], a) for a in ARCHS)


def atom_str(a):
    if a[0] == 'cpuid':
        return 'CPUID(%s,%d).%s[%d]' % (hex(a[1]) if a[1] > 9 else a[1], a[2], a[3].upper(), a[4])
    return 'XCR0[%d]' % a[1]


# --------------------------------------------------------------------------------------- must-imply abstraction
TOP = frozenset()


class MI(object):
    """bit-level must-imply abstraction of sym expressions.  A bit is 0, 1, or a frozenset S of atoms with the meaning
    'if this bit is 1 then every atom of S is 1' (the empty set = no information)."""

    def __init__(self, path):
        self.memo = {}
        self.calls = {}
        self.unknown = []
        for e in path.events:
            if e[0] == 'call':
                self.calls[e[2]] = e

    def width(self, e):
        if e[0] == 'c':
            return e[1]
        if e[0] == 'op':
            return e[2]
        if e[0] == 'call':
            return e[3]
        return 32

    def bits(self, e):
        k = self.memo.get(e)
        if k is None:
            k = self._bits(e)
            self.memo[e] = k
        return k

    def _or(self, xs):
        """abstract OR of a list of abstract bits"""
        if any(x == 1 for x in xs):
            return 1
        xs = [x for x in xs if x != 0]
        if not xs:
            return 0
        s = xs[0]
        for x in xs[1:]:
            s = s & x
        return s

    def _and(self, a, b):
        if a == 0 or b == 0:
            return 0
        if a == 1:
            return b
        if b == 1:
            return a
        return a | b

    def _bits(self, e):
        w = self.width(e)
        if e[0] == 'c':
            return [(e[2] >> i) & 1 for i in range(w)]
        if e[0] == 'call':
            ev = self.calls.get(e[2])
            kind = classify_asm(ev) if ev else None
            if kind and kind[0] == 'xgetbv':
                return [frozenset([('xcr0', i)]) for i in range(w)]
            self.unknown.append(e[1])
            return [TOP] * w
        if e[0] != 'op':
            return [TOP] * w
        name, ops = e[1], e[3]
        if name == 'extractvalue':
            v, idx = ops
            if v[0] == 'call':
                ev = self.calls.get(v[2])
                kind = classify_asm(ev) if ev else None
                if kind and kind[0] == 'cpuid':
                    leaf, sub, outs = kind[1], kind[2], kind[3]
                    reg = outs[idx[2]]
                    return [frozenset([('cpuid', leaf, sub, reg, i)]) for i in range(w)]
                self.unknown.append(v[1])
            return [TOP] * w
        if name == 'and':
            a, b = self.bits(ops[0]), self.bits(ops[1])
            return [self._and(x, y) for x, y in zip(a, b)]
        if name == 'or':
            a, b = self.bits(ops[0]), self.bits(ops[1])
            return [self._or([x, y]) for x, y in zip(a, b)]
        if name == 'xor':
            a, b = self.bits(ops[0]), self.bits(ops[1])
            return [x if y == 0 else (y if x == 0 else TOP) for x, y in zip(a, b)]
        if name == 'not':
            a = self.bits(ops[0])
            if w == 1:
                inner = ops[0]
                if inner[0] == 'op' and inner[1] == 'icmp' and inner[3][0] == 'eq' and inner[3][2][0] == 'c' and inner[3][2][2] == 0:
                    return [self._or(self.bits(inner[3][1]))]      # x != 0  <=>  some bit of x is 1
            return [1 if x == 0 else (0 if x == 1 else TOP) for x in a]
        if name in ('lshr', 'ashr') and ops[1][0] == 'c':
            a = self.bits(ops[0])
            k = ops[1][2]
            fill = a[w - 1] if name == 'ashr' else 0
            return [a[i + k] if i + k < w else fill for i in range(w)]
        if name == 'mul' and ops[1][0] == 'c' and ops[1][2] and ops[1][2] & (ops[1][2] - 1) == 0:
            a = self.bits(ops[0])
            k = ops[1][2].bit_length() - 1
            return [0] * k + a[:w - k]
        if name in ('zext', 'sext'):
            a = self.bits(ops[0])
            return a + [a[-1] if name == 'sext' else 0] * (w - len(a))
        if name == 'trunc':
            return self.bits(ops[0])[:w]
        if name == 'icmp':
            pred, x, y = ops
            if pred == 'eq' and y[0] == 'c' and y[2] == 0:
                bx = self.bits(x)
                if all(b == 0 for b in bx):
                    return [1]
                return [TOP]
            if pred in ('ugt',) and y[0] == 'c' and y[2] == 0:
                return [self._or(self.bits(x))]
            if pred == 'eq' and y[0] == 'c' and self.width(x) == 1:
                return self.bits(x) if y[2] else [TOP]
            return [TOP]
        if name == 'select':
            c, x, y = ops
            bc = self.bits(c)[0]
            bx, by = self.bits(x), self.bits(y)
            return [self._or([self._and(bc, p), q]) for p, q in zip(bx, by)]
        return [TOP] * w

    def nonzero(self, e):
        """must-imply set of  e != 0  (None if e is provably zero)"""
        b = self._or(self.bits(e))
        return b


def classify_asm(ev):
    """recognises the two CPU query primitives by their inline-asm text and constraints; anything else is unknown"""
    name = ev[1]
    inst = ev[4]
    if not name.startswith('asm:'):
        return None
    text = [l.strip() for l in inst['asm'].replace('\t', ' ').split('\n') if l.strip()]
    cons = inst['cons'].split(',')
    outs = [c[1:].strip('{}') for c in cons if c.startswith('=')]
    ins = [c for c in cons if not c.startswith('=') and not c.startswith('~')]
    regname = {'ax': 'eax', 'bx': 'ebx', 'cx': 'ecx', 'dx': 'edx'}
    if text == ['cpuid'] and outs == ['ax', 'bx', 'cx', 'dx'] and ins == ['0', '2'] and len(ev[3]) == 2:
        leaf, sub = ev[3]
        if leaf[0] == 'c' and sub[0] == 'c':
            return ('cpuid', leaf[2], sub[2], dict((i, regname[o]) for i, o in enumerate(outs)))
        return None
    if text == ['xorl %ecx, %ecx', 'xgetbv'] and outs == ['ax'] and not ins:
        return ('xgetbv',)
    return None


def required(name, facts):
    a = BY[name]
    req = [('all', [x]) for x in a[2]]
    if a[3] == 'xmm':
        if OSXSAVE in facts:
            req.append(('all', [('xcr0', 1)]))
    elif a[3] == 'ymm':
        req.append(('all', [OSXSAVE]))
        req.append(('all', [('xcr0', 2)]))
    elif a[3] == 'zmm':
        req.append(('all', [OSXSAVE]))
        req.append(('any', [('xcr0', 5), ('xcr0', 6), ('xcr0', 7)]))
        req.append(('any', [('xcr0', 2), ('xcr0', 5), ('xcr0', 6), ('xcr0', 7)]))
    return req


def close(s):
    """hardware invariants stated in the property: XCR0[2] implies XCR0[1]; XCR0[7:5] all-or-none and only with XCR0[2]"""
    s = set(s)
    if s & set([('xcr0', 5), ('xcr0', 6), ('xcr0', 7)]):
        s |= set([('xcr0', 5), ('xcr0', 6), ('xcr0', 7), ('xcr0', 2)])
    if ('xcr0', 2) in s:
        s.add(('xcr0', 1))
    if s & set(('xcr0', i) for i in range(8)):
        pass
    return s


FLAG_PRELUDE = '#include <xsimd/xsimd.hpp>\nextern "C" {\n'


def flags_tu():
    L = [FLAG_PRELUDE]
    for (n, t, own, st) in ARCHS:
        L.append('bool has_%s() { return xsimd::detail::supported_arch().has(%s{}); }' % (n, t))
        L.append('bool hasf_%s(const xsimd::detail::supported_arch& s) { return s.has(%s{}); }' % (n, t))
        L.append('bool avail_%s() { return xsimd::available_architectures().has(%s{}); }' % (n, t))
    L.append('}')
    return '\n'.join(L) + '\n'


def src(inst):
    ch = ir.src_chain(inst) if inst else []
    return ' <- '.join(c for c in ch[:3])


def check_flag(name, fn, mod, out):
    paths = sym.Sym(mod, fn).run()
    nob = 0
    detail = []
    for p in paths:
        if p.term[0] != 'ret':
            out('flag|%s' % name, 'has(%s): a path of the detector does not return (%s)' % (name, p.term[0]), None)
            continue
        nob += 1
        mi = MI(p)
        # every inline asm on the path must be one of the two recognised query primitives
        for e in p.events:
            if e[0] == 'call':
                if not e[1].startswith('asm:') or classify_asm(e) is None:
                    out('flag|%s' % name, 'the detector executes an unrecognised CPU query / call: %s (only CPUID with constant leaf/sub-leaf and XGETBV(0) are modelled)' % e[1][:80].replace('\n', ' '), e[4])
        facts = set()
        for (c, pol, inst) in p.conds:
            b = mi.bits(c if pol else mk('not', 1, c))[0]
            if isinstance(b, frozenset):
                facts |= b
        # XGETBV is only legal when OSXSAVE is known to be set on this path
        for e in p.events:
            if e[0] == 'call' and classify_asm(e) == ('xgetbv',) and OSXSAVE not in facts:
                out('xgetbv|%s' % name, 'XGETBV is executed on a path that has not established CPUID(1).ECX[27] (OSXSAVE): the instruction faults (#UD) there', e[4])
        r = p.term[1]
        res = mi.nonzero(r)
        if res == 0:
            detail.append('path%s: never reported' % ('[OSXSAVE]' if OSXSAVE in facts else ''))
            continue    # never reported available on this path: trivially fine
        implied = close(facts | (res if isinstance(res, frozenset) else set()))
        missing = []
        for (kind, atoms) in required(name, facts):
            if kind == 'all' and not all(a in implied for a in atoms):
                missing += [a for a in atoms if a not in implied]
            if kind == 'any' and not any(a in implied for a in atoms):
                missing.append(atoms[1] if len(atoms) > 1 else atoms[0])
        detail.append('path%s: reported => {%s}' % ('[OSXSAVE]' if OSXSAVE in facts else '[no OSXSAVE]', ', '.join(sorted(atom_str(a) for a in implied))))
        if missing:
            where = None
            for (c, pol, inst) in p.conds:
                where = inst
            out('flag|%s|%s' % (name, 'osxsave' if OSXSAVE in facts else 'no-osxsave'),
                '%s can be reported available %s without %s being set (must-imply set of the flag on this path: {%s})'
                % (BY[name][1], 'when OSXSAVE is set' if OSXSAVE in facts else 'when OSXSAVE is clear', ' and '.join(sorted(set(atom_str(a) for a in missing))),
                   ', '.join(sorted(atom_str(a) for a in implied))), where)
    return nob, detail


# --------------------------------------------------------------------------------------- dispatcher
def disp_tu(lists):
    L = ['#include <xsimd/xsimd.hpp>', 'extern "C" {']
    for (n, t, own, st) in ARCHS:
        L.append('int f_%s(int, float);' % n)
    L.append('}')
    L.append('template <class A> struct callee;')
    for (n, t, own, st) in ARCHS:
        L.append('template <> struct callee<%s> { static int call(int a, float b) { return f_%s(a, b); } };' % (t, n))
    L.append('struct Fn { template <class A> int operator()(A, int a, float b) const { return callee<A>::call(a, b); } };')
    L.append('extern "C" {')
    names = []
    for i, l in enumerate(lists):
        nm = 'disp_%d' % i
        names.append(nm)
        if l is None:
            L.append('int %s(int a, float b) { return xsimd::dispatch(Fn{})(a, b); }' % nm)
        else:
            L.append('int %s(int a, float b) { return xsimd::dispatch<xsimd::arch_list<%s>>(Fn{})(a, b); }' % (nm, ', '.join(BY[x][1] for x in l)))
    L.append('}')
    return '\n'.join(L) + '\n', names


def field_offsets(mod, out):
    off = {}
    for (n, t, own, st) in ARCHS:
        fn = mod.functions.get('hasf_' + n)
        paths = sym.Sym(mod, fn).run()
        p = paths[0]
        o = None
        if len(paths) == 1 and p.term[0] == 'ret':
            lds = [e for e in p.events if e[0] == 'load']
            if len(lds) == 1:
                ptr = lds[0][1]
                if ptr == ('arg', 0, None):
                    o = 0
                elif ptr[0] == 'op' and ptr[1] == 'gep' and ptr[3][0] == ('arg', 0, None) and len(ptr[3]) == 2:
                    o = ptr[3][1][2]
        if o is None:
            out('broken', 'cannot resolve the record field read by supported_arch::has(%s)' % t)
            continue
        off[n] = o
    inv = {}
    for n, o in off.items():
        if o in inv:
            out('layout|%s' % n, 'supported_arch::has(%s) and has(%s) read the same field (offset %d): two architectures share one availability flag' % (BY[n][1], BY[inv[o]][1], o), None)
        inv[o] = n
    return off


def check_disp(job):
    """worker: compile one TU of dispatcher wrappers and check every path of each"""
    lists, flags, offs, default_list = job
    text, names = disp_tu(lists)
    ll, err = build.compile_tu(text, flags)
    res = []
    if ll is None:
        return [('broken', 'dispatch wrapper TU does not compile: %s' % err[-500:], None, 0)]
    mod = ir.load_ll(ll)
    for nm, l in zip(names, lists):
        l = l if l is not None else default_list
        fn = mod.functions.get(nm)
        try:
            paths = sym.Sym(mod, fn).run()
        except sym.TooComplex as e:
            res.append(('broken', '%s: %s' % (nm, e), None, 0))
            continue
        npaths = 0
        key = 'dispatch|' + '>'.join(l)
        for p in paths:
            if p.term[0] == 'unreachable' and any(e[0] == 'call' and e[1] == '__assert_fail' for e in p.events):
                # the library's documented precondition: the last architecture of the list must be available
                continue
            npaths += 1
            calls = [e for e in p.events if e[0] == 'call' and e[1].startswith('f_')]
            if len(calls) != 1:
                res.append((key, 'dispatch over <%s>: a path invokes the functor %d times (%s)' % (', '.join(l), len(calls), [c[1] for c in calls]), None, 0))
                continue
            c = calls[0]
            x = c[1][2:]
            if x not in l:
                res.append((key, 'dispatch over <%s> calls the functor with %s, which is not in the list' % (', '.join(l), x), src(c[4]), 0))
                continue
            if c[3] != [('arg', 0, None), ('arg', 1, None)]:
                res.append((key, 'dispatch does not forward its arguments in order to the functor: f_%s(%s)' % (x, ', '.join(sym.fmt(a) for a in c[3])), src(c[4]), 0))
            if p.term[0] != 'ret' or p.term[1] != ('call', c[1], c[2], 32):
                res.append((key, 'dispatch does not return the functor\'s result on the path through f_%s (returns %s)' % (x, sym.fmt(p.term[1]) if p.term[0] == 'ret' and p.term[1] else p.term), src(c[4]), 0))
            # the path condition must say: has(Y) false for every Y before X, has(X) true unless X is last
            tested = {}
            bad = None
            for (cnd, pol, inst) in p.conds:
                g = flag_of(cnd)
                if g is None:
                    continue
                fld, nonzero_when_true = g
                val = pol if nonzero_when_true else (not pol)
                tested[fld] = val
            i = l.index(x)
            for y in l[:i]:
                if tested.get(offs[y]) is not False:
                    bad = 'f_%s is reached although the flag of %s, which precedes it in the list, %s' % (x, y, 'is set' if tested.get(offs[y]) else 'was never tested')
            if i < len(l) - 1 and tested.get(offs[x]) is not True:
                bad = 'f_%s is reached without its availability flag being set' % x
            if bad:
                res.append((key, 'dispatch over <%s>: %s' % (', '.join(l), bad), src(c[4]), 0))
            # cache discipline: stores to the cached record only inside the guarded initialisation
            in_guard = False
            for e in p.events:
                if e[0] == 'call' and e[1] == '__cxa_guard_acquire':
                    in_guard = True
                elif e[0] == 'call' and e[1] == '__cxa_guard_release':
                    in_guard = False
                elif e[0] == 'gstore' and 'available_architectures' in e[1] and not in_guard:
                    res.append(('cache|' + nm, 'the cached supported_arch record is written outside its one-time guarded initialisation', src(e[-1]), 0))
                elif e[0] == 'call' and e[1].startswith('llvm.mem') and not in_guard and any(a[0] == 'global' and 'available_architectures' in a[1] for a in e[3][:1]):
                    res.append(('cache|' + nm, 'the cached supported_arch record is written outside its one-time guarded initialisation', src(e[4]), 0))
        res.append(('ok', key, None, npaths))
    return res


def flag_of(cnd):
    """cnd is a branch condition; returns (field offset, True if cnd true means flag != 0)"""
    neg = False
    e = cnd
    if e[0] == 'op' and e[1] == 'not':
        neg = True
        e = e[3][0]
    if e[0] == 'op' and e[1] == 'icmp' and e[3][0] == 'eq' and e[3][2] == ('c', e[3][2][1], 0):
        v = e[3][1]
        if v[0] == 'gval' and 'available_architectures' in v[1]:
            return v[2], neg
        if v[0] == 'op' and v[1] == 'trunc' and v[3][0][0] == 'gval':
            return v[3][0][2], neg
    return None


def sublists(tier, seed):
    full = LIST_ORDER
    out = [None]
    out.append(list(full))
    for i in range(1, len(full)):
        out.append(full[i:])                 # every suffix
    for i in range(1, len(full)):
        out.append(full[:i])                 # every prefix
    for a, b in itertools.combinations(range(len(full)), 2):
        out.append([full[a], full[b]])
    rnd = random.Random('%d:c15' % seed)
    tri = list(itertools.combinations(range(len(full)), 3))
    if tier == 'quick':
        tri = rnd.sample(tri, 250)
    for t in tri:
        out.append([full[i] for i in t])
    for _ in range(60 if tier == 'quick' else 600):
        k = rnd.randrange(4, 9)
        t = sorted(rnd.sample(range(len(full)), k))
        out.append([full[i] for i in t])
    # lists that are NOT in best-first order must be walked in the order given as well
    for _ in range(30 if tier == 'quick' else 200):
        k = rnd.randrange(2, 6)
        t = rnd.sample(range(len(full)), k)
        out.append([full[i] for i in t])
    return out


IDX_PRELUDE = r"""
#include <xsimd/xsimd.hpp>
#include <type_traits>
namespace vw {
template <class A, class L> struct index_of;
template <class A, class... Ts> struct index_of<A, xsimd::arch_list<A, Ts...>> { static constexpr int value = 0; };
template <class A> struct index_of<A, xsimd::arch_list<>> { static constexpr int value = -1000000; };
template <class A, class H, class... Ts> struct index_of<A, xsimd::arch_list<H, Ts...>> { static constexpr int value = 1 + index_of<A, xsimd::arch_list<Ts...>>::value; };
}
"""
WIDTH = {'xmm': 128, 'ymm': 256, 'zmm': 512}
BITS = dict((a[0], 128 if (a[0].startswith('sse') or a[0] in ('ssse3', 'fma3_sse', 'fma4')) else (512 if a[0].startswith('avx512') else 256)) for a in ARCHS)


def default_order(flags, out, r):
    """position of every architecture in supported_architectures and the derives-from relation, both read off the
    type checker (a witness that does not hold is an answer, not a violation); then the best-first conditions"""
    ws = []
    n = len(ARCHS)
    for (a, t, own, st) in ARCHS:
        for k in range(n):
            ws.append(WIT.W('idx|%s|%d' % (a, k), 'vw::index_of<%s, xsimd::supported_architectures>::value == %d' % (t, k), ''))
        for (b, t2, own2, st2) in ARCHS:
            if a != b:
                ws.append(WIT.W('base|%s|%s' % (a, b), 'std::is_base_of<%s, %s>::value' % (t2, t), ''))
    ws.append(WIT.W('best', 'std::is_same<xsimd::best_arch, typename xsimd::supported_architectures::best>::value && std::is_same<xsimd::default_arch, xsimd::best_arch>::value && vw::index_of<xsimd::best_arch, xsimd::supported_architectures>::value == 0', ''))
    res, cmd, un = WIT.run(IDX_PRELUDE, ws, flags)
    for u in un:
        r.broke('list-order witness TU: ' + u[:300])
    pos = {}
    for (a, t, own, st) in ARCHS:
        ks = [k for k in range(n) if res['idx|%s|%d' % (a, k)][0] == 'holds']
        if len(ks) != 1:
            out('order|member|' + a, '%s is not a member of the default dispatch list (supported_architectures) although its ISA is enabled' % t, 'config/xsimd_arch.hpp')
            continue
        pos[a] = ks[0]
    if res['best'][0] != 'holds':
        out('order|best', 'best_arch / default_arch is not the head of supported_architectures', 'config/xsimd_arch.hpp')
    nchk = 1
    for (a, t, own, st) in ARCHS:
        for (b, t2, own2, st2) in ARCHS:
            if a == b or a not in pos or b not in pos:
                continue
            nchk += 1
            derives = res['base|%s|%s' % (a, b)][0] == 'holds'
            if derives and not pos[a] < pos[b]:
                out('order|parent_after|%s|%s' % (a, b), 'the default dispatch list is not best-first: %s extends %s but is listed after it (position %d vs %d), so dispatch prefers the weaker architecture' % (t, t2, pos[a], pos[b]), 'config/xsimd_arch.hpp')
            if BITS[a] > BITS[b] and not pos[a] < pos[b]:
                out('order|wider_first|%s|%s' % (a, b), 'the default dispatch list is not best-first: %d-bit %s is listed after %d-bit %s' % (BITS[a], t, BITS[b], t2), 'config/xsimd_arch.hpp')
    return [a for a in sorted(pos, key=lambda x: pos[x])], nchk


def run(a):
    r = report.Run('C15', a.tier, 'proof')
    seen = set()

    def out(key, what, inst):
        if key == 'broken':
            r.broke(what)
            return
        if key in seen:
            return
        seen.add(key)
        r.violation(key, '%s [%s]' % (what, src(inst) if isinstance(inst, dict) else (inst or 'config/xsimd_cpuid.hpp')), {'what': what, 'source': src(inst) if isinstance(inst, dict) else inst})
    flags = WIT.ALLX86[:-1]
    ll, err = build.compile_tu(flags_tu(), flags)
    nob = 0
    samples = []
    counts = {}
    if ll is None:
        r.broke('flag wrapper TU does not compile: ' + err[-500:])
        return r.finish({'obligations': 0, 'discharged': 0, 'checker_cmd': 'python3 /verif/check.py C15', 'trusted_base': []}, [])
    mod = ir.load_ll(ll)
    for (n, t, own, st) in ARCHS:
        fn = mod.functions.get('has_' + n)
        if fn is None:
            r.broke('wrapper has_%s missing' % n)
            continue
        try:
            k, detail = check_flag(n, fn, mod, out)
        except sym.TooComplex as e:
            r.broke('has_%s: %s' % (n, e))
            continue
        nob += k
        counts['flag paths'] = counts.get('flag paths', 0) + k
        if n in ('sse4_2', 'avx2', 'avx512bw'):
            samples.append({'obligation': 'flag|' + n, 'required': [atom_str(x) for x in own] + [st + ' state'], 'must_imply_per_path': detail})
        if k < 2:
            r.broke('has_%s: only %d returning paths (the OSXSAVE split is expected)' % (n, k))
    offs = field_offsets(mod, lambda key, what, inst=None: out(key, what, inst))
    nob += len(offs)
    counts['record fields resolved'] = len(offs)
    # the cached accessor must return the same record the constructor fills: avail_X reads field off[X] of the static
    for (n, t, own, st) in ARCHS:
        fn = mod.functions.get('avail_' + n)
        try:
            paths = sym.Sym(mod, fn).run()
        except sym.TooComplex as e:
            r.broke('avail_%s: %s' % (n, e))
            continue
        for p in paths:
            if p.term[0] != 'ret':
                continue
            nob += 1
            counts['cached accessor paths'] = counts.get('cached accessor paths', 0) + 1
            rv = p.term[1]
            ok = False
            e = rv
            if e[0] == 'op' and e[1] == 'not' and e[3][0][0] == 'op' and e[3][0][1] == 'icmp':
                v = e[3][0][3][1]
                if v[0] == 'gval' and 'available_architectures' in v[1] and v[2] == offs.get(n):
                    ok = True
            if not ok:
                out('cache|avail_' + n, 'available_architectures().has(%s) does not read the cached flag of %s (returns %s)' % (t, t, sym.fmt(rv, 5)), None)
    # dispatcher
    order, nw = default_order(flags, out, r)
    nob += nw
    counts['list-order obligations'] = nw
    lists = sublists(a.tier, r.seed)
    chunk = 60
    jobs = [(lists[i:i + chunk], flags, offs, order) for i in range(0, len(lists), chunk)]
    ndisp = 0
    with ProcessPoolExecutor(max_workers=16) as ex:
        for res in ex.map(check_disp, jobs):
            for (key, what, where, np_) in res:
                if key == 'broken':
                    r.broke(what)
                elif key == 'ok':
                    ndisp += 1
                    nob += np_
                    counts['dispatch paths'] = counts.get('dispatch paths', 0) + np_
                else:
                    out(key, what, where)
    counts['dispatch lists'] = ndisp
    if ndisp < len(lists):
        r.broke('%d of %d dispatch wrappers were not analysed' % (len(lists) - ndisp, len(lists)))
    samples.append({'obligation': 'dispatch|avx512f>avx2>sse2', 'rule': 'exactly one functor call per path; f_X reached iff flags of all earlier list members are 0 and (flag of X != 0 or X is last); arguments forwarded in order; result returned'})
    if nob < 2500:
        r.broke('only %d obligations generated (floor 2500)' % nob)
    nbad = len(set(k for (k, w, d) in r.violations)) + len(set(x[1] for x in r.known_hits))
    cov = {'obligations': nob, 'discharged': nob - nbad, 'checker_cmd': 'python3 /verif/check.py C15 --tier %s' % a.tier,
           'trusted_base': ['clang 14 -O2 translation of the headers to LLVM IR (the cpuid/xgetbv inline asm appears as opaque calls with constant leaf/sub-leaf operands)',
                            'engine/sym.py path enumeration; the bit-level must-imply abstraction of checks/c15.py (and = union, or/select/phi = intersection, shifts move bits)',
                            'Required(arch) table: Intel SDM vol.2 CPUID feature bits, vol.1 ch.13 (XCR0 bits 1,2,5-7), AMD APM (FMA4 = CPUID 8000_0001h ECX[16])',
                            'hardware invariants stated in the property: XCR0[2] implies XCR0[1]; XCR0[7:5] all-or-none and only with XCR0[2]'],
           'per_rule': counts, 'samples': samples, 'evaluations': nob, 'distinct_nontrivial': nob - nbad,
           'rule': 'flags: Required(X) subset of Facts(path) U MustImply(flag != 0) on every path of has(X), 23 architectures; XGETBV only under OSXSAVE; dispatcher: path rule over %d arch_lists (default list, every suffix and prefix, every pair, %s triples, random longer and out-of-order lists)' % (len(lists), 'all' if a.tier == 'thorough' else '250 random'),
           'exhaustive': a.tier == 'thorough', 'headers_sha256': build.headers_hash()}
    return r.finish(cov, ['real CPUID/XGETBV hardware behaviour is not analysed; the atoms are symbolic',
                          'only the necessary direction is claimed: reported available => feature bits and OS state; nothing about the converse',
                          'the last architecture of a dispatch list is called without a flag test (the library asserts its availability): documented precondition'])
