"""C12 -- special values, domains and exact symmetries of the elementary functions (DESIGN 3.C12).


(a) floating-point class / interval abstract interpretation (engine/fpclass.py): for a tracked lane whose argument is
    abstracted to a class (all NaNs; -inf; +inf; -0; +0; all negatives; everything above 1; every negative integer; the
    single points 0 and 1 ...) and with arbitrary neighbours, the result class must be the one the statement lists:
    NaN -> NaN, out-of-domain -> NaN, the limits at +-inf / +-0 / poles, tgamma/lgamma at the negative integers, and the
    exact values exp(0)=1, cosh(0)=1, log(1)=+0 (singleton propagation).  Decided for every value of the class and every
    content of the other lanes: whole-batch any()/all() branches are pruned only when the tracked lane alone decides
    them.  The lane abstraction relies on lane-locality of the data flow (C13, decided on the same wrappers).
(b) parity abstract interpretation (engine/parity.py) for the odd / even functions: bit-for-bit f(-x) = -f(x) / f(x)
    (a NaN result carries no sign: where f(x) is the NaN constant, f(-x) is the same constant).
(c) identities between entry points: fabs == abs, rint == nearbyint (identical canonical instruction sequences).
(d) sincos(x) == (sin x, cos x): per loop-free control path (same branch decisions) the lane terms of sincos().first /
    .second and of sin / cos must be identical after constant folding (engine/foldc.py).
An obligation the analysis cannot establish on the unchanged tree is listed as undecided (not claimed); one that was
established when the decided set was frozen and no longer is, is a violation.  Not decided at all: pow's clauses,
sincos == (sin, cos); listed as undecided: sin/cos/tan of NaN and cos(0)=1 (the per-lane Payne-Hanek fallback goes through
memory), atanh/acosh out of domain (relational), oddness of cbrt and erf.
"""
import json
import math
import os
from concurrent.futures import ProcessPoolExecutor

from engine import build, ir, report, fpclass as FC, parity as PA
from engine.fpclass import F
from catalogue import configs as CF
from . import c14

ROOT = os.path.dirname(os.path.dirname(os.path.abspath(__file__)))
CONFIGS = ['sse4_1', 'avx2', 'avx512f']
THOROUGH = ['sse2', 'sse4_1', 'fma3_sse', 'fma4', 'avx', 'fma3_avx', 'avx2', 'fma3_avx2', 'avx512f', 'avx512dq', 'avx512bw', 'avx512vnni_vbmi2']

UNARY_NAN = ['exp', 'exp2', 'exp10', 'expm1', 'log', 'log2', 'log10', 'log1p', 'sin', 'cos', 'tan', 'asin', 'acos', 'atan', 'sinh', 'cosh', 'tanh',
             'asinh', 'acosh', 'atanh', 'cbrt', 'erf', 'erfc', 'tgamma', 'lgamma', 'sqrt', 'ceil', 'floor', 'trunc', 'round', 'nearbyint', 'rint', 'abs', 'fabs']
NANPATH = ['sin', 'cos', 'tan', 'sincoss', 'sincosc', 'erf', 'erfc']          # the functions with whole-batch tiers / scalar per-lane code (the FP-class analysis decides the others)
ODD = ['sin', 'tan', 'asin', 'atan', 'sinh', 'tanh', 'asinh', 'atanh', 'cbrt', 'erf', 'neg', 'trunc', 'nearbyint', 'rint', 'round']
EVEN = ['cos', 'cosh', 'abs', 'fabs']


def nxt(x, up, bits):
    import struct
    fmt, ifmt = ('<f', '<I') if bits == 32 else ('<d', '<Q')
    b = struct.unpack(ifmt, struct.pack(fmt, x))[0]
    if (x > 0) == up:
        b += 1
    else:
        b -= 1
    return struct.unpack(fmt, struct.pack(ifmt, b))[0]


def obligations(bits):
    ft = FC.FT(bits)
    MAX, TINY = ft.max, ft.tiny
    one_up, one_dn = nxt(1.0, True, bits), nxt(1.0, False, bits)
    NAN, PINF, NINF, PZ, NZ = F(['N']), F(['PI']), F(['NI']), F(['PZ']), F(['NZ'])
    NEG = F(['NI'], (-MAX, -TINY))                       # every negative value incl. -inf
    NEGFIN = F([], (-MAX, -TINY))
    BELOW_M1 = F(['NI'], (-MAX, -one_up))
    ABOVE1 = F(['PI'], None, (one_up, MAX))
    BELOWM1 = F(['NI'], (-MAX, -one_up))
    LT1 = F(['NI', 'NZ', 'PZ'], (-MAX, -TINY), (TINY, one_dn))
    only = lambda *cls: ('only', frozenset(cls))
    O = []
    for f in UNARY_NAN:
        O.append((f, 'NaN', NAN, only('N'), 'a NaN argument yields NaN'))
    for f in ('log', 'log2', 'log10'):
        O.append((f, 'negative', NEG, only('N'), 'log of a negative value is NaN'))
        O.append((f, '+0', PZ, only('NI'), 'log(+0) = -inf'))
        O.append((f, '-0', NZ, only('NI'), 'log(-0) = -inf'))
        O.append((f, '+inf', PINF, only('PI'), 'log(+inf) = +inf'))
    O.append(('log1p', 'below -1', BELOW_M1, only('N'), 'log1p below -1 is NaN'))
    O.append(('log1p', '+inf', PINF, only('PI'), 'log1p(+inf) = +inf'))
    O.append(('sqrt', 'negative', F(['NI'], (-MAX, -TINY)), only('N'), 'sqrt of a negative value is NaN'))
    O.append(('sqrt', '+inf', PINF, only('PI'), 'sqrt(+inf) = +inf'))
    for f in ('asin', 'acos', 'atanh'):
        O.append((f, 'above 1', ABOVE1, only('N'), '%s outside [-1,1] is NaN' % f))
        O.append((f, 'below -1', BELOWM1, only('N'), '%s outside [-1,1] is NaN' % f))
    O.append(('acosh', 'below 1', LT1, only('N'), 'acosh below 1 is NaN'))
    O.append(('acosh', '+inf', PINF, only('PI'), 'acosh(+inf) = +inf'))
    for f in ('exp', 'exp2', 'exp10'):
        O.append((f, '-inf', NINF, only('PZ'), '%s(-inf) = +0' % f))
        O.append((f, '+inf', PINF, only('PI'), '%s(+inf) = +inf' % f))
    O.append(('expm1', '+inf', PINF, only('PI'), 'expm1(+inf) = +inf'))
    O.append(('expm1', '-inf', NINF, ('negfin',), 'expm1(-inf) = -1 (a negative finite value)'))
    for f in ('atan', 'tanh', 'erf'):
        O.append((f, '+inf', PINF, ('posfin',), '%s(+inf) is the positive finite limit' % f))
        O.append((f, '-inf', NINF, ('negfin',), '%s(-inf) is the negative finite limit' % f))
    O.append(('erfc', '+inf', PINF, only('PZ'), 'erfc(+inf) = +0'))
    O.append(('tgamma', '+0', PZ, only('PI'), 'tgamma(+0) = +inf'))
    O.append(('tgamma', '-0', NZ, only('NI'), 'tgamma(-0) = -inf'))
    O.append(('tgamma', '+inf', PINF, only('PI'), 'tgamma(+inf) = +inf'))
    for f in ('cbrt', 'sinh', 'asinh'):
        O.append((f, '+inf', PINF, only('PI'), '%s(+inf) = +inf' % f))
        O.append((f, '-inf', NINF, only('NI'), '%s(-inf) = -inf' % f))
    O.append(('cosh', '+inf', PINF, only('PI'), 'cosh(+inf) = +inf'))
    O.append(('cosh', '-inf', NINF, only('PI'), 'cosh(-inf) = +inf'))
    O.append(('lgamma', '+inf', PINF, only('PI'), 'lgamma(+inf) = +inf'))
    ONE = F([], None, (1.0, 1.0))
    for f in ('exp', 'exp2', 'exp10', 'cos', 'cosh'):
        O.append((f, '+0 exact', PZ, ('point', 1.0), '%s(0) = 1 exactly' % f))
        O.append((f, '-0 exact', NZ, ('point', 1.0), '%s(-0) = 1 exactly' % f))
    for f in ('log', 'log2', 'log10'):
        O.append((f, '1 exact', ONE, only('PZ'), '%s(1) = +0 exactly' % f))
    # graceful saturation of the exp family well outside the finite range of the result (statement of C10/C11, decided
    # here because it is a class property): underflow side -> +0 or a tiny positive value, overflow side -> +inf or huge
    sat = {32: {'exp': (-89.0, 89.0), 'exp2': (-130.0, 129.0), 'exp10': (-39.0, 39.0)},
           64: {'exp': (-712.0, 711.0), 'exp2': (-1030.0, 1025.0), 'exp10': (-310.0, 309.0)}}[bits]
    for f, (lo_, hi_) in sorted(sat.items()):
        O.append((f, 'far below the underflow threshold', F([], (-MAX, lo_)), ('small_nonneg',), '%s(x) for x <= %g is +0 or a tiny positive value (never negative, infinite or NaN)' % (f, lo_)))
        O.append((f, 'far above the overflow threshold', F([], None, (hi_, MAX)), ('huge_pos',), '%s(x) for x >= %g is +inf or a huge positive value' % (f, hi_)))
    NEGINT = (F([], (-MAX, -1.0)), 'int')
    FINNZ = F([], (-MAX, -TINY * 4), (TINY * 4, MAX))
    FIN = F(['PZ', 'NZ'], (-MAX, -TINY), (TINY, MAX))
    O.append(('pow', 'finite non-zero base, exponent +0', (FINNZ, {1: PZ}), ('point', 1.0), 'pow(x, +0) = 1 exactly for finite non-zero x'))
    O.append(('pow', 'finite non-zero base, exponent -0', (FINNZ, {1: NZ}), ('point', 1.0), 'pow(x, -0) = 1 exactly for finite non-zero x'))
    O.append(('pow', 'negative base, non-integer exponent', (F([], (-MAX, -TINY)), {1: (F([], (-MAX, -TINY), (TINY, MAX)), 'nonint')}), only('N'), 'pow of a negative base with a finite non-integer exponent is NaN'))
    O.append(('pow', 'NaN base, non-zero exponent', (NAN, {1: F([], (-MAX, -TINY), (TINY, MAX))}), only('N'), 'pow(NaN, y) is NaN for y != 0'))
    # atan2 at a zero first operand (statement of C10/C11: atan2 within 4.5 ulp unless both operands are zero; the sign of
    # a zero y selects the branch of the cut): decided here because it is a class property
    POSFIN = F([], None, (TINY, MAX))
    O.append(('atan2', '-0 over a negative x', (NZ, {1: NEGFIN}), ('negfin',), 'atan2(-0, x < 0) = -pi (a negative finite value)'))
    O.append(('atan2', '+0 over a negative x', (PZ, {1: NEGFIN}), ('posfin',), 'atan2(+0, x < 0) = +pi (a positive finite value)'))
    O.append(('atan2', '-0 over a positive x', (NZ, {1: POSFIN}), only('NZ'), 'atan2(-0, x > 0) = -0'))
    O.append(('atan2', '+0 over a positive x', (PZ, {1: POSFIN}), only('PZ'), 'atan2(+0, x > 0) = +0'))
    O.append(('atan2', 'negative y over +0', (NEGFIN, {1: PZ}), ('negfin',), 'atan2(y < 0, +0) = -pi/2 (a negative finite value)'))
    O.append(('atan2', 'positive y over -0', (POSFIN, {1: NZ}), ('posfin',), 'atan2(y > 0, -0) = +pi/2 (a positive finite value)'))
    O.append(('tgamma', 'negative integer', NEGINT, only('N'), 'tgamma at a negative integer is NaN'))
    O.append(('lgamma', 'negative integer', NEGINT, only('PI'), 'lgamma at a negative integer is +inf'))
    return O


TINYNORM = [1.1754943508222875e-38]      # set per precision by analyse()
HUGE = [3.4028234663852886e38 / 16]


def satisfied(exp, out):
    if out is None or out[0] not in ('f', 'bits'):
        return False, 'result is not a floating-point lane value (%s)' % (out[0] if out else None)
    v = out[1]
    if exp[0] == 'only':
        ok = v.sp <= exp[1] and v.neg is None and v.pos is None and not v.empty()
        return ok, repr(v)
    if exp[0] == 'point':
        iv = v.pos if exp[1] > 0 else v.neg
        return (not v.sp and iv == (exp[1], exp[1]) and (v.neg if exp[1] > 0 else v.pos) is None), repr(v)
    if exp[0] == 'small_nonneg':
        return (v.sp <= frozenset(['PZ']) and v.neg is None and (v.pos is None or v.pos[1] <= 16 * TINYNORM[0]) and not v.empty()), repr(v)
    if exp[0] == 'huge_pos':
        return (v.sp <= frozenset(['PI']) and v.neg is None and (v.pos is None or v.pos[0] >= HUGE[0]) and not v.empty()), repr(v)
    if exp[0] == 'posfin':
        return (not v.sp and v.neg is None and v.pos is not None), repr(v)
    if exp[0] == 'negfin':
        return (not v.sp and v.pos is None and v.neg is not None), repr(v)
    return False, repr(v)


def analyse(cfgname):
    c = CF.BY_NAME[cfgname]
    text, names = c14.math_tu(c.arch)
    ll, err = build.compile_tu(text, c.flags)
    if ll is None:
        return {'cfg': cfgname, 'broken': 'math wrapper TU does not compile: %s' % err[-500:]}
    mod = ir.load_ll(ll)
    out = {'cfg': cfgname, 'res': [], 'parity': [], 'broken_list': []}
    for (tn, bits) in (('f32', 32), ('f64', 64)):
        TINYNORM[0] = 1.1754943508222875e-38 if bits == 32 else 2.2250738585072014e-308
        HUGE[0] = (3.4028234663852886e38 if bits == 32 else 1.7976931348623157e308) / 16
        for (f, inn, inp, exp, what) in obligations(bits):
            fn = mod.functions.get('m_%s_%s' % (f, tn))
            if fn is None:
                out['broken_list'].append('wrapper m_%s_%s missing' % (f, tn))
                continue
            arg_int = isinstance(inp, tuple) and inp[1] == 'int'
            others, flags = {}, {}
            if isinstance(inp, tuple) and isinstance(inp[1], dict):
                for i_, v_ in inp[1].items():
                    if isinstance(v_, tuple):
                        others[i_], flags[i_] = v_[0], v_[1]
                    else:
                        others[i_] = v_
                inp = inp[0]
            elif isinstance(inp, tuple):
                inp = inp[0]
            try:
                argv = [inp] + [others.get(i_) for i_ in range(1, len(fn['args']))]
                a = FC.FPClass(mod, fn, argv, summaries(mod, inp), arg_int=arg_int, arg_flags=flags)
                r = a.run()
                ok, got = satisfied(exp, r)
            except (ValueError, KeyError, IndexError, ZeroDivisionError, OverflowError) as e:
                ok, got = False, 'analysis error %r' % (e,)
            out['res'].append(('class|%s|%s|%s' % (f, tn, inn), ok, got, what))
        for (f, want) in [(x, 'odd') for x in ODD] + [(x, 'even') for x in EVEN]:
            fn = mod.functions.get('m_%s_%s' % (f, tn))
            if fn is None:
                continue
            try:
                got = PA.Parity(mod, fn).run()
            except (ValueError, KeyError, IndexError) as e:
                got = 'error %r' % (e,)
            ok = (got == ('O' if want == 'odd' else 'E'))
            out['parity'].append(('parity|%s|%s' % (f, tn), ok, got, '%s is %s: f(-x) = %sf(x) bit for bit' % (f, want, '-' if want == 'odd' else '')))
        # (d) sincos(x) == (sin x, cos x) bit for bit: path by path (the same whole-batch / fdlibm branch decisions), the
        # lane terms of the two entry points must be identical after constant folding
        try:
            from . import c10trig as TRG
            from engine import terms as TT, foldc
            TT.reset()
            fo = foldc.Folder()

            def paths_of(name):
                fn_ = mod.functions.get(name)
                if fn_ is None:
                    return None
                done, dropped = TRG.explore(mod, fn_, 1, limit=200)
                d = {}
                for (term, assumed, prefix) in done:
                    d[frozenset((TT._key(TT.canon(c_)), kind) for (kind, c_) in assumed)] = (fo.fold(term), ''.join('T' if x else 'F' for x in prefix))
                return d
            for (one, both) in (('sin', 'sincoss'), ('cos', 'sincosc')):
                pa, pb = paths_of('m_%s_%s' % (one, tn)), paths_of('m_%s_%s' % (both, tn))
                if pa is None or pb is None:
                    out['broken_list'].append('wrapper m_%s_%s / m_%s_%s missing' % (one, tn, both, tn))
                    continue
                for k, (ta, pre) in sorted(pa.items(), key=lambda kv: kv[1][1]):
                    if k not in pb:
                        out['parity'].append(('sincos|%s|%s|path %s' % (one, tn, pre), False, 'no control path of sincos with the same branch decisions', 'sincos(x) equals (sin x, cos x) bit for bit'))
                        continue
                    same = TT._key(ta) == TT._key(pb[k][0])
                    out['parity'].append(('sincos|%s|%s|path %s' % (one, tn, pre), same, 'lane terms %s' % ('identical' if same else 'differ (equivalent quadrant arithmetic is not recognised)'),
                                          'sincos(x).%s equals %s(x) bit for bit on this control path' % ('first' if one == 'sin' else 'second', one)))
        except Exception as e:
            out['broken_list'].append('sincos identity: %r' % (e,))
        # (e) NaN propagation along control paths (checks/c12nan.py): every loop-free path a batch with a NaN in the tracked
        # lane can take completes, and gives that lane a NaN -- for any NaN payload
        from . import c12nan
        for f in NANPATH:
            try:
                nr = c12nan.analyse_nan(mod, 'm_%s_%s' % (f, tn))
            except Exception as e:
                nr = {'broken': repr(e)}
            if 'broken' in nr:
                out['parity'].append(('nanpath|%s|%s' % (f, tn), False, 'analysis error %s' % nr['broken'][:120], '%s(NaN) is NaN on every control path, for every NaN payload' % f))
                continue
            ok = nr['paths'] >= 1 and not nr['bad'] and not nr['dropped']
            got = '%d paths, %d give NaN; %s' % (nr['paths'], nr['nan_paths'], ('not NaN on path %s' % (nr['bad'][0][0] or '(straight)')) if nr['bad'] else (('path not followed to its end: %s%s' % (nr['dropped'][0][0][:80], ('; the branch on %s is open for some NaN payload' % nr['forks'][0]) if nr.get('forks') else '')) if nr['dropped'] else 'every path completes'))
            out['parity'].append(('nanpath|%s|%s' % (f, tn), ok, got, '%s(NaN) is NaN on every control path a batch holding a NaN can take, for every NaN payload' % f))
        for (f, g) in IDENT:
            ff, fg = mod.functions.get('m_%s_%s' % (f, tn)), mod.functions.get('m_%s_%s' % (g, tn))
            if ff is None or fg is None:
                out['broken_list'].append('wrapper m_%s_%s / m_%s_%s missing' % (f, tn, g, tn))
                continue
            same = canon(ff) == canon(fg)
            out['parity'].append(('identical|%s|%s|%s' % (f, g, tn), same, 'bodies %s' % ('identical' if same else 'differ'),
                                  '%s equals %s: the two entry points compile to the same instruction sequence' % (f, g)))
    return out


_SUMMARY_CACHE = {}


def canon(fn):
    """canonical text of a function body: values renamed in order of definition, debug locations dropped"""
    names = {}
    out = []

    def ref(o):
        k = o['k']
        if k == 'v':
            return '%%%d' % names.setdefault(o['id'], len(names))
        if k == 'a':
            return 'arg%d' % o['i']
        if k == 'b':
            return 'bb%s' % o.get('id')
        return json.dumps(dict((kk, vv) for kk, vv in o.items() if kk != 'k'), sort_keys=True)
    for b in fn['blocks']:
        out.append('bb%s:' % b['id'])
        for i in b['insts']:
            names.setdefault(i['id'], len(names))
            out.append(' '.join(['%%%d' % names[i['id']], i['op'], i['ty'], i.get('callee') or '', i.get('pred') or '', str(i.get('mask') or ''),
                                 ','.join(ref(o) for o in i.get('ops', [])), ','.join('%s:%s' % (ref(x['v']), x['bb']) for x in i.get('incoming', []))]))
    return '\n'.join(out)


IDENT = [('fabs', 'abs'), ('rint', 'nearbyint')]


def summaries(mod, inp):
    """non-inlined callees (lgamma's large_negative): analysed with an unconstrained lane value"""
    S = {}
    for n, fn in mod.functions.items():
        if fn.get('decl') or not fn['blocks'] or n.startswith(('m_', 'c_')):
            continue

        def mk(fn_):
            def f(caller, args, ty):
                et = ty.elem if ty.kind == 'vec' else ty
                if et.kind != 'fp':
                    return ('top',)
                key = (id(mod), fn_['name'])
                if key not in _SUMMARY_CACHE:
                    sub = FC.FPClass(mod, fn_, [None] * len(fn_['args']), {})
                    sub.ptr_args = {}
                    r = sub.run()
                    _SUMMARY_CACHE[key] = r if r is not None else ('f', FC.top_f(FC.FT(et.bits)))
                return _SUMMARY_CACHE[key]
            return f
        S[n] = mk(fn)
    return S


def load_floor():
    p = os.path.join(ROOT, 'catalogue', 'decided_c12.json')
    return json.load(open(p)) if os.path.exists(p) else {}


def replay(a):
    d = json.load(open(a.replay))
    key = d.get('obligation') or d.get('key')
    cfg = key.rsplit('|', 1)[1]
    m = analyse(cfg)
    for (k, ok, got, what) in m.get('res', []) + m.get('parity', []):
        if k + '|' + cfg == key:
            print('%s\n  %s\n  abstract result: %s\n  %s' % (key, what, got, 'ESTABLISHED' if ok else 'NOT ESTABLISHED'))
            if not ok:
                print('VIOLATION property=C12 replay=%s' % a.replay)
            return 0 if ok else 1
    print('obligation %s not generated' % key)
    return 2


def run(a):
    if a.replay:
        return replay(a)
    r = report.Run('C12', a.tier, 'other')
    floor = load_floor()
    decided = {}
    undecided = []
    samples = []
    nob = 0
    cfgs = THOROUGH if a.tier == 'thorough' else CONFIGS
    with ProcessPoolExecutor(max_workers=min(12, len(cfgs))) as ex:
        for m in ex.map(analyse, cfgs):
            if 'broken' in m:
                r.broke(m['broken'])
                continue
            for b in m['broken_list']:
                r.broke('%s: %s' % (m['cfg'], b))
            for (key, ok, got, what) in m['res'] + m['parity']:
                k = key + '|' + m['cfg']
                if ok:
                    decided[k] = 1
                    nob += 1
                    if len(samples) < 10 and m['cfg'] == 'sse4_1' and ('|log|' in k or '|tgamma|' in k or 'parity|sin' in k or '|erfc|' in k) and k.count('f32'):
                        samples.append({'obligation': k, 'states': what, 'abstract_result': str(got)})
                elif k in floor:
                    nob += 1
                    r.violation(k, '%s -- no longer established on %s: abstract result %s' % (what, m['cfg'], got), {'obligation': k, 'what': what, 'got': str(got)})
                else:
                    undecided.append({'obligation': k, 'why': 'abstract result %s' % (got,), 'states': what})
    if a.freeze:
        keep = dict((k, 1) for k in floor if k.rsplit('|', 1)[1] not in cfgs)      # the other tier's configurations stay frozen
        keep.update(decided)
        decided_out = keep
        json.dump(decided_out, open(os.path.join(ROOT, 'catalogue', 'decided_c12.json'), 'w'), indent=0, sort_keys=True)
        print('froze %d decided obligations for C12' % len(decided))
    elif not floor:
        r.broke('no frozen decided set (catalogue/decided_c12.json)')
    nfloor = sum(1 for k in floor if k.rsplit('|', 1)[1] in cfgs)
    if floor and len(decided) < 0.9 * nfloor and not r.violations:
        r.broke('only %d of the %d frozen obligations were generated' % (len(decided), nfloor))
    nbad = len(set(k for (k, w, d) in r.violations)) + len(set(x[1] for x in r.known_hits))
    cov = {'explanation': 'abstract interpretation in a floating-point class/interval domain (special values, domain errors, limits) and in a parity domain (odd/even symmetry) over the optimised IR of every elementary function x {float,double} x %s; each obligation holds for every value of the argument class and every content of the other lanes; obligations the domains cannot establish are listed as undecided and not claimed' % cfgs,
           'obligations': nob, 'discharged': nob - nbad, 'undecided': len(undecided), 'undecided_list': undecided[:200], 'samples': samples,
           'evaluations': nob, 'distinct_nontrivial': nob - nbad, 'checker_cmd': 'python3 /verif/check.py C12 --tier %s' % a.tier,
           'trusted_base': ['clang 14 -O2 translation of the headers', 'engine/fpclass.py transfer functions (IEEE-754 at class level, outward-widened intervals)', 'engine/parity.py sign algebra'],
           'rule': 'result class subset of the class the statement lists / result parity equals the function parity', 'headers_sha256': build.headers_hash()}
    return r.finish(cov, ['pow(x,0)=1 is listed undecided; undecided obligations are listed, not claimed',
                          'the lane abstraction (a vector value stands for the elements derived from the tracked argument lane) relies on lane-locality of the data flow, which C13 decides on the same wrappers and configurations',
                          'parity: NaN results are exempt from the sign rule (the NaN constant is returned for x and for -x)',
                          'the sum of two odd terms is treated as odd: exact in round-to-nearest unless the two terms cancel exactly (both results are then +0)',
                          'analysed on sse4_1, avx2, avx512f; the primitives of the other architectures are decided by C02/C03/C08'])
