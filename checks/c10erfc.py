"""C10 / C11 kernel-accuracy clause for the exp-based tiers of erf and erfc.

On the tiers where the code computes  C + exp(-x^2) * R(x)  (erfc: C = 0, erf: C = 1, R a rational function of |x|) the
lane term is decomposed, without knowing where the inlined exp kernel starts or ends, through the exp wrapper of the same
translation unit:  with E(a, K, S) the rounding-erased real function of exp (atoms: argument, K = nearbyint(c a), S = 2^K;
its accuracy is the obligation kernel|exp|..) and V(x, K, S) that of the tier,

    W = V - V[S := 0]          (the exp-free part C must be the constant the function's identity needs)
    W / E(-x^2, K, S)  ==  W[K := 0, S := 1] / E(-x^2, 0, 1)  =: R(x)        -- an exact polynomial identity, checked

so that V = C + E(-x^2, K, S) R(x) for every K, S.  R is then compared with g(x) = exp(x^2) erfc(x) piece by piece
(Taylor model of g from Laplace's continued fraction and g' = 2 x g - 2/sqrt(pi); rigorous remainder by complete
monotonicity) on every piece of the positive half line between the switch points of the function, up to the argument where
the result leaves the normal range.  Which control path / select case a piece belongs to is decided by evaluating the
path's whole-batch conditions (through the lane's own bit) and the case's conditions at three points of the piece by exact
constant propagation; every path that allows the piece must meet the bound (mixed batches take the slow paths).
"""
from fractions import Fraction as Fr

from engine import terms as T, realfn as RFN, qi as Q, pointeval as PE
from engine.realfn import NotReal
from . import c10trig as TR
from . import c10cont


def _exp_upper(a2):
    """upper bound of exp(-a2), a2 >= 0: reciprocal of a partial sum of exp(a2)"""
    s, t = Fr(0), Fr(1)
    for k in range(1, 400):
        s += t
        t = t * a2 / k
        if t < Fr(1, 10 ** 40) and k > a2:
            break
    return 1 / s


def _pdivmod(a, b):
    a = list(a)
    q = [Fr(0)] * max(1, len(a) - len(b) + 1)
    while len(a) >= len(b) and any(a):
        k = len(a) - len(b)
        c = a[-1] / b[-1]
        q[k] = c
        for i, bc in enumerate(b):
            a[i + k] -= c * bc
        a.pop()
    while a and a[-1] == 0:
        a.pop()
    return q, a


def _pgcd(a, b):
    """monic gcd of two univariate polynomials with Fraction coefficients (Euclid)"""
    a, b = [Fr(x) for x in a], [Fr(x) for x in b]
    while a and a[-1] == 0:
        a.pop()
    while b and b[-1] == 0:
        b.pop()
    while b:
        _, r = _pdivmod(a, b)
        a, b = b, r
    return [x / a[-1] for x in a]


def analyse_erfc(mod, fname, func, bits, thr, xmax):
    from .c10 import Mismatch, lane_term, strip_special, classify_atoms, pow2_atom_ok, is_round_nearest, walk_terms, ulps
    from engine.lanes import NotStraightLine
    T.reset()
    track = 1
    tn = 'f32' if bits == 32 else 'f64'
    f_ = mod.functions.get(fname)
    if f_ is None:
        raise Mismatch('wrapper %s missing' % fname)
    ex = RFN.Extract(max_cases=512)
    # ---- the exp template
    eterm, w = lane_term(mod, 'm_exp_%s' % tn)
    ecs = strip_special(ex.cases(eterm), ex)
    if len(ecs) != 1:
        raise Mismatch('exp wrapper: %d arithmetic cases' % len(ecs))
    E = ecs[0][1]
    kinds = classify_atoms(ex, E.atoms())
    if sorted(kinds) != ['K', 'S', 'X'] or any(len(v) != 1 for v in kinds.values()):
        raise Mismatch('exp wrapper: atoms %s' % dict((k, len(v)) for k, v in kinds.items()))
    EX, EK, ES = kinds['X'][0], kinds['K'][0], kinds['S'][0]
    if not pow2_atom_ok(ex.atoms[ES], ex.atoms[EK], w):
        raise Mismatch('exp wrapper: the scaling atom is not 2^K')
    kop = ex.cases(T.single_term(ex.atoms[EK]).ops[0])
    if len(kop) != 1:
        raise Mismatch('exp wrapper: K operand has cases')
    kop = kop[0][1]
    # ---- the paths of the function
    try:
        paths = [(lane_term(mod, fname)[0], [], [])]
    except NotStraightLine:
        done, dropped = TR.explore(mod, f_, track, limit=60)
        paths = [(d[0], d[1], d[2]) for d in done]
    if not paths:
        raise Mismatch('no loop-free control path')
    argname = None
    points = set()
    pcases = []
    for (term, assumed, prefix) in paths:
        cs = ex.cases(term)
        pcases.append(cs)
        for bv in [term] + [c for (k, c) in assumed]:
            for t in walk_terms(bv):
                if t.kind == 'arg' and t.attrs == track:
                    argname = t.name
                if t.name.startswith('f') and t.name[1:] in ('olt', 'ole', 'ogt', 'oge', 'ult', 'ule', 'ugt', 'uge') and t.width == 1:
                    points |= set(c10cont.affine_cmp(ex, t, None))
    condmap = dict(getattr(ex, 'conds', {}))
    if argname is None:
        raise Mismatch('no argument in the lane term')
    xlo = Fr(1, 2)
    cuts = sorted(set([xlo, Fr(xmax)] + [x for x in points if xlo < x < xmax]))
    pieces = []
    for a, b in zip(cuts, cuts[1:]):
        n = max(1, int((b - a) / Fr(1, 4)) + 1)
        for i in range(n):
            pieces.append((a + (b - a) * i / n, a + (b - a) * (i + 1) / n))
    AXs = [i for i in range(len(ex.atoms)) if TR.is_ax(ex.atoms[i], track) and not (T.single_term(ex.atoms[i]) is not None and T.single_term(ex.atoms[i]).kind == 'arg')]
    p = 24 if bits == 32 else 53
    decomp = {}

    def decompose(V):
        key = (frozenset(V.num.items()), frozenset(V.den.items()))
        if key in decomp:
            return decomp[key]
        r = _decompose(V)
        decomp[key] = r
        return r

    def _decompose(V):
        ats = V.atoms()
        AX = None
        K2 = S2 = None
        for a in sorted(ats):
            bv = ex.atoms[a]
            st = T.single_term(bv)
            if st is not None and st.kind == 'arg' and st.attrs == track:
                continue                                        # the signed argument: read as |x| (positive half line)
            if TR.is_ax(bv, track):
                AX = a
            elif st is not None and is_round_nearest(st):
                if K2 is not None:
                    return ('mismatch', 'two rounding atoms')
                K2 = a
            elif T.is_const(bv):
                return ('mismatch', 'a non-finite constant takes part in arithmetic')
            else:
                if S2 is not None:
                    return ('mismatch', 'unexpected atoms: %s AND %s' % (T.fmt(bv, 3)[:80], T.fmt(ex.atoms[S2], 3)[:80]))
                S2 = a
        if S2 is None and K2 is None:
            return ('rational', None)
        if S2 is None or K2 is None:
            return ('mismatch', 'rounding atom without scaling atom (or the reverse)')
        if AX is None:
            AX = AXs[0] if AXs else None
        if AX is None:
            return ('mismatch', 'no |x| atom')
        for a in sorted(ats):
            st = T.single_term(ex.atoms[a])
            if st is not None and st.kind == 'arg' and st.attrs == track:
                V = V.subst(a, RFN.p_atom(AX))
        if not pow2_atom_ok(ex.atoms[S2], ex.atoms[K2], w):
            return ('mismatch', 'the scaling atom is not 2^K')
        mx2 = {((AX, 2),): Fr(-1)}
        k2op = ex.cases(T.single_term(ex.atoms[K2]).ops[0])
        if len(k2op) != 1:
            return ('mismatch', 'K operand has cases')
        k2rf = k2op[0][1]
        for a in sorted(k2rf.atoms()):
            st = T.single_term(ex.atoms[a])
            if st is not None and st.kind == 'arg' and st.attrs == track:
                k2rf = k2rf.subst(a, RFN.p_atom(AX))
        want = kop.subst(EX, mx2)
        if RFN.p_mul(k2rf.num, want.den) != RFN.p_mul(want.num, k2rf.den):
            return ('mismatch', 'K is not nearbyint(c * (-x^2)) with the c of exp')
        C = V.subst(S2, {})
        if not C.num:
            Cv = Fr(0)
        else:
            m0 = sorted(C.den)[0]
            if m0 not in C.num:
                return ('mismatch', 'the exp-free part of the tier is not a constant')
            Cv = C.num[m0] / C.den[m0]
            if RFN.p_add(C.num, C.den, -Cv):
                return ('mismatch', 'the exp-free part of the tier is not a constant')
        W = V - RFN.RF(RFN.p_const(Cv))
        Es = E.subst(EX, mx2).subst(EK, RFN.p_atom(K2)).subst(ES, RFN.p_atom(S2))
        W0 = W.subst(K2, {}).subst(S2, RFN.p_const(1))
        E0 = Es.subst(K2, {}).subst(S2, RFN.p_const(1))
        lhs = RFN.p_mul(RFN.p_mul(W.num, E0.num), RFN.p_mul(Es.den, W0.den))
        rhs = RFN.p_mul(RFN.p_mul(W0.num, Es.num), RFN.p_mul(W.den, E0.den))
        if lhs != rhs:
            return ('mismatch', 'the tier is not (exp kernel at -x^2) * R(x): the quotient depends on K / S')
        n_ = RFN.p_univariate(RFN.p_mul(W0.num, E0.den), AX)
        d_ = RFN.p_univariate(RFN.p_mul(W0.den, E0.num), AX)
        g_ = _pgcd(n_, d_)                       # the exp kernel at K = 0 cancels exactly
        if len(g_) > 1:
            n_, rn = _pdivmod(n_, g_)
            d_, rd = _pdivmod(d_, g_)
            if rn or rd:
                return ('mismatch', 'inexact cancellation')
        N, D = Q.Poly(n_), Q.Poly(d_)
        return ('exp', (Cv, N, D))

    out = {'pieces': [], 'paths': len(paths), 'n_pieces': len(pieces), 'skipped': []}
    for (a, b) in pieces:
        m, h = (a + b) / 2, (b - a) / 2
        evs = [PE.PointEval({argname: x_}) for x_ in (a + h / 32, m, b - h / 32)]
        seen = set()
        for (term, assumed, prefix), cs in zip(paths, pcases):
            allow = [c10cont.path_allows(assumed, ev, track) for ev in evs]
            if any(x is None for x in allow):
                out['skipped'].append({'piece': (float(a), float(b)), 'path': ''.join('TF'[not q] for q in prefix), 'why': 'a whole-batch condition is not understood'})
                continue
            if not all(allow):
                continue
            chosen = []
            for (conds, V) in cs:
                ok3 = []
                for ev in evs:
                    try:
                        ok3.append(all(bool(ev.bits(condmap[ck]) & 1) == taken for (ck, taken) in conds))
                    except (PE.Unevaluable, KeyError, ValueError, ZeroDivisionError):
                        ok3.append(None)
                if any(x is None for x in ok3) or (any(ok3) and not all(ok3)):
                    chosen.append((V, 'partly'))
                elif all(ok3):
                    chosen.append((V, 'all'))
            for (V, how) in chosen:
                kind, dd = decompose(V)
                key = id(dd) if dd is not None else (kind,)
                if (key, kind) in seen:
                    continue
                seen.add((key, kind))
                rec = {'piece': (float(a), float(b)), 'path': ''.join('TF'[not q] for q in prefix)}
                if kind == 'rational':
                    continue
                if kind == 'mismatch':
                    rec.update(verdict='mismatch', why=dd)
                    out['pieces'].append(rec)
                    continue
                (Cv, N, D) = dd
                sigma = {('erfc', Fr(0)): 1, ('erf', Fr(1)): -1, ('erfc', Fr(2)): -1}.get((func, Cv))
                if sigma is None:
                    rec.update(verdict='bad', ulp=float('inf'), why='the tier is %s + exp(-x^2) R(x): not a form of %s' % (Cv, func))
                    out['pieces'].append(rec)
                    continue
                Tg, rem = Q.erfcx_taylor(m, h, 14)
                Nc = Q.Poly([Q.QI(lo_, hi_, True) for (lo_, hi_) in Q.taylor_shift(N, m)])
                Dc = Q.Poly([Q.QI(lo_, hi_, True) for (lo_, hi_) in Q.taylor_shift(D, m)])
                diff = Nc - Tg * Dc * sigma
                try:
                    err = Q.sup_ratio(diff, Dc, -h, h, 2, rem)
                except ZeroDivisionError:
                    rec.update(verdict='mismatch', why='the denominator of R may vanish on the piece')
                    out['pieces'].append(rec)
                    continue
                if func == 'erfc' and Cv == 0:
                    rel = err / Q.erfcx_point(b).lof()
                else:
                    e_up = _exp_upper(a * a)
                    res_lo = 1 - e_up * Q.erfcx_point(a).hif()
                    if res_lo <= 0:
                        rec.update(verdict='mismatch', why='result may vanish')
                        out['pieces'].append(rec)
                        continue
                    rel = e_up * err / res_lo
                u = ulps(rel, bits)
                rec.update(verdict='ok' if u <= thr else 'bad', ulp=float(u), constant=float(Cv), degree=(N.deg(), D.deg()), case=how)
                out['pieces'].append(rec)
    return out
