"""C14 -- every operation terminates within a constant number of iterations (DESIGN 3.C14).

The program analysed: one wrapper per public math function x {float, double} x configuration, plus every non-inlined
function they call, plus one wrapper per catalogued lane operation (C01-C09).  For every function:
  (1) the call graph of defined functions must be acyclic (no recursion);
  (2) every natural loop of every CFG is classified and bounded:
        counted   header phi i = const, i' = i + const, exit test on i/i' against constants: the trip count is obtained by
                  evaluating the exit test on the (data-independent) induction sequence
        halving   header phi n, n' = n / 2^k (sdiv/udiv/lshr/ashr), exit test a function of n' and constants that holds for
                  n' = 0: bounded by the bit width
        mask      while (any(mask)) loops over per-lane state: bounded by per-lane abstract unrolling (engine/laneai.py):
                  the loop is bounded by k iff after k abstract iterations no lane can have the continuation mask true,
                  for every argument value incl. +-inf, NaN, huge and tiny, whatever the other lanes hold
        trusted   loops of the fdlibm port __kernel_rem_pio2/__ieee754_rem_pio2 (the single suppression of this check,
                  recognised by the debug-info inlining chain, reason recorded in the evidence)
      anything else, an irreducible CFG, or a mask loop without a constant bound is a violation naming the loop's source line.
Nothing is executed.
"""
import collections
import os
from concurrent.futures import ProcessPoolExecutor

from engine import build, ir, report, cfg as CFG, laneai
from engine.ir import parse_type
from catalogue import configs as CF

UNARY = ['exp', 'exp2', 'exp10', 'expm1', 'log', 'log2', 'log10', 'log1p', 'sin', 'cos', 'tan', 'asin', 'acos', 'atan', 'sinh', 'cosh', 'tanh',
         'asinh', 'acosh', 'atanh', 'cbrt', 'erf', 'erfc', 'tgamma', 'lgamma', 'sqrt', 'rsqrt', 'reciprocal', 'ceil', 'floor', 'trunc', 'round',
         'nearbyint', 'rint', 'abs', 'fabs', 'sign', 'signnz', 'bitofsign', 'neg']
BINARY = ['atan2', 'hypot', 'pow', 'fmod', 'remainder', 'fdim', 'fmin', 'fmax', 'nextafter', 'copysign', 'min', 'max', 'div', 'mul', 'add', 'sub']
# sse2 is not analysed here: without SSE4.1 select() is a bit blend (and/andnot/or on integer vectors), which the lane
# interpreter does not model; the loops are the same generic source lines, and sse2's select/any are decided by C03
CONFIGS = ['sse4_1', 'avx2', 'avx512f']
TRUSTED_FUNCS = ('rem_pio2',)


def math_tu(arch):
    L = ['#include <xsimd/xsimd.hpp>', '#include <complex>', 'typedef %s A;' % arch,
         'template<class T> using B = xsimd::batch<T, A>; template<class T> using R = typename B<T>::register_type;', 'extern "C" {']
    names = {}
    for t, tn in (('float', 'f32'), ('double', 'f64')):
        it = 'int32_t' if t == 'float' else 'int64_t'
        for f in UNARY:
            n = 'm_%s_%s' % (f, tn)
            L.append('R<%s> %s(R<%s> a) { return xsimd::%s(B<%s>(a)); }' % (t, n, t, f, t))
            names[n] = (f, tn)
        for f in BINARY:
            n = 'm_%s_%s' % (f, tn)
            L.append('R<%s> %s(R<%s> a, R<%s> b) { return xsimd::%s(B<%s>(a), B<%s>(b)); }' % (t, n, t, t, f, t, t))
            names[n] = (f, tn)
        for (n, body) in (
                ('m_ipow_%s' % tn, 'R<%s> m_ipow_%s(R<%s> a, int n) { return xsimd::pow(B<%s>(a), n); }' % (t, tn, t, t)),
                ('m_ldexp_%s' % tn, 'R<%s> m_ldexp_%s(R<%s> a, R<%s> e) { return xsimd::ldexp(B<%s>(a), B<%s>(e)); }' % (t, tn, t, it, t, it)),
                ('m_frexp_%s' % tn, 'R<%s> m_frexp_%s(R<%s> a) { B<%s> e; return xsimd::frexp(B<%s>(a), e) + xsimd::to_float(e); }' % (t, tn, t, it, t)),
                ('m_sincos_%s' % tn, 'R<%s> m_sincos_%s(R<%s> a) { auto p = xsimd::sincos(B<%s>(a)); return p.first + p.second; }' % (t, tn, t, t)),
                ('m_sincoss_%s' % tn, 'R<%s> m_sincoss_%s(R<%s> a) { return xsimd::sincos(B<%s>(a)).first; }' % (t, tn, t, t)),
                ('m_sincosc_%s' % tn, 'R<%s> m_sincosc_%s(R<%s> a) { return xsimd::sincos(B<%s>(a)).second; }' % (t, tn, t, t)),
                ('m_fma_%s' % tn, 'R<%s> m_fma_%s(R<%s> a, R<%s> b, R<%s> c) { return xsimd::fma(B<%s>(a), B<%s>(b), B<%s>(c)); }' % (t, tn, t, t, t, t, t, t)),
                ('m_polar_%s' % tn, 'R<%s> m_polar_%s(R<%s> a, R<%s> b) { auto z = xsimd::polar(B<%s>(a), B<%s>(b)); return z.real() + z.imag(); }' % (t, tn, t, t, t, t)),
        ):
            L.append(body)
            names[n] = (n[2:].rsplit('_', 1)[0], tn)
        # complex functions (they are built from the real kernels; included so that their own control flow is inventoried)
        for f in ('exp', 'log', 'sqrt', 'sin', 'cos', 'tan', 'sinh', 'cosh', 'tanh', 'asin', 'acos', 'atan', 'asinh', 'acosh', 'atanh', 'log2', 'log10', 'expm1', 'log1p', 'abs', 'arg', 'norm', 'proj'):
            n = 'c_%s_%s' % (f, tn)
            if f in ('abs', 'arg', 'norm'):
                L.append('R<%s> %s(R<%s> a, R<%s> b) { return xsimd::%s(xsimd::batch<std::complex<%s>, A>(B<%s>(a), B<%s>(b))); }' % (t, n, t, t, f, t, t, t))
            else:
                L.append('R<%s> %s(R<%s> a, R<%s> b) { auto z = xsimd::%s(xsimd::batch<std::complex<%s>, A>(B<%s>(a), B<%s>(b))); return z.real() + z.imag(); }' % (t, n, t, t, f, t, t, t))
            names[n] = ('complex ' + f, tn)
        n = 'c_pow_%s' % tn
        L.append('R<%s> %s(R<%s> a, R<%s> b, R<%s> c) { auto z = xsimd::pow(xsimd::batch<std::complex<%s>, A>(B<%s>(a), B<%s>(b)), B<%s>(c)); return z.real() + z.imag(); }' % (t, n, t, t, t, t, t, t, t))
        names[n] = ('complex pow', tn)
    L.append('}')
    return '\n'.join(L) + '\n', names


def src_of(inst):
    for (f, l, fnm) in inst.get('dbg', []):
        i = f.find('include/xsimd/')
        if i >= 0:
            return '%s:%d' % (f[i + len('include/xsimd/'):], l)
    d = inst.get('dbg', [])
    return '%s:%d' % (d[0][0].rsplit('/', 1)[-1], d[0][1]) if d else '?'


def in_trusted(inst):
    return any(any(t in (fnm or '') for t in TRUSTED_FUNCS) or 'xsimd_rem_pio2.hpp' in f for (f, l, fnm) in inst.get('dbg', []))


def const_int(o):
    if o['k'] == 'c' and 'int' in o:
        ty = parse_type(o['ty'])
        return int(o['int']), ty.bits
    return None


def eval_int(fn, o, env, depth=0):
    """concrete evaluation of an integer expression over `env` (value id -> int); None if it depends on anything else"""
    if o['k'] == 'c':
        c = const_int(o)
        return c[0] if c else None
    if o['k'] != 'v':
        return None
    if o['id'] in env:
        return env[o['id']]
    if depth > 8:
        return None
    inst = fn['insts'][o['id']]
    ty = parse_type(inst['ty'])
    bits = ty.bits
    op = inst['op']
    ops = inst.get('ops', [])
    if op in ('add', 'sub', 'mul', 'and', 'or', 'xor', 'shl', 'lshr', 'ashr', 'sdiv', 'udiv'):
        a, b = eval_int(fn, ops[0], env, depth + 1), eval_int(fn, ops[1], env, depth + 1)
        if a is None or b is None:
            return None
        m = (1 << bits) - 1
        sa = a - (1 << bits) if a >> (bits - 1) else a
        sb = b - (1 << bits) if b >> (bits - 1) else b
        try:
            r = {'add': a + b, 'sub': a - b, 'mul': a * b, 'and': a & b, 'or': a | b, 'xor': a ^ b, 'shl': a << b if b < bits else 0,
                 'lshr': a >> b if b < bits else 0, 'ashr': sa >> min(b, bits - 1), 'udiv': a // b if b else None,
                 'sdiv': (abs(sa) // abs(sb)) * (1 if (sa < 0) == (sb < 0) else -1) if sb else None}[op]
        except (ZeroDivisionError, TypeError):
            return None
        return None if r is None else r & m
    if op in ('zext', 'trunc'):
        a = eval_int(fn, ops[0], env, depth + 1)
        return None if a is None else a & ((1 << bits) - 1)
    if op == 'sext':
        a = eval_int(fn, ops[0], env, depth + 1)
        sb_ = parse_type(fn['insts'][ops[0]['id']]['ty']).bits if ops[0]['k'] == 'v' else bits
        if a is None:
            return None
        if a >> (sb_ - 1):
            a -= 1 << sb_
        return a & ((1 << bits) - 1)
    if op == 'icmp':
        a, b = eval_int(fn, ops[0], env, depth + 1), eval_int(fn, ops[1], env, depth + 1)
        if a is None or b is None:
            return None
        w = parse_type(fn['insts'][ops[0]['id']]['ty']).bits if ops[0]['k'] == 'v' else parse_type(ops[0]['ty']).bits
        p = inst['pred']
        if p[0] == 's':
            a = a - (1 << w) if a >> (w - 1) else a
            b = b - (1 << w) if b >> (w - 1) else b
        return int({'eq': a == b, 'ne': a != b, 'ugt': a > b, 'uge': a >= b, 'ult': a < b, 'ule': a <= b, 'sgt': a > b, 'sge': a >= b, 'slt': a < b, 'sle': a <= b}[p])
    return None


def classify_loop(fn, lp, blocks, succ):
    """returns (kind, bound or None, text)"""
    hdr = blocks[lp.header]
    exits = []
    for (frm, to) in lp.exits:
        t = blocks[frm]['insts'][-1]
        exits.append((frm, to, t))
    phis = [i for i in hdr['insts'] if i['op'] == 'phi']
    # induction candidates
    for phi in phis:
        ty = parse_type(phi['ty'])
        if ty.kind != 'int':
            continue
        start = None
        nxt = None
        for inc in phi['incoming']:
            if inc['bb'] in lp.blocks:
                nxt = inc['v']
            else:
                c = const_int(inc['v']) if inc['v']['k'] == 'c' else None
                start = c[0] if c else 'var'
        if nxt is None or nxt['k'] != 'v':
            continue
        step = fn['insts'][nxt['id']]
        sops = step.get('ops', [])
        # ---- counted
        if step['op'] in ('add', 'sub') and start not in (None, 'var'):
            other = [o for o in sops if not (o['k'] == 'v' and o['id'] == phi['id'])]
            if len(other) == 1 and const_int(other[0]) and any(o['k'] == 'v' and o['id'] == phi['id'] for o in sops):
                for (frm, to, t) in exits:
                    if t['op'] != 'br' or len(t['ops']) != 3:
                        continue
                    cond = t['ops'][0]
                    exit_on_true = (t['ops'][2]['id'] == to)
                    i = start
                    for k in range(0, 200001):
                        env = {phi['id']: i}
                        nv = eval_int(fn, nxt, env)
                        if nv is None:
                            break
                        env[nxt['id']] = nv
                        c = eval_int(fn, cond, env)
                        if c is None:
                            break
                        if bool(c) == exit_on_true:
                            return 'counted', k + 1, 'induction %%%d from %d step %s, exit test evaluated on the induction sequence' % (phi['id'], start, step['op'])
                        i = nv
        # ---- halving
        if step['op'] in ('sdiv', 'udiv', 'lshr', 'ashr') and sops[0]['k'] == 'v' and sops[0]['id'] == phi['id'] and const_int(sops[1]):
            d = const_int(sops[1])[0]
            if (step['op'] in ('sdiv', 'udiv') and d >= 2) or (step['op'] in ('lshr',) and d >= 1):
                for (frm, to, t) in exits:
                    if t['op'] != 'br' or len(t['ops']) != 3:
                        continue
                    cond = t['ops'][0]
                    exit_on_true = (t['ops'][2]['id'] == to)
                    c = eval_int(fn, cond, {nxt['id']: 0})
                    if c is not None and bool(c) == exit_on_true:
                        return 'halving', ty.bits, '%%%d = %s %%%d, %d reaches 0 within %d iterations and the exit test holds at 0' % (nxt['id'], step['op'], phi['id'], d, ty.bits)
    # ---- mask loop?
    for (frm, to, t) in exits:
        if t['op'] == 'br' and len(t['ops']) == 3 and t['ops'][0]['k'] == 'v':
            c = fn['insts'][t['ops'][0]['id']]
            if is_mask_reduction(fn, c):
                return 'mask', None, 'exit on a whole-batch reduction of a lane mask'
    body = [i for b in lp.blocks for i in blocks[b]['insts'] if i.get('dbg')]
    if body and all(in_trusted(i) for i in body):
        return 'trusted', None, 'fdlibm rem_pio2 port (every instruction of the loop carries a rem_pio2 inlining frame)'
    return 'unknown', None, 'no recognised induction / halving / mask structure'


def is_mask_reduction(fn, c, depth=0):
    """is the branch condition c a test of a whole-batch reduction of lane masks (bitcast <n x i1> -> iN possibly
    combined with and/or/xor, movmsk, ptest/vtest)?"""
    if depth > 6:
        return False
    if c['op'] in ('icmp', 'and', 'or', 'xor', 'trunc', 'zext'):
        for o in c['ops']:
            if o['k'] == 'v' and is_mask_reduction(fn, fn['insts'][o['id']], depth + 1):
                return True
        return False
    if c['op'] == 'bitcast' and c['ops'][0]['k'] == 'v':
        st = parse_type(fn['insts'][c['ops'][0]['id']]['ty'])
        return st.kind == 'vec' and st.elem.bits == 1
    if c['op'] == 'call':
        nm = c.get('callee') or ''
        return 'movmsk' in nm or 'ptest' in nm or 'vtest' in nm
    return False


def analyse_module(job):
    cfgname, text, names = job
    c = CF.BY_NAME[cfgname]
    ll, err = build.compile_tu(text, c.flags)
    if ll is None:
        return {'cfg': cfgname, 'broken': 'math wrapper TU does not compile: %s' % err[-600:]}
    mod = ir.load_ll(ll)
    res = {'cfg': cfgname, 'functions': 0, 'loops': [], 'violations': [], 'broken_list': [], 'recursion': []}
    defined = dict((n, f) for n, f in mod.functions.items() if not f.get('decl') and f['blocks'])
    for n in names:
        if n not in defined:
            res['broken_list'].append('wrapper %s missing from the IR' % n)
    # (1) call graph
    calls = collections.defaultdict(set)
    for n, f in defined.items():
        for b in f['blocks']:
            for i in b['insts']:
                if i['op'] in ('call', 'invoke') and i.get('callee') in defined:
                    calls[n].add(i['callee'])
                if i['op'] in ('call', 'invoke') and i.get('indirect'):
                    res['violations'].append(('indirect|%s' % n, 'indirect call in %s: the callee cannot be bounded' % n, src_of(i)))
    cycles = []
    color = {}

    def dfs(u, stack):
        color[u] = 1
        for v in sorted(calls[u]):
            if color.get(v) == 1:
                cycles.append(stack[stack.index(v):] + [v] if v in stack else [u, v])
            elif v not in color:
                dfs(v, stack + [v])
        color[u] = 2
    for n in sorted(defined):
        if n not in color:
            dfs(n, [n])
    res['recursion'] = cycles
    # (2) loops: structural classification of every natural loop
    per_fn = {}
    for n, f in sorted(defined.items()):
        res['functions'] += 1
        loops, irr, succ, idom = CFG.natural_loops(f)
        if irr:
            res['violations'].append(('irreducible|%s' % n, 'irreducible control flow in %s' % n, None))
        blocks = dict((b['id'], b) for b in f['blocks'])
        mask_loops = []
        for lp in loops:
            kind, bound, txt = classify_loop(f, lp, blocks, succ)
            where = src_of(blocks[lp.header]['insts'][-1])
            rec = {'fn': n, 'header': lp.header, 'kind': kind, 'bound': bound, 'text': txt, 'src': where, 'depth': lp.depth}
            if kind == 'mask':
                mask_loops.append((lp, rec))
            elif kind == 'unknown':
                res['violations'].append(('loop|%s|%s' % (short(n), where), 'loop at %s (function %s) has no recognised constant bound: %s' % (where, short(n), txt), where))
            res['loops'].append(rec)
        per_fn[n] = mask_loops
    # (3) per-lane abstract interpretation, context sensitive: wrappers with the full argument range, every other function
    #     with the join of what its reachable call sites pass (iterated to a fixpoint)
    need = set(n for n in defined if per_fn[n] or calls[n])
    on_cycle = set(x for cyc in cycles for x in cyc)
    ranges = {}
    runs = {}

    def merge(callee, rng):
        cur = ranges.get(callee)
        if cur is None:
            ranges[callee] = list(rng)
            return True
        old = list(cur)
        if rng[0] is not None:
            cur[0] = rng[0] if cur[0] is None else min(cur[0], rng[0])
            cur[1] = rng[1] if cur[1] is None else max(cur[1], rng[1])
        cur[2] = cur[2] or rng[2]
        return cur != old
    work = [n for n in sorted(need) if n in names]
    rounds = 0
    while work and rounds < 40:
        rounds += 1
        n = work.pop(0)
        f = defined[n]
        try:
            ai = laneai.LaneAI(mod, f, entry=None if n in names else tuple(ranges.get(n, (None, None, False))))
            out = ai.run()
            runs[n] = (ai, dict((r['header'], r) for r in out), None)
            for callee, rng in ai.call_args.items():
                if merge(callee, rng) and callee in need and callee not in work:
                    work.append(callee)
                elif callee in need and callee not in runs and callee not in work:
                    work.append(callee)
        except laneai.Giveup as e:
            runs[n] = (None, {}, str(e))
            for callee in calls[n]:
                if merge(callee, (-float('inf'), float('inf'), True)) and callee in need and callee not in work:
                    work.append(callee)
    for n in sorted(need):
        mask_loops = per_fn[n]
        if n not in runs:
            # never called from an analysed entry point: analyse with the full range
            try:
                ai = laneai.LaneAI(mod, defined[n])
                out = ai.run()
                runs[n] = (ai, dict((r['header'], r) for r in out), None)
            except laneai.Giveup as e:
                runs[n] = (None, {}, str(e))
        ai, by_h, err = runs[n]
        ctx = '' if n in names or n not in ranges else ' [called with lane values in [%s, %s]%s]' % (ranges[n][0], ranges[n][1], ' or NaN' if ranges[n][2] else '')
        for (lp, rec) in mask_loops:
            key = 'loop|%s|%s' % (short(n), rec['src'])
            if err:
                res['violations'].append((key, 'mask loop at %s cannot be analysed: %s' % (rec['src'], err), rec['src']))
                continue
            r = by_h.get(lp.header)
            if r is None:
                rec['bound'] = 0
                rec['text'] = 'not reachable' + ctx
                continue
            rec['bound'] = r['bound']
            rec['text'] = r['why'] + ctx
            if r['bound'] is None:
                res['violations'].append((key, 'while(any(mask)) loop at %s (in %s, %s)%s: %s' % (rec['src'], short(n), cfgname, ctx, r['why']), rec['src']))
    for cyc in cycles:
        live = []
        for u, v in zip(cyc, cyc[1:]):
            ai = runs.get(u, (None, {}, 'not analysed'))[0]
            if ai is None or v in ai.call_args:
                live.append((u, v))
        if len(live) == len(cyc) - 1:
            res['violations'].append(('recursion|' + short(cyc[0]), 'recursive call cycle %s is reachable: the recursion depth is not bounded' % ' -> '.join(short(x) for x in cyc), None))
        else:
            res['loops'].append({'fn': cyc[0], 'header': -1, 'kind': 'recursion-cut', 'bound': len(cyc), 'src': short(cyc[0]), 'depth': 0,
                                 'text': 'call cycle %s: under the lane values its call sites can pass%s the recursive call is unreachable' % (' -> '.join(short(x) for x in cyc), ' (%s)' % (ranges.get(cyc[0]),))})
    return res


def short(n):
    if n.startswith('_Z'):
        for key in ('large_negative', 'tgamma', 'lgamma', 'rem_pio2'):
            if key in n:
                return key + ('<double>' if 'IdN' in n or 'Id' in n else '<float>')
        return n[:40]
    return n


def run(a):
    r = report.Run('C14', a.tier, 'proof')
    jobs = []
    for cn in CONFIGS:
        text, names = math_tu(CF.BY_NAME[cn].arch)
        jobs.append((cn, text, names))
    nob = 0
    kinds = collections.Counter()
    samples = []
    seen = set()
    nfun = 0
    with ProcessPoolExecutor(max_workers=3) as ex:
        for res in ex.map(analyse_module, jobs):
            if 'broken' in res:
                r.broke(res['broken'])
                continue
            for b in res['broken_list']:
                r.broke('%s: %s' % (res['cfg'], b))
            nfun += res['functions']
            nob += res['functions']        # obligation: call graph acyclic / CFG reducible per function
            for rec in res['loops']:
                nob += 1
                kinds[rec['kind']] += 1
                if rec['kind'] == 'mask' and len(samples) < 8 and res['cfg'] in ('sse4_1', 'avx512f'):
                    samples.append({'obligation': 'loop|%s|%s|%s' % (res['cfg'], short(rec['fn']), rec['src']), 'kind': rec['kind'], 'proven_bound': rec['bound'], 'argument': rec['text']})
                elif rec['kind'] in ('counted', 'halving') and len(samples) < 12 and (rec['kind'], rec['src']) not in seen:
                    seen.add((rec['kind'], rec['src']))
                    samples.append({'obligation': 'loop|%s|%s|%s' % (res['cfg'], short(rec['fn']), rec['src']), 'kind': rec['kind'], 'proven_bound': rec['bound'], 'argument': rec['text']})
            for (key, what, where) in res['violations']:
                k2 = key + '|' + res['cfg']
                r.violation(k2, what, {'cfg': res['cfg'], 'what': what, 'source': where})
    # a loop that lost its recognised bound is reported as a violation above: it still counts towards the inventory floor
    if kinds['mask'] + kinds['unknown'] < 8 or kinds['counted'] + kinds['trusted'] + kinds['unknown'] < 1000 or kinds['halving'] + kinds['unknown'] < 2 or nfun < 300:
        r.broke('inventory below the floor: %d functions, loops by kind %s (expected >= 300 functions, >= 8 mask loops, >= 2 halving loops, >= 1000 counted/trusted loops)' % (nfun, dict(kinds)))
    nbad = len(set(k for (k, w, d) in r.violations)) + len(set(x[1] for x in r.known_hits))
    cov = {'obligations': nob, 'discharged': nob - nbad, 'checker_cmd': 'python3 /verif/check.py C14 --tier %s' % a.tier,
           'trusted_base': ['clang 14 -O2 translation of the headers to LLVM IR', 'natural-loop inventory of engine/cfg.py (dominator based; irreducible CFGs are reported)',
                            'engine/laneai.py per-lane abstract interpreter (monotone x+c chains, threshold location by bisection in the element type, collective resolution of any/all branches)',
                            'the loops of the fdlibm port __kernel_rem_pio2/__ieee754_rem_pio2 are TRUSTED by name (single suppression): their trip counts are bounded by the table-derived jz/jk/jx of the published fdlibm analysis'],
           'functions': nfun, 'loops_by_kind': dict(kinds), 'configurations': CONFIGS, 'samples': samples, 'evaluations': nob, 'distinct_nontrivial': nob - nbad,
           'rule': 'per function: call graph acyclic, CFG reducible, every natural loop counted / halving / mask-bounded / trusted(rem_pio2)',
           'exhaustive': True, 'headers_sha256': build.headers_hash()}
    return r.finish(cov, ['wall-clock time is not analysed; "bounded time" is read as "every cycle has a constant iteration bound"',
                          'the generic elementary-function code is analysed on %s; the per-architecture primitives it calls are straight-line (C01-C09 decide them)' % ', '.join(CONFIGS),
                          'libm calls (none on x86 in the analysed wrappers) would be trusted to terminate'])
