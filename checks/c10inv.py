"""C10 / C11 kernel-accuracy clause for atan, asin, acos (see checks/c10.py for the clause and its limits).

The lane term is split into its select cases; in each case the value must have the shape  c + m * K(U)  where
  * U is the transformed argument: the operand of the first squaring (atan: x, (x-1)/(x+1), -1/x) taken as an atom, or a
    sqrt atom sqrt(a |x| + b) with a + b = 0 (asin/acos near 1; |x| is then eliminated through |x| = (U^2 - b)/a);
  * K(U) = U + U^3 R(U^2) is compared with atan(U) resp. asin(kappa U) (kappa = sqrt(-1/(2a)), 1 without sqrt) through
    the Taylor enclosure of atan(u)/u resp. asin(u)/u on the whole range of U that the case's conditions allow;
  * c must be a multiple of pi/4 (its distance to the nearest one is an absolute error of the result), m in {1,-1,2,-2}
    (which (c, m) belongs to which case is NOT decided).
"""
from fractions import Fraction as Fr

from engine import terms as T, realfn as RFN, qi as Q
from engine.realfn import NotReal
from . import c10trig as TR


def implied(rg, cbv, track):
    """truth of a comparison of |x| with a constant under the range, or None"""
    probe_t, probe_f = TR.Range(), TR.Range()
    probe_t.lo, probe_t.hi = rg.lo, rg.hi
    probe_f.lo, probe_f.hi = rg.lo, rg.hi
    if not TR.apply_cond(probe_t, 'is', cbv, track) or not TR.apply_cond(probe_f, 'not', cbv, track):
        return None
    # a degenerate interval [c, c] counts as infeasible: strictness of the comparisons is not tracked, and a single
    # boundary point does not change a supremum over the closure
    t_ok = probe_t.hi is None or probe_t.lo < probe_t.hi
    f_ok = probe_f.hi is None or probe_f.lo < probe_f.hi
    # strictness is not tracked: a degenerate interval [c, c] counts as feasible for both; use interiors
    if t_ok and not f_ok:
        return True
    if f_ok and not t_ok:
        return False
    return None


def refine(rg, conds, condmap, track):
    """apply the case's conditions (possibly conjunctions / disjunctions of comparisons) to the range of |x|; False if
    some condition on the tracked lane stays uninterpreted"""
    pending = []
    for (ck, taken) in conds:
        cb = condmap.get(ck)
        if cb is None:
            return False
        pending.append((cb, taken))
    if not pending:
        return True
    for _ in range(5):
        rest = []
        applied = 0
        for (cb, taken) in pending:
            t = T.single_term(T.canon(cb))
            if t is not None and t.name in ('and', 'or') and T.width(cb) == 1:
                a, b = t.ops
                conj = (t.name == 'and') == taken          # and=True / or=False: both operands are fixed
                if conj:
                    rest.append((a, taken))
                    rest.append((b, taken))
                else:
                    ia, ib = implied(rg, a, track), implied(rg, b, track)
                    # and == False: if one operand is known true the other is false (dually for or == True)
                    want_known = (t.name == 'and')
                    if ia is not None and ia == want_known:
                        rest.append((b, taken))
                    elif ib is not None and ib == want_known:
                        rest.append((a, taken))
                    elif (ia is not None and ia != want_known) or (ib is not None and ib != want_known):
                        pass                                # already satisfied
                    else:
                        rest.append((cb, taken))            # try again after the others
                continue
            if not TR.apply_cond(rg, 'is' if taken else 'not', cb, track):
                return False
            applied += 1
        if rg.hi is not None and rg.lo >= rg.hi:
            return True                                 # contradictory conditions: the caller drops the case
        if not applied and len(rest) == len(pending) and all(x is y for (x, _), (y, _) in zip(rest, pending)):
            return False
        pending = rest
        if not pending:
            return True
    return not pending


def eval_bit(bv, rg, track):
    """value (0/1) of a one-bit term built from comparisons of |x| with constants, under the range of |x|; None if open"""
    bv = T.canon(bv)
    if T.is_const(bv):
        return T.const_val(bv) & 1
    t = T.single_term(bv)
    if t is None:
        return None
    if t.name in ('and', 'or', 'xor') and t.width == 1:
        a, b = eval_bit(t.ops[0], rg, track), eval_bit(t.ops[1], rg, track)
        if t.name == 'and':
            if a == 0 or b == 0:
                return 0
            return 1 if (a == 1 and b == 1) else None
        if t.name == 'or':
            if a == 1 or b == 1:
                return 1
            return 0 if (a == 0 and b == 0) else None
        return None if (a is None or b is None) else a ^ b
    if t.name == 'not' and t.width == 1:
        a = eval_bit(t.ops[0], rg, track)
        return None if a is None else 1 - a
    r = implied(rg, bv, track)
    return None if r is None else int(r)


def eval_bits(bv, rg, track):
    """integer value of a bit vector assembled from constants and condition bits, under the range of |x|"""
    v, sh = 0, 0
    for pce in T.canon(bv):
        w = T.pw(pce)
        if pce[0] == 'c':
            x = pce[2]
        elif pce[0] == 'r':
            b = eval_bit((pce[1],), rg, track)
            if b is None:
                return None
            x = ((1 << w) - 1) if b else 0
        elif pce[0] == 's' and w == 1 and pce[1].width == 1:
            b = eval_bit((pce,), rg, track)
            if b is None:
                return None
            x = b
        elif pce[0] == 's':
            t = pce[1]
            full = None
            if t.name == 'sel':
                c = eval_bit(t.ops[0], rg, track)
                if c is None:
                    return None
                full = eval_bits(t.ops[1] if c else t.ops[2], rg, track)
            elif t.name in ('and', 'or', 'xor') and len(t.ops) == 2:
                a, b = eval_bits(t.ops[0], rg, track), eval_bits(t.ops[1], rg, track)
                if a is not None and b is not None:
                    full = {'and': a & b, 'or': a | b, 'xor': a ^ b}[t.name]
            elif t.name == 'not':
                a = eval_bits(t.ops[0], rg, track)
                if a is not None:
                    full = a ^ ((1 << t.width) - 1)
            if full is None:
                return None
            x = (full >> pce[2]) & ((1 << w) - 1)
        else:
            return None
        v |= x << sh
        sh += w
    return v


def rf_range(num, den, lo, hi, pieces=256):
    """enclosure of num(x)/den(x) on [lo, hi] by subdivision (den must not vanish)"""
    out = None
    lo, hi = Fr(lo), Fr(hi)
    for i in range(pieces):
        a = lo + (hi - lo) * i / pieces
        b = lo + (hi - lo) * (i + 1) / pieces
        X = Q.QI(a, b)
        d = den.to_qi().ev(X)
        if d.lo <= 0 <= d.hi:
            raise ZeroDivisionError('transform denominator may vanish')
        v = num.to_qi().ev(X) / d
        out = v if out is None else out.hull(v)
    return out


def analyse_inv(mod, fname, func, bits, thr, arg_sign=None):
    from .c10 import Mismatch, ulps, lane_term, walk_terms
    track = 1
    T.reset()
    term, w = lane_term(mod, fname, arg_sign)
    # 1. the transformed argument: operand of a squaring
    sq_ops = []
    for t in walk_terms(term):
        if t.name == 'fmul' and T._key(T.canon(t.ops[0])) == T._key(T.canon(t.ops[1])):
            sq_ops.append(T.canon(t.ops[0]))
    ex0 = RFN.Extract()
    stop = None
    for cand in sq_ops:
        try:
            cc = ex0.cases_abs(cand) if T.single_term(cand) is None else ex0.cases(cand)
        except NotReal:
            continue
        ats = set()
        for (_, f) in cc:
            ats |= f.atoms()
        # candidate must be built from |x| (and sqrt atoms) only, and must not be |x| itself squared twice (z*z)
        if all(TR.is_ax(ex0.atoms[a], track) or (T.single_term(ex0.atoms[a]) is not None and T.single_term(ex0.atoms[a]).name.startswith(('sqrt', 'call:llvm.sqrt', 'x86.sqrt', 'llvm.sqrt'))) for a in ats):
            degs = [max([sum(e for _, e in m) for m in f.num] or [0]) for (_, f) in cc]
            if stop is None or max(degs) < stop[1]:
                stop = (cand, max(degs), cc)
    if stop is None:
        raise Mismatch('no transformed argument (operand of a squaring) found')
    ucand, _, ucases = stop
    ukey = T._key(ucand)
    ex = ex0                                   # one extractor: the value and the transform share atoms
    cs = ex.cases_abs(term)

    out = {'cases': []}
    condmap = dict(getattr(ex, 'conds', {}))
    for (conds, g) in cs:
        ats = g.atoms()
        if not ats or all(T.is_const(ex.atoms[a]) for a in ats):
            continue                                    # NaN / constant result
        rg = TR.Range()
        rec = {}
        if not refine(rg, conds, condmap, track):
            rec.update(verdict='skipped', why='a case condition is not a comparison of |x| with a constant: %s' % [('%s=%s' % (T.fmt(condmap[ck], 3)[:70] if ck in condmap else '?', tk)) for (ck, tk) in conds])
            out['cases'].append(rec)
            continue
        if rg.hi is not None and rg.lo >= rg.hi:
            continue
        xmax = rg.hi if rg.hi is not None else Fr(2) ** (127 if bits == 32 else 1023)
        if func in ('asin', 'acos'):
            xmax = min(xmax, Fr(1))
            if rg.lo > 1:
                continue
        rec['x_range'] = (float(rg.lo), float(xmax))
        try:
            rec.update(one_case(ex, ex0, g, conds, ucases, rg.lo, xmax, track, bits, func))
            rec['verdict'] = 'ok' if rec.pop('ulp_exact') <= thr else 'bad'
        except Mismatch as e:
            rec.update(verdict='mismatch', why=str(e)[:200])
        except ZeroDivisionError as e:
            rec.update(verdict='mismatch', why='zero division: %s' % e)
        out['cases'].append(rec)
    return out


def one_case(ex, ex0, g, conds, ucases, xlo, xhi, track, bits, func):
    from .c10 import Mismatch, ulps
    U = 10 ** 6                                  # a fresh atom number for the transformed argument
    # atoms assembled from condition bits only (offsets selected at the bit level): constants under this case's range
    rgc = TR.Range()
    rgc.lo, rgc.hi = xlo, xhi
    import struct
    for a in sorted(g.atoms(), key=repr):
        if TR.is_ax(ex.atoms[a], track) or T.single_term(ex.atoms[a]) is not None:
            continue
        v = eval_bits(ex.atoms[a], rgc, track)
        if v is None:
            continue
        wv = T.width(ex.atoms[a])
        x = struct.unpack('<f', struct.pack('<I', v))[0] if wv == 32 else struct.unpack('<d', struct.pack('<Q', v))[0]
        g = g.subst(a, RFN.p_const(Fr(x)))
    extra = [a for a in g.atoms()]
    kappa = Fr(1)
    gU = g
    # the transform of this case (as a function of |x|, possibly of a sqrt atom)
    tcase = None
    for (cc, f) in ucases:
        cm = RFN._merge_conds([tuple(conds), cc])
        if cm is not None:
            tcase = f
            break
    if tcase is None:
        raise Mismatch('no transform compatible with the case')
    def is_sqrt_atom(a):
        t_ = T.single_term(ex0.atoms[a])
        return t_ is not None and t_.name.startswith(('sqrt', 'call:llvm.sqrt', 'x86.sqrt', 'llvm.sqrt', 'x86.sse.sqrt', 'x86.sse2.sqrt', 'x86.avx.sqrt', 'x86.avx512.mask.sqrt'))

    def is_signed_arg(a):
        t_ = T.single_term(ex0.atoms[a])
        return t_ is not None and t_.kind == 'arg' and t_.attrs == track
    # magnitude analysis: the signed argument is read as |x| (x >= 0 without loss of generality: the sign is re-attached
    # by the caller and the symmetry itself is C12's)
    ax_atoms = [a for a in range(len(ex0.atoms)) if TR.is_ax(ex0.atoms[a], track) and not is_signed_arg(a)]
    for a in list(g.atoms()) + list(tcase.atoms()):
        if is_signed_arg(a) and ax_atoms:
            g = g.subst(a, RFN.p_atom(ax_atoms[0]))
            tcase = tcase.subst(a, RFN.p_atom(ax_atoms[0]))
    extra = [a for a in g.atoms()]
    gU = g
    sq = [a for a in g.atoms() if is_sqrt_atom(a)]
    urng = None
    if sq:
        # U = sqrt(a |x| + b): eliminate |x| from the value through |x| = (U^2 - b)/a
        if len(sq) != 1:
            raise Mismatch('two sqrt atoms')
        tcase = RFN.RF(RFN.p_atom(sq[0]))
        st = T.single_term(ex0.atoms[sq[0]])
        inner = ex0.cases(st.ops[0])
        inner = [f for (cc, f) in inner if RFN._merge_conds([tuple(conds), cc]) is not None]
        if len(inner) != 1 or inner[0].den != RFN.p_const(1):
            raise Mismatch('sqrt operand is not a polynomial')
        ip = inner[0].num
        for a in list(RFN.p_atoms(ip)):
            if is_signed_arg(a) and ax_atoms:
                ip = RFN.p_subst(ip, a, RFN.p_atom(ax_atoms[0]))
        axs = [a for a in RFN.p_atoms(ip)]
        if len(axs) != 1 or not TR.is_ax(ex0.atoms[axs[0]], track):
            raise Mismatch('sqrt operand is not a function of |x|')
        co = RFN.p_univariate(ip, axs[0])
        if len(co) != 2:
            raise Mismatch('sqrt operand is not affine in |x|')
        b_, a_ = co
        if a_ + b_ != 0 or a_ >= 0:
            raise Mismatch('sqrt operand is not a (1 - |x|)')
        k2 = -1 / (2 * a_)                               # kappa^2
        import math
        kn, kd = math.isqrt(k2.numerator), math.isqrt(k2.denominator)
        if kn * kn != k2.numerator or kd * kd != k2.denominator:
            raise Mismatch('sqrt scaling is not a rational square')
        kappa = Fr(kn, kd)
        # |x| atoms of the value (in ex) -> (U^2 - b)/a
        for a in extra:
            if a == sq[0]:
                continue
            if not TR.is_ax(ex.atoms[a], track):
                raise Mismatch('unexpected atom in the value')
            gU = gU.subst(a, RFN.p_add({((U, 2),): 1 / a_}, RFN.p_const(-b_ / a_)))
        gU = gU.subst(sq[0], {((U, 1),): tcase.num[((sq[0], 1),)]}) if sq[0] in gU.atoms() else gU
        lo_z, hi_z = a_ * xhi + b_, a_ * xlo + b_
        urng = Q.QI(Q.sqrt_qi(max(lo_z, Fr(0))).lof() if lo_z > 0 else Fr(0), Q.sqrt_qi(hi_z).hif() if hi_z > 0 else Fr(0))
        sgn = tcase.num[((sq[0], 1),)]
        if sgn not in (Fr(1), Fr(-1)):
            raise Mismatch('scaled sqrt')
        if sgn < 0:
            urng = -urng
    else:
        axs = sorted(tcase.atoms())
        if len(axs) != 1 or any(a != axs[0] for a in extra):
            raise Mismatch('value or transform does not depend on |x| alone: transform atoms %s value atoms %s' % ([T.fmt(ex.atoms[a], 3)[:60] for a in axs], [T.fmt(ex.atoms[a], 3)[:90] for a in extra]))
        AX = axs[0]
        tn, td = Q.Poly(RFN.p_univariate(tcase.num, AX)), Q.Poly(RFN.p_univariate(tcase.den, AX))
        if tn.deg() > 1 or td.deg() > 1:
            raise Mismatch('the argument transform is not a Moebius map')
        a_, b_ = (tn.c[1] if tn.deg() == 1 else Fr(0)), tn.c[0]
        c_, d_ = (td.c[1] if td.deg() == 1 else Fr(0)), td.c[0]
        if a_ * d_ - b_ * c_ == 0:
            raise Mismatch('degenerate transform')
        # U = (a x + b)/(c x + d)  <=>  x = (d U - b)/(a - c U)
        gU = g.subst_rf(AX, {((U, 1),): d_, (): -b_} if b_ != 0 else {((U, 1),): d_}, {(): a_, ((U, 1),): -c_} if c_ != 0 else {(): a_})
        gU = RFN.RF(dict((m, v) for m, v in gU.num.items() if v != 0), dict((m, v) for m, v in gU.den.items() if v != 0))
        if xhi > Fr(2) ** 40:
            if not (a_ == 0 and d_ == 0):
                raise Mismatch('unbounded case with a transform that is not c/x')
            v1 = Q.QI(b_) / Q.QI(c_ * xlo)
            urng = v1.hull(Q.QI(0))
        else:
            urng = rf_range(tn, td, xlo, xhi)
    N, D = Q.Poly(RFN.p_univariate(gU.num, U)), Q.Poly(RFN.p_univariate(gU.den, U))
    if D.c[0] == 0:
        raise Mismatch('value singular at U = 0')
    c_off = N.c[0] / D.c[0]
    Np = N - D * c_off
    N1 = Np.shift_down(1)
    m = N1.c[0] / D.c[0]
    ms = m / kappa
    if ms not in (Fr(1), Fr(-1), Fr(2), Fr(-2)):
        raise Mismatch('the kernel is not +-1 / +-2 times the inverse function near 0 (slope %s)' % float(ms))
    ulo, uhi = urng.lof(), urng.hif()
    sl = (uhi - ulo) / 2048 + Fr(1, 10 ** 12)
    ulo, uhi = ulo - sl, uhi + sl
    R = max(abs(ulo), abs(uhi)) * kappa
    if R >= Fr(9, 10):
        return {'ulp_exact': Fr(10 ** 9), 'ulp': float('inf'), 'u_range': (float(ulo), float(uhi)), 'why': 'transformed argument ranges up to %.3g: outside the convergence region of the kernel' % float(R)}
    eb = 50 if bits == 32 else 85
    ser = (Q.atan_over_x_series if func == 'atan' else Q.asin_over_x_series)(R, eps_bits=eb)
    # K(U)/U = N1/D ; target m * f(kappa U)/U = m kappa * S(kappa U)
    S = ser.poly.compose(Q.Poly([0, kappa])) * (ms * kappa)
    diff = N1.to_qi() - S.to_qi() * D.to_qi()
    tail = ser.tail * abs(ms * kappa)
    q_err = Q.sup_ratio(diff, D, ulo, uhi, 96, tail)
    pio4 = Q.pi() * Fr(1, 4)
    j = round(float(c_off) / 0.7853981633974483)
    e_off = (Q.QI(c_off) - pio4 * j).mag()
    Srng = Q.range_qi(S, ulo, uhi, 32).widen(tail)
    umax = max(abs(ulo), abs(uhi))
    if j == 0:
        if Srng.mig() == 0:
            raise Mismatch('degenerate kernel')
        rho = q_err / Srng.mig() + (e_off / (Srng.mig() * umax) if e_off else 0)
        rho_k = q_err / Srng.mig()
    else:
        true_lo = (pio4 * j).mig() - Srng.mag() * umax
        if true_lo <= 0:
            raise Mismatch('offset and kernel may cancel')
        rho = (q_err * umax + e_off) / true_lo
        rho_k = q_err * umax / true_lo
    return {'ulp_exact': ulps(rho, bits), 'ulp': float(ulps(rho, bits)), 'kernel_ulp': float(ulps(rho_k, bits)), 'offset': float(c_off), 'offset_multiple_of_pio4': j,
            'offset_err': float(e_off), 'slope': float(ms), 'kappa': float(kappa), 'u_range': (float(ulo), float(uhi)), 'degree': (N.deg(), D.deg())}


def analyse_inv_pieces(mod, fname, func, bits, thr):
    """acos: the same kernel comparison as analyse_inv, but the half lines x >= 0 and x <= 0 are analysed separately (the
    sign bit of the argument is a constant) and the select case that serves a piece of |x| between two switch points is
    found by evaluating the case's conditions at three points of the piece (exact constant propagation), because the
    conditions of the inner asin compare sqrt((1 - |x|)/2) -- not |x| -- with 1/2."""
    from .c10 import Mismatch, lane_term, walk_terms
    from engine import pointeval as PE
    from . import c10cont
    track = 1
    out = {'cases': []}
    for sg in (0, 1):
        T.reset()
        term, w = lane_term(mod, fname, sg)
        sq_ops = []
        for t in walk_terms(term):
            if t.name == 'fmul' and T._key(T.canon(t.ops[0])) == T._key(T.canon(t.ops[1])):
                sq_ops.append(T.canon(t.ops[0]))
        ex = RFN.Extract()
        stop = None
        for cand in sq_ops:
            try:
                cc = ex.cases_abs(cand) if T.single_term(cand) is None else ex.cases(cand)
            except NotReal:
                continue
            ats = set()
            for (_, f) in cc:
                ats |= f.atoms()
            if all(TR.is_ax(ex.atoms[a], track) or (T.single_term(ex.atoms[a]) is not None and T.single_term(ex.atoms[a]).name.startswith(('sqrt', 'call:llvm.sqrt', 'x86.sqrt', 'llvm.sqrt'))) for a in ats):
                degs = [max([sum(e for _, e in m) for m in f.num] or [0]) for (_, f) in cc]
                if stop is None or max(degs) < stop[1]:
                    stop = (cand, max(degs), cc)
        if stop is None:
            raise Mismatch('no transformed argument (operand of a squaring) found')
        ucases = stop[2]
        cs = ex.cases(term)
        condmap = dict(getattr(ex, 'conds', {}))
        argname = None
        points = set()
        for t in walk_terms(term):
            if t.kind == 'arg' and t.attrs == track:
                argname = t.name
            if t.name.startswith('f') and t.name[1:] in ('olt', 'ole', 'ogt', 'oge', 'ult', 'ule', 'ugt', 'uge') and t.width == 1:
                points |= set(abs(x) for x in c10cont.affine_cmp(ex, t, None))
        if argname is None:
            raise Mismatch('no argument')
        cuts = sorted(set([Fr(0), Fr(1)] + [x for x in points if 0 < x < 1]))
        sign = -1 if sg else 1
        for a, b in zip(cuts, cuts[1:]):
            h = (b - a) / 2
            evs = [PE.PointEval({argname: sign * x_}) for x_ in (a + h / 16, a + h, b - h / 16)]
            chosen = []
            for (conds, g) in cs:
                try:
                    ok3 = [all(bool(ev.bits(condmap[ck]) & 1) == taken for (ck, taken) in conds) for ev in evs]
                except (PE.Unevaluable, KeyError, ValueError, ZeroDivisionError) as e:
                    out['cases'].append({'verdict': 'mismatch', 'x_range': (float(a), float(b)), 'sign': sign, 'why': 'a case condition cannot be evaluated: %s' % e})
                    chosen = None
                    break
                if any(ok3) and not all(ok3):
                    out['cases'].append({'verdict': 'mismatch', 'x_range': (float(a), float(b)), 'sign': sign, 'why': 'a case condition changes inside the piece'})
                    chosen = None
                    break
                if all(ok3):
                    chosen.append((conds, g))
            if chosen is None:
                continue
            if len(chosen) != 1:
                out['cases'].append({'verdict': 'mismatch', 'x_range': (float(a), float(b)), 'sign': sign, 'why': '%d select cases serve the piece' % len(chosen)})
                continue
            conds, g = chosen[0]
            if sg:
                # x = -|x|: the atom -|x| was read as -(|x| atom) by the extractor; nothing to do
                pass
            rec = {'x_range': (float(a), float(b)), 'sign': sign}
            try:
                rec.update(one_case(ex, ex, g, conds, ucases, a, b, track, bits, 'asin'))
                # acos(x) = pi/2 - asin(x): the offset must be an ODD multiple of pi/4 ... of pi/2 resp. pi: checked by one_case as a multiple of pi/4; which multiple:
                want = None
                if b <= Fr(1, 2):
                    want = 2                               # pi/2 -+ asin|x|
                elif sign > 0:
                    want = 0                               # 2 asin(sqrt((1 - x)/2))
                else:
                    want = 4                               # pi - 2 asin(sqrt((1 - |x|)/2))
                want_slope = (-sign) if b <= Fr(1, 2) else 2 * sign
                if rec.get('offset_multiple_of_pio4') == want and rec.get('slope') != want_slope:
                    rec['ulp_exact'] = Fr(10 ** 9)
                    rec['ulp'] = float('inf')
                    rec['why'] = 'slope %s in the transformed argument, acos needs %s on this piece' % (rec.get('slope'), want_slope)
                if rec.get('offset_multiple_of_pio4') != want:
                    rec['ulp_exact'] = Fr(10 ** 9)
                    rec['ulp'] = float('inf')
                    rec['why'] = 'offset %s pi/4, acos needs %s pi/4 on this piece' % (rec.get('offset_multiple_of_pio4'), want)
                rec['verdict'] = 'ok' if rec.pop('ulp_exact') <= thr else 'bad'
            except Mismatch as e:
                rec.update(verdict='mismatch', why=str(e)[:200])
            except ZeroDivisionError as e:
                rec.update(verdict='mismatch', why='zero division: %s' % e)
            out['cases'].append(rec)
    return out
